package main

import (
	"fmt"
	"go/constant"
	"go/token"
	"go/types"
	"sort"
	"strings"

	"golang.org/x/tools/go/ssa"
)

func init() {
	register("C01", "equality of decoded values for arbitrary strings, numbers and nesting (escaping, unicode, float64 in generic JSON, time.Time in chat types); strings containing the reserved separators; behaviour of encoding/json and net/url (trusted)", c01)
}

// codecPair is a struct type with its struct→wire and wire→struct functions.
type codecPair struct {
	T    *types.Named
	W    *types.Named
	Enc  *ssa.Function
	Dec  *ssa.Function
	name string
}

func codecPairs(p *Prog) []codecPair {
	wires := wireStructs(p)
	isWire := func(t types.Type) *types.Named {
		n := namedOf(t)
		for _, w := range wires {
			if n != nil && n.Obj() == w.Obj() {
				return w
			}
		}
		return nil
	}
	var out []codecPair
	sc := p.LimeT.Scope()
	for _, name := range sc.Names() {
		tn, ok := sc.Lookup(name).(*types.TypeName)
		if !ok {
			continue
		}
		nt, ok := tn.Type().(*types.Named)
		if !ok {
			continue
		}
		if _, ok := nt.Underlying().(*types.Struct); !ok {
			continue
		}
		var enc, dec *ssa.Function
		var w *types.Named
		for i := 0; i < nt.NumMethods(); i++ {
			m := nt.Method(i)
			if p.isDead(p.SSA.FuncValue(m)) {
				continue // a helper the normalisation folded into its callers
			}
			sig := m.Type().(*types.Signature)
			if sig.Params().Len() == 0 && sig.Results().Len() == 2 && isErrorType(sig.Results().At(1).Type()) {
				if ww := isWire(sig.Results().At(0).Type()); ww != nil {
					enc, w = p.SSA.FuncValue(m), ww
				}
			}
			if sig.Params().Len() == 1 && sig.Results().Len() == 1 && isErrorType(sig.Results().At(0).Type()) {
				if ww := isWire(sig.Params().At(0).Type()); ww != nil {
					dec = p.SSA.FuncValue(m)
				}
			}
		}
		if enc == nil || dec == nil {
			// a type whose JSON methods build and read the wire struct themselves (the struct↔wire helpers inlined)
			wireIn := func(fn *ssa.Function) *types.Named {
				var found *types.Named
				if fn == nil {
					return nil
				}
				eachInstr(fn, func(in ssa.Instruction) {
					if a, ok := in.(*ssa.Alloc); ok {
						if ww := isWire(a.Type()); ww != nil {
							found = ww
						}
					}
				})
				return found
			}
			var mj, uj *ssa.Function
			for i := 0; i < nt.NumMethods(); i++ {
				switch nt.Method(i).Name() {
				case "MarshalJSON":
					mj = p.SSA.FuncValue(nt.Method(i))
				case "UnmarshalJSON":
					uj = p.SSA.FuncValue(nt.Method(i))
				}
			}
			if enc == nil {
				if wm := wireIn(mj); wm != nil && (w == nil || w == wm) {
					enc, w = mj, wm
				}
			}
			if dec == nil && w != nil {
				if wu := wireIn(uj); wu == w {
					dec = uj
				}
			}
		}
		if enc != nil && dec != nil {
			out = append(out, codecPair{T: nt, W: w, Enc: enc, Dec: dec, name: name})
		}
	}
	return out
}

// flatFields lists the non-embedded fields of struct type t, flattening embedded structs.
func flatFields(t types.Type) []*types.Var {
	st, ok := t.Underlying().(*types.Struct)
	if !ok {
		return nil
	}
	var out []*types.Var
	for i := 0; i < st.NumFields(); i++ {
		f := st.Field(i)
		if f.Embedded() {
			out = append(out, flatFields(f.Type())...)
			continue
		}
		out = append(out, f)
	}
	return out
}

// fieldUse collects, transitively through static in-package callees (bounded depth), which struct fields are read and written.
type fieldUse struct {
	read, written map[*types.Var]bool
}

func collectFieldUse(p *Prog, fn *ssa.Function, depth int, fu *fieldUse, seen map[*ssa.Function]bool) {
	if fn == nil || seen[fn] || depth > 4 || len(fn.Blocks) == 0 {
		return
	}
	seen[fn] = true
	eachInstr(fn, func(in ssa.Instruction) {
		switch x := in.(type) {
		case *ssa.FieldAddr:
			f := structField(x.X.Type(), x.Field)
			if f == nil {
				return
			}
			onlyStoreTarget, anyStore := true, false
			for _, ref := range *x.Referrers() {
				if st, ok := ref.(*ssa.Store); ok && st.Addr == x {
					anyStore = true
					continue
				}
				onlyStoreTarget = false
			}
			if anyStore {
				fu.written[f] = true
			}
			if !onlyStoreTarget {
				// loaded, or its address taken (e.g. raw.Type = &msg.Type), or a sub-field accessed
				if f.Embedded() {
					return
				}
				fu.read[f] = true
			}
		case *ssa.Field:
			if f := structField(x.X.Type(), x.Field); f != nil && !f.Embedded() {
				fu.read[f] = true
			}
		case ssa.CallInstruction:
			if g := staticCallee(x); g != nil && g.Pkg == p.Lime {
				collectFieldUse(p, g, depth+1, fu, seen)
			}
		}
	})
}

func c01(r *Report, s *Sem) {
	p := r.P
	defer r.Import(s, "C12", "R4", "R11", "the receive path decodes one byte stream with one decoder: the JSON decoder of a TCP transport is created only when the connection is bound (construction, TLS upgrade), over the wrapper — a decoder replaced in mid-stream loses the bytes the old one had buffered, and the tail of one envelope is decoded as another kind", 8)
	R1 := r.Rule("R1", "field-coverage symmetry: every exported field of each envelope kind / document wrapper is read by its struct→wire function and written by its wire→struct function (embedded structs flattened, callees followed), and the set of wire-struct fields the encoder writes equals the set the decoder reads", 60)
	R2 := r.Rule("R2", "MarshalJSON marshals the value returned by the struct→wire function and UnmarshalJSON unmarshals into the same wire struct type and populates from it (one set of JSON tags for both directions)", 14)
	R3 := r.Rule("R3", "discriminator soundness: interpreting the kind discriminator over the nil-lattice with each kind's must-set / may-set wire fields yields exactly one tag, and the wire→envelope switch constructs that kind's type for it", 10)
	R4 := r.Rule("R4", "every byte-level Transport.Receive returns only the result of the shared wire→envelope conversion (no second discriminator), decoded into a fresh local wire struct on every call", 4)
	R5 := r.Rule("R5", "registries agree with their keys: one authentication factory per scheme constant whose product reports that same scheme; document factories are keyed by their product's MediaType(), which is a constant-return function for every in-repo document type", 16)
	R6 := r.Rule("R6", "text forms agree: the separator literals printed by String() equal those the parser splits on; enum MarshalText/UnmarshalText both validate and Validate accepts exactly the declared constants; URI delegates to net/url both ways", 12)
	r.Trusted = append(r.Trusted, "well-formedness assumed for R3: request has method+uri, response has method+status, notification has event, message has content+type, session has state")

	pairs := codecPairs(p)
	// the five envelope kinds and the two document wrappers must each have a struct↔wire pair (the base types Envelope
	// and Command have one only as long as their part of the conversion is a function of its own)
	for _, need := range []string{"Message", "Notification", "RequestCommand", "ResponseCommand", "Session", "DocumentContainer", "DocumentCollection"} {
		found := false
		for _, cp := range pairs {
			if cp.name == need {
				found = true
			}
		}
		if !found {
			r.Undecided(R1, "anchor-unresolved:codec pair of "+need, "-", "no struct→wire / wire→struct functions found for this type")
		}
	}
	encWrites := map[string]map[*types.Var]bool{}
	for _, cp := range pairs {
		enc := &fieldUse{map[*types.Var]bool{}, map[*types.Var]bool{}}
		dec := &fieldUse{map[*types.Var]bool{}, map[*types.Var]bool{}}
		collectFieldUse(p, cp.Enc, 0, enc, map[*ssa.Function]bool{})
		collectFieldUse(p, cp.Dec, 0, dec, map[*ssa.Function]bool{})
		encWrites[cp.name] = enc.written
		for _, f := range flatFields(cp.T) {
			if !f.Exported() {
				continue
			}
			r.Check(R1, "type "+cp.name+" / field "+f.Name()+" encoded", p.pos(cp.Enc.Pos()), enc.read[f],
				"the struct→wire function "+fnName(cp.Enc)+" (and its callees) never reads this field: it is dropped on encode")
			r.Check(R1, "type "+cp.name+" / field "+f.Name()+" decoded", p.pos(cp.Dec.Pos()), dec.written[f],
				"the wire→struct function "+fnName(cp.Dec)+" (and its callees) never stores this field: it is dropped on decode")
		}
		for _, wf := range flatFields(cp.W) {
			w, rd := enc.written[wf], dec.read[wf]
			if !w && !rd {
				continue
			}
			r.Check(R1, "type "+cp.name+" / wire "+cp.W.Obj().Name()+"."+wf.Name(), p.pos(cp.Enc.Pos()), w == rd,
				fmt.Sprintf("wire field written by encoder=%v, read by decoder=%v: the two directions disagree", w, rd))
		}
	}

	// ---- R2
	for _, cp := range pairs {
		mj, uj := p.Method(cp.name, "MarshalJSON"), p.Method(cp.name, "UnmarshalJSON")
		if mj == nil && uj == nil {
			continue // base types (Envelope, Command) are only used through their embedding kinds
		}
		if mj == nil || uj == nil {
			r.Check(R2, "type "+cp.name+" / has both MarshalJSON and UnmarshalJSON", "-", false, "only one direction is customised")
			continue
		}
		okM, whyM := false, "json.Marshal is not applied to the result of the struct→wire function"
		eachCall(mj, func(c ssa.CallInstruction) {
			f := staticCallee(c)
			if f == nil || f.Pkg == nil || f.Pkg.Pkg.Path() != "encoding/json" || f.Name() != "Marshal" {
				return
			}
			for _, l := range leaves(c.Common().Args[0]) {
				if call, idx := callOf(l); call != nil && idx == 0 && call.Call.StaticCallee() == cp.Enc {
					okM = true
				}
				// the method builds the wire struct itself
				if cp.Enc == mj && typeIs(stripConv(l).Type(), cp.W) {
					if _, isLocal := stripConv(l).(*ssa.Alloc); isLocal {
						okM = true
					}
				}
			}
		})
		r.Check(R2, "func "+fnName(mj)+" / marshals struct→wire result", p.pos(mj.Pos()), okM, whyM)
		okU, whyU := false, "json.Unmarshal target is not the wire struct later passed to the wire→struct function"
		eachCall(uj, func(c ssa.CallInstruction) {
			f := staticCallee(c)
			if f == nil || f.Pkg == nil || f.Pkg.Pkg.Path() != "encoding/json" || f.Name() != "Unmarshal" {
				return
			}
			tgt := stripConv(c.Common().Args[1])
			if !typeIs(tgt.Type(), cp.W) {
				whyU = "json.Unmarshal decodes into " + tgt.Type().String() + ", not *" + cp.W.Obj().Name()
				return
			}
			if _, isLocal := tgt.(*ssa.Alloc); isLocal && cp.Dec == uj {
				okU = true // the method reads the wire struct itself, from a local it decoded into
			}
			eachCall(uj, func(c2 ssa.CallInstruction) {
				if staticCallee(c2) == cp.Dec && len(c2.Common().Args) == 2 && stripConv(c2.Common().Args[1]) == tgt {
					okU = true
					// the wire→struct function only assigns the members that are present: it must fill a fresh value, not the
					// decode target itself, which may hold a previously decoded envelope
					into := stripConv(c2.Common().Args[0])
					if _, isLocal := into.(*ssa.Alloc); !isLocal {
						okU = false
						whyU = "the wire→struct function is applied to " + describe(into) + ", not to a fresh local value: optional members absent from the JSON keep whatever the target held before"
					} else {
						for _, ref := range *into.(*ssa.Alloc).Referrers() {
							if st, ok := ref.(*ssa.Store); ok && st.Addr == into && !isZeroValue(st.Val) && instrDominates(st, c2.(ssa.Instruction)) {
								okU = false
								whyU = "the value handed to the wire→struct function is pre-filled from " + describe(st.Val)
							}
						}
					}
				}
			})
		})
		r.Check(R2, "func "+fnName(uj)+" / populates from the same wire struct", p.pos(uj.Pos()), okU, whyU)
	}

	// ---- R3
	disc := p.Method("rawEnvelope", "envelopeType")
	toEnv := p.Method("rawEnvelope", "toEnvelope")
	if disc == nil || toEnv == nil {
		// resolve by shape: method of the wire struct returning (string, error) / (envelope, error)
		r.Undecided(R3, "anchor-unresolved:discriminator", "-", "kind discriminator or wire→envelope conversion not found")
	} else {
		tagType := map[string]string{}
		eachInstr(toEnv, func(in ssa.Instruction) {
			a, ok := in.(*ssa.Alloc)
			if !ok {
				return
			}
			n := namedOf(a.Type())
			if n == nil {
				return
			}
			for _, e := range mustEdges(a.Block()) {
				c := condOn(ifOf(e.from), e.succ == 0)
				if c.Op != token.EQL {
					continue
				}
				if cs, ok := constTag(c.Y); ok {
					tagType[cs] = n.Obj().Name()
				} else if cs, ok := constTag(c.X); ok {
					tagType[cs] = n.Obj().Name()
				}
			}
		})
		required := map[string][]string{
			"RequestCommand":  {"Method", "URI"},
			"ResponseCommand": {"Method", "Status"},
			"Notification":    {"Event"},
			"Message":         {"Content", "Type"},
			"Session":         {"State"},
		}
		kinds := []string{"Message", "Notification", "RequestCommand", "ResponseCommand", "Session"}
		for _, k := range kinds {
			written := encWrites[k]
			if written == nil {
				r.Undecided(R3, "kind "+k, "-", "no struct→wire function found for this kind")
				continue
			}
			abs := map[string]int{} // 0 nil, 1 nonnil, 2 top
			for _, wf := range flatFields(p.Type("rawEnvelope")) {
				if written[wf] {
					abs[wf.Name()] = 2
				} else {
					abs[wf.Name()] = 0
				}
			}
			for _, req := range required[k] {
				if abs[req] == 0 {
					r.Check(R3, "kind "+k+" / encoder sets "+req, p.pos(p.Method(k, "toRawEnvelope").Pos()), false, "the encoder never sets the wire field that identifies this kind")
				}
				abs[req] = 1
			}
			tags := interpretDiscriminator(disc, abs)
			var tl []string
			for t := range tags {
				tl = append(tl, t)
			}
			sort.Strings(tl)
			ok := len(tl) == 1 && tagType[tl[0]] == k
			r.Check(R3, "kind "+k+" / unique tag", p.pos(disc.Pos()), ok,
				fmt.Sprintf("reachable tags %v, constructed types %v; want exactly the tag that constructs %s", tl, mapTags(tl, tagType), k))
		}
		// converse: a kind's tag is returned only when the members that identify it are present, and an envelope with
		// the identifying members of a data kind is never classified as a session
		identifying := map[string][]string{
			"RequestCommand":  {"Method", "URI"},
			"ResponseCommand": {"Method", "Status"},
			"Notification":    {"Event"},
			"Message":         {"Content"},
			"Session":         {"State"},
		}
		tagOf := map[string]string{}
		for tag, typ := range tagType {
			tagOf[typ] = tag
		}
		for _, k := range kinds {
			for _, member := range identifying[k] {
				abs := map[string]int{}
				for _, wf := range flatFields(p.Type("rawEnvelope")) {
					abs[wf.Name()] = 2
				}
				abs[member] = 0
				tags := interpretDiscriminator(disc, abs)
				r.Check(R3, "kind "+k+" / tag only with its identifying member "+member, p.pos(disc.Pos()), !tags[tagOf[k]],
					"with "+member+" absent the discriminator can still answer "+tagOf[k]+": the typed envelope then carries a nil/zero "+member+" that code relying on the kind dereferences")
			}
			if k == "Session" {
				continue
			}
			abs := map[string]int{}
			for _, wf := range flatFields(p.Type("rawEnvelope")) {
				abs[wf.Name()] = 2
			}
			for _, member := range identifying[k] {
				abs[member] = 1
			}
			tags := interpretDiscriminator(disc, abs)
			r.Check(R3, "kind "+k+" / never classified as a session", p.pos(disc.Pos()), !tags[tagOf["Session"]],
				"an envelope carrying the identifying members of "+k+" (plus a state member) is classified as a session: its data is dropped and the handshake accepts it as the expected session envelope")
		}
		for tag, typ := range tagType {
			found := false
			for _, k := range kinds {
				if k == typ {
					found = true
				}
			}
			r.Check(R3, "wire→envelope switch / tag "+tag, p.pos(toEnv.Pos()), found, "tag constructs "+typ+", which is not one of the five envelope kinds")
		}
	}

	// ---- R4
	for _, recv := range p.Implementations(s.transportT, "Receive") {
		byteLevel := false
		eachCall(recv, func(c ssa.CallInstruction) {
			if f := staticCallee(c); f != nil && (f.Name() == "Decode" || f.Name() == "ReadJSON") {
				byteLevel = true
			}
		})
		for _, a := range recv.AnonFuncs {
			eachCall(a, func(c ssa.CallInstruction) {
				if f := staticCallee(c); f != nil && (f.Name() == "Decode" || f.Name() == "ReadJSON") {
					byteLevel = true
				}
			})
		}
		if !byteLevel {
			continue
		}
		ok, why := true, ""
		n := 0
		for _, rl := range returnLeaves(recv, 0) {
			if isNilConst(rl.v) {
				continue
			}
			n++
			call, idx := callOf(rl.v)
			if call == nil || idx != 0 || call.Call.StaticCallee() != toEnv {
				ok, why = false, "returns "+describe(rl.v)+" instead of the shared wire→envelope conversion"
			}
		}
		r.Check(R4, "func "+fnName(recv)+" / result", p.pos(recv.Pos()), ok && n > 0, why)
	}

	checkFreshDecodeTarget(r, s, R4)

	// ---- R5
	c01Registries(r, s, R5)

	// ---- R6
	c01TextForms(r, s, R6)
	R10 := r.Rule("R10", "a text form never drops a field: for every return of Node/Identity/MediaType.String() the fields that do not flow into the returned text are known empty (or the whole value zero) on the edge taken — otherwise two different values share one text and parsing cannot give the value back", 3)
	c01TextComplete(r, s, R10)
	R12 := r.Rule("R12", "encoder discipline: every wire member an encoder stores has one source among the fields of the value being encoded, whatever the path, and a conditional store is conditional on presence only (a field against its zero value, or a call's error) — never on a comparison of two computed values", 20)
	checkEncoderSources(r, R12)
	R7 := r.Rule("R7", "text-form parsers return only verbatim pieces of their input (split/slice of the parameter, or a sibling parser applied to such a piece): no call may transform characters between the text and the parsed value, since the printer writes the fields verbatim", 3)
	checkVerbatimParsers(r, R7)
	R8 := r.Rule("R8", "co-presence symmetry: when the encoder emits a wire member only together with another struct field being present, the decoder stores the corresponding field only when that other member is present on the wire", 10)
	checkCoPresence(r, R8)
}

func mapTags(tags []string, m map[string]string) []string {
	var out []string
	for _, t := range tags {
		out = append(out, m[t])
	}
	return out
}

// interpretDiscriminator abstractly executes the discriminator over {nil, non-nil, ⊤} per wire field and returns the
// set of constant tags it can return (error returns are reported as "<error>").
func interpretDiscriminator(fn *ssa.Function, abs map[string]int) map[string]bool {
	out := map[string]bool{}
	type arrival struct{ b, from *ssa.BasicBlock }
	seen := map[arrival]bool{}
	var walk func(b, from *ssa.BasicBlock)
	walk = func(b, from *ssa.BasicBlock) {
		if seen[arrival{b, from}] {
			return
		}
		seen[arrival{b, from}] = true
		last := b.Instrs[len(b.Instrs)-1]
		switch x := last.(type) {
		case *ssa.Return:
			// an error return: the last result is not nil
			if len(x.Results) > 1 && isErrorType(x.Results[len(x.Results)-1].Type()) {
				isErr := false
				for _, l := range leaves(x.Results[len(x.Results)-1]) {
					if !isNilConst(stripConv(l)) {
						isErr = true
					}
				}
				if isErr {
					out["<error>"] = true
					break
				}
			}
			for _, l := range leaves(x.Results[0]) {
				if cs, ok := constTag(l); ok {
					if cs == "" {
						out["<error>"] = true
					} else {
						out[cs] = true
					}
				} else {
					out["<non-constant>"] = true
				}
			}
		case *ssa.If:
			c := condOn(x, true)
			v, other := c.X, c.Y
			if isNilConst(v) {
				v, other = other, v
			}
			known := -1
			if isNilConst(other) && (c.Op == token.NEQ || c.Op == token.EQL) {
				ap := pathOf(v)
				if len(ap.Fields) == 1 && len(fn.Params) > 0 && ap.Root == fn.Params[0] {
					known = abs[ap.Fields[0].Name()]
				}
			}
			takeTrue, takeFalse := true, true
			switch known {
			case 0: // nil
				takeTrue, takeFalse = c.Op == token.EQL, c.Op == token.NEQ
			case 1: // non-nil
				takeTrue, takeFalse = c.Op == token.NEQ, c.Op == token.EQL
			}
			// a materialised `a && b` / `a || b`: the phi is a constant on the edges where the first operand decided
			if ph, ok := c.Val.(*ssa.Phi); ok && c.Op == token.ILLEGAL && ph.Block() == b && from != nil {
				for i, pr := range b.Preds {
					if pr != from {
						continue
					}
					if k, ok := ph.Edges[i].(*ssa.Const); ok && k.Value != nil && k.Value.Kind() == constant.Bool {
						val := constant.BoolVal(k.Value) == c.True
						takeTrue, takeFalse = val, !val
					} else if ec := normCond(ph.Edges[i], c.True); ec.Op == token.EQL || ec.Op == token.NEQ {
						// the second operand, itself a nil test of a wire field
						ev, eo := ec.X, ec.Y
						if isNilConst(ev) {
							ev, eo = eo, ev
						}
						if ap := pathOf(ev); isNilConst(eo) && len(ap.Fields) == 1 && len(fn.Params) > 0 && ap.Root == fn.Params[0] {
							switch abs[ap.Fields[0].Name()] {
							case 0:
								takeTrue, takeFalse = ec.Op == token.EQL, ec.Op == token.NEQ
							case 1:
								takeTrue, takeFalse = ec.Op == token.NEQ, ec.Op == token.EQL
							}
						}
					}
				}
			}
			if takeTrue {
				walk(b.Succs[0], b)
			}
			if takeFalse {
				walk(b.Succs[1], b)
			}
		default:
			for _, sx := range b.Succs {
				walk(sx, b)
			}
		}
	}
	if len(fn.Blocks) > 0 {
		walk(fn.Blocks[0], nil)
	}
	return out
}

func c01Registries(r *Report, s *Sem, R5 string) {
	p := r.P
	// authentication schemes
	schemeT := p.Type("AuthenticationScheme")
	authT := p.Type("Authentication")
	type entry struct {
		fn  *ssa.Function
		pos string
		typ *types.Named // set when the product is allocated in place (a switch on the scheme instead of a table)
	}
	entries := map[string][]entry{}
	switchSelected := false
	for _, fn := range p.LimeFuncs() {
		if fn.Name() != "init" || fn.Parent() != nil {
			continue
		}
		eachInstr(fn, func(in ssa.Instruction) {
			mu, ok := in.(*ssa.MapUpdate)
			if !ok {
				return
			}
			mt, ok := mu.Map.Type().Underlying().(*types.Map)
			if !ok || !typeIs(mt.Key(), schemeT) {
				return
			}
			key, _ := constString(stripConv(mu.Key))
			if f, ok := stripConv(mu.Value).(*ssa.Function); ok {
				entries[key] = append(entries[key], entry{f, p.instrPos(in), nil})
			}
		})
	}
	if len(entries) == 0 && authT != nil {
		// no table: the decoder (with its helpers folded in) allocates the product on the edge `scheme == constant`
		if dec := p.Method("Session", "populate"); dec != nil {
			rawScheme := p.Field("rawEnvelope", "Scheme")
			allByWire := true
			eachInstr(dec, func(in ssa.Instruction) {
				a, ok := in.(*ssa.Alloc)
				if !ok {
					return
				}
				nt := namedOf(a.Type())
				if nt == nil || !types.Implements(types.NewPointer(nt), authT.Underlying().(*types.Interface)) {
					return
				}
				for _, e := range mustEdges(a.Block()) {
					for _, c := range impliedConds(ifOf(e.from), e.succ == 0) {
						if c.Op != token.EQL {
							continue
						}
						x, y := c.X, c.Y
						if _, isC := stripConv(x).(*ssa.Const); isC {
							x, y = y, x
						}
						key, isC := constString(stripConv(y))
						if !isC || !typeIs(y.Type(), schemeT) {
							continue
						}
						entries[key] = append(entries[key], entry{nil, p.instrPos(a), nt})
						if !(readsField(x, rawScheme) || readsFieldDeep(x, rawScheme)) {
							allByWire = false
						}
					}
				}
			})
			switchSelected = len(entries) > 0 && allByWire
		}
	}
	sc := p.LimeT.Scope()
	for _, n := range sc.Names() {
		c, ok := sc.Lookup(n).(*types.Const)
		if !ok || !typeIs(c.Type(), schemeT) {
			continue
		}
		val, _ := constStringOfConst(c)
		es := entries[val]
		if len(es) != 1 {
			r.Check(R5, "scheme "+n+" / one factory", "-", false, fmt.Sprintf("%d factories registered for this scheme constant", len(es)))
			continue
		}
		// product type's GetAuthenticationScheme returns the same constant
		ok2, why := false, "factory product does not report this scheme"
		var products []*types.Named
		if es[0].typ != nil {
			products = append(products, es[0].typ)
		} else {
			for _, rl := range returnLeaves(es[0].fn, 0) {
				if a, isAlloc := stripConv(rl.v).(*ssa.Alloc); isAlloc {
					if nt := namedOf(a.Type()); nt != nil {
						products = append(products, nt)
					}
				}
			}
		}
		for _, nt := range products {
			if nt == nil || authT == nil {
				continue
			}
			m := p.Method(nt.Obj().Name(), "GetAuthenticationScheme")
			if m == nil {
				continue
			}
			all, cnt := true, 0
			for _, rl2 := range returnLeaves(m, 0) {
				cnt++
				if cs, ok := constString(stripConv(rl2.v)); !ok || cs != val {
					all = false
					why = "(*" + nt.Obj().Name() + ").GetAuthenticationScheme returns " + describe(rl2.v)
				}
			}
			ok2 = all && cnt > 0
		}
		r.Check(R5, "scheme "+n+" / factory product reports the scheme", es[0].pos, ok2, why)
	}
	// Session decoder: scheme stored from the wire field that selected the factory
	if dec := p.Method("Session", "populate"); dec != nil {
		rawScheme := p.Field("rawEnvelope", "Scheme")
		okLookup := switchSelected
		eachInstr(dec, func(in ssa.Instruction) {
			if lk, ok := in.(*ssa.Lookup); ok {
				if readsField(lk.Index, rawScheme) || readsFieldDeep(lk.Index, rawScheme) {
					okLookup = true
				}
			}
		})
		r.Check(R5, "func (*Session).populate / factory selected by wire scheme", p.pos(dec.Pos()), okLookup, "the authentication factory must be looked up by the scheme that came with the credentials")
	}
	// document factories keyed by product media type
	if reg := p.Func("RegisterDocumentFactory"); reg != nil {
		ok, why := false, "the registry key is not MediaType() of the factory's own product"
		eachInstr(reg, func(in ssa.Instruction) {
			mu, isMU := in.(*ssa.MapUpdate)
			if !isMU {
				return
			}
			call, _ := callOf(mu.Key)
			if call == nil || !call.Call.IsInvoke() || call.Call.Method.Name() != "MediaType" {
				return
			}
			prod, _ := callOf(call.Call.Value)
			if prod != nil && stripConv(prod.Call.Value) == ssa.Value(reg.Params[0]) && stripConv(mu.Value) == ssa.Value(reg.Params[0]) {
				ok = true
			}
		})
		r.Check(R5, "func RegisterDocumentFactory / key is product media type", p.pos(reg.Pos()), ok, why)
		// a registration always takes effect, and nothing else fills the registry: a lookup that caches its fallback, or a
		// registration that keeps an earlier entry, makes a registered type decode as a generic document
		var regMap ssa.Value
		uncond := false
		eachInstr(reg, func(in ssa.Instruction) {
			if mu, isMU := in.(*ssa.MapUpdate); isMU && stripConv(mu.Value) == ssa.Value(reg.Params[0]) {
				regMap = pathOf(mu.Map).Root
				uncond = true
				eachInstr(reg, func(in2 ssa.Instruction) {
					if ret, isRet := in2.(*ssa.Return); isRet && !instrDominates(mu, ret) && ret.Block() != reg.Recover {
						uncond = false
					}
				})
			}
		})
		r.Check(R5, "func RegisterDocumentFactory / the registration is unconditional", p.pos(reg.Pos()), uncond, "every return must be preceded by the store of the factory under its media type (the latest registration wins)")
		if g, isGlobal := regMap.(*ssa.Global); isGlobal {
			for _, fn := range p.LimeFuncs() {
				if topLevel(fn) == reg || strings.HasPrefix(topLevel(fn).Name(), "init") {
					continue
				}
				eachInstr(fn, func(in ssa.Instruction) {
					switch x := in.(type) {
					case *ssa.MapUpdate:
						if pathOf(x.Map).Root == ssa.Value(g) {
							r.Check(R5, "func "+fnName(fn)+" / writes the document factory registry", p.instrPos(in), false, "only RegisterDocumentFactory and package initialisation may fill the registry")
						}
					case *ssa.Store:
						if x.Addr == ssa.Value(g) {
							r.Check(R5, "func "+fnName(fn)+" / replaces the document factory registry", p.instrPos(in), false, "only package initialisation may assign the registry")
						}
					}
				})
			}
		}
	} else {
		r.Undecided(R5, "anchor-unresolved:RegisterDocumentFactory", "-", "exported function not found")
	}
	docT := p.Type("Document")
	if docT != nil {
		for _, m := range p.Implementations(docT, "MediaType") {
			ok := constantReturn(p, m, 0)
			r.Check(R5, "func "+fnName(m)+" / constant media type", p.pos(m.Pos()), ok, "a document type's MediaType() must not depend on the value, or the registry key is unstable")
		}
	}
}

func readsFieldDeep(v ssa.Value, f *types.Var) bool {
	for _, l := range leaves(v) {
		if u, ok := stripConv(l).(*ssa.UnOp); ok && u.Op == token.MUL {
			if readsField(u.X, f) {
				return true
			}
		}
		if readsField(l, f) {
			return true
		}
	}
	return false
}

// constantReturn: every return of fn is built from constants, from package variables never written outside init,
// or from calls of functions that are constant-return themselves.
func constantReturn(p *Prog, fn *ssa.Function, depth int) bool {
	if depth > 4 || len(fn.Blocks) == 0 {
		return false
	}
	var isConstVal func(v ssa.Value, d int) bool
	isConstVal = func(v ssa.Value, d int) bool {
		if d > 10 {
			return false
		}
		v = stripConv(v)
		switch x := v.(type) {
		case *ssa.Const:
			return true
		case *ssa.Call:
			if g := x.Call.StaticCallee(); g != nil && len(x.Call.Args) == 0 {
				return constantReturn(p, g, depth+1)
			}
			return false
		case *ssa.UnOp:
			if x.Op != token.MUL {
				return false
			}
			switch a := x.X.(type) {
			case *ssa.Global:
				return !globalWrittenOutsideInit(p, a)
			case *ssa.Alloc:
				// local composite literal: all stores constant
				okAll := true
				var visit func(addr ssa.Value)
				visit = func(addr ssa.Value) {
					for _, ref := range *addr.Referrers() {
						switch y := ref.(type) {
						case *ssa.Store:
							if y.Addr == addr && !isConstVal(y.Val, d+1) {
								okAll = false
							}
						case *ssa.FieldAddr:
							visit(y)
						}
					}
				}
				visit(a)
				return okAll
			}
		}
		return false
	}
	ok, n := true, 0
	for _, rl := range returnLeaves(fn, 0) {
		n++
		if !isConstVal(rl.v, 0) {
			ok = false
		}
	}
	return ok && n > 0
}

func globalWrittenOutsideInit(p *Prog, g *ssa.Global) bool {
	written := false
	for _, fn := range p.AllFuncs() {
		if strings.HasPrefix(topLevel(fn).Name(), "init") {
			continue
		}
		eachInstr(fn, func(in ssa.Instruction) {
			if st, ok := in.(*ssa.Store); ok {
				if pathOf(st.Addr).Root == ssa.Value(g) {
					written = true
				}
			}
		})
	}
	return written
}

// separators extracts the literal (non-verb) characters of the fmt.Sprintf formats used by fn, and the separators of
// strings.Split calls in fn.
func separators(fn *ssa.Function) (printed, split map[string]bool) {
	printed, split = map[string]bool{}, map[string]bool{}
	eachCall(fn, func(c ssa.CallInstruction) {
		f := staticCallee(c)
		if f == nil || f.Pkg == nil {
			return
		}
		switch {
		case f.Pkg.Pkg.Path() == "fmt" && f.Name() == "Sprintf":
			if cs, ok := constString(stripConv(c.Common().Args[0])); ok {
				lit := cs
				for _, verb := range []string{"%v", "%s", "%d", "%q"} {
					lit = strings.ReplaceAll(lit, verb, "\x00")
				}
				for _, part := range strings.Split(lit, "\x00") {
					if part != "" {
						printed[part] = true
					}
				}
			}
		case f.Pkg.Pkg.Path() == "fmt" && (f.Name() == "Fprintf" || f.Name() == "Appendf"):
			if cs, ok := constString(stripConv(c.Common().Args[1])); ok {
				lit := cs
				for _, verb := range []string{"%v", "%s", "%d", "%q"} {
					lit = strings.ReplaceAll(lit, verb, "\x00")
				}
				for _, part := range strings.Split(lit, "\x00") {
					if part != "" {
						printed[part] = true
					}
				}
			}
		case (f.Pkg.Pkg.Path() == "strings" || f.Pkg.Pkg.Path() == "bytes") && f.Signature.Recv() != nil && (f.Name() == "WriteString" || f.Name() == "WriteByte" || f.Name() == "WriteRune"):
			arg := stripConv(c.Common().Args[len(c.Common().Args)-1])
			if cs, ok := constString(arg); ok && cs != "" {
				printed[cs] = true
			} else if k, ok := constInt(arg); ok && k > 0 && k < 0x110000 {
				printed[string(rune(k))] = true
			}
		case f.Pkg.Pkg.Path() == "strings" && f.Name() == "Join":
			if cs, ok := constString(stripConv(c.Common().Args[1])); ok && cs != "" {
				printed[cs] = true
			}
		case f.Pkg.Pkg.Path() == "strings" && (f.Name() == "Split" || f.Name() == "SplitN" || f.Name() == "Cut" || f.Name() == "Index" || f.Name() == "LastIndex" || f.Name() == "SplitAfter" || f.Name() == "SplitAfterN"):
			if cs, ok := constString(stripConv(c.Common().Args[1])); ok {
				split[cs] = true
			}
		case f.Pkg.Pkg.Path() == "strings" && (f.Name() == "IndexByte" || f.Name() == "LastIndexByte" || f.Name() == "IndexRune"):
			// the separator as a byte / rune constant
			if k, ok := constInt(stripConv(c.Common().Args[1])); ok && k > 0 && k < 0x110000 {
				split[string(rune(k))] = true
			}
		}
	})
	// string concatenation with constant separators
	eachInstr(fn, func(in ssa.Instruction) {
		if b, ok := in.(*ssa.BinOp); ok && b.Op == token.ADD {
			for _, o := range []ssa.Value{b.X, b.Y} {
				if cs, ok := constString(stripConv(o)); ok && cs != "" {
					printed[cs] = true
				}
			}
		}
	})
	return
}

func c01TextForms(r *Report, s *Sem, R6 string) {
	p := r.P
	for _, tf := range []struct{ typ, parser string }{{"Node", "ParseNode"}, {"Identity", "ParseIdentity"}, {"MediaType", "ParseMediaType"}} {
		pr, ps := p.Method(tf.typ, "String"), p.Func(tf.parser)
		mt, ut := p.Method(tf.typ, "MarshalText"), p.Method(tf.typ, "UnmarshalText")
		if pr == nil || ps == nil || mt == nil || ut == nil {
			r.Undecided(R6, "anchor-unresolved:"+tf.typ+" text form", "-", "String/Parse/MarshalText/UnmarshalText not all found")
			continue
		}
		printed, _ := separators(pr)
		_, split := separators(ps)
		r.Check(R6, "type "+tf.typ+" / separators", p.pos(pr.Pos()), equalSets(printed, split) && len(printed) > 0,
			fmt.Sprintf("printer emits %v, parser splits on %v", sortedKeys(printed), sortedKeys(split)))
		callsFn := func(fn, target *ssa.Function) bool {
			found := false
			eachCall(fn, func(c ssa.CallInstruction) {
				if staticCallee(c) == target {
					found = true
				}
			})
			return found
		}
		r.Check(R6, "type "+tf.typ+" / MarshalText uses String", p.pos(mt.Pos()), callsFn(mt, pr), "MarshalText must print through String()")
		r.Check(R6, "type "+tf.typ+" / UnmarshalText uses "+tf.parser, p.pos(ut.Pos()), callsFn(ut, ps), "UnmarshalText must parse through "+tf.parser)
	}
	// nesting: Node's parser hands element 0 to the identity parser, and Node's printer prints the identity first
	if pn, pi := p.Func("ParseNode"), p.Func("ParseIdentity"); pn != nil && pi != nil && len(pn.Params) > 0 {
		ok := false
		nCalls, bad := 0, 0
		in := pn.Params[0]
		sepIs := func(v ssa.Value) bool {
			v = stripConv(v)
			if cs, isC := constString(v); isC {
				return cs == "/"
			}
			k, isK := constInt(v)
			return isK && k == '/'
		}
		// positionOfSep: v = strings.Index*(in, '/')
		positionOfSep := func(v ssa.Value) bool {
			call, _ := callOf(stripConv(v))
			if call == nil {
				return false
			}
			g := call.Call.StaticCallee()
			return g != nil && g.Pkg != nil && g.Pkg.Pkg.Path() == "strings" && strings.HasPrefix(g.Name(), "Index") && len(call.Call.Args) == 2 && stripConv(call.Call.Args[0]) == ssa.Value(in) && sepIs(call.Call.Args[1])
		}
		// beforeSep: the leaf is the text of the input before its first '/'
		beforeSep := func(l ssa.Value) bool {
			l = stripConv(l)
			switch x := l.(type) {
			case *ssa.UnOp: // strings.Split(in, "/")[0]
				if ia, ok3 := x.X.(*ssa.IndexAddr); ok3 {
					if k, ok4 := constInt(ia.Index); ok4 && k == 0 {
						for _, o := range leaves(ia.X) {
							call, _ := callOf(o)
							if call == nil {
								return false
							}
							g := call.Call.StaticCallee()
							if g == nil || g.Pkg == nil || g.Pkg.Pkg.Path() != "strings" || !strings.HasPrefix(g.Name(), "Split") || stripConv(call.Call.Args[0]) != ssa.Value(in) || !sepIs(call.Call.Args[1]) {
								return false
							}
						}
						return true
					}
				}
			case *ssa.Slice: // in[:strings.IndexByte(in, '/')]
				if stripConv(x.X) == ssa.Value(in) && (x.Low == nil || isZeroInt(x.Low)) && x.High != nil && positionOfSep(x.High) {
					return true
				}
			case *ssa.Extract: // before, _, _ := strings.Cut(in, "/")
				if call, _ := callOf(x.Tuple); call != nil && x.Index == 0 {
					g := call.Call.StaticCallee()
					return g != nil && g.Pkg != nil && g.Pkg.Pkg.Path() == "strings" && g.Name() == "Cut" && stripConv(call.Call.Args[0]) == ssa.Value(in) && sepIs(call.Call.Args[1])
				}
			}
			return false
		}
		eachCall(pn, func(c ssa.CallInstruction) {
			if staticCallee(c) != pi {
				return
			}
			all, n, whole := true, 0, false
			ls := leaves(c.Common().Args[0])
			for _, l := range ls {
				n++
				if stripConv(l) == ssa.Value(in) {
					whole = true
					continue
				}
				if !beforeSep(l) {
					all = false
				}
			}
			if whole {
				// the whole input is its own "part before the separator" only where no separator was found: either
				// as the other value of the same choice (prefix-or-whole), or under a guard that says so
				if n > 1 {
					// prefix-or-whole: fine as long as the other leaves are prefixes (checked above)
				} else {
					all = all && condGuard(c.Block(), func(cd Cond) bool {
						// strings.Index*(in, '/') < 0
						if cd.Op == token.LSS || cd.Op == token.EQL {
							if positionOfSep(cd.X) {
								if k, isK := constInt(stripConv(cd.Y)); isK && ((cd.Op == token.LSS && k == 0) || (cd.Op == token.EQL && k == -1)) {
									return true
								}
							}
						}
						// len(prefix-or-whole) == len(in)
						if cd.Op == token.EQL {
							for _, pair := range [][2]ssa.Value{{cd.X, cd.Y}, {cd.Y, cd.X}} {
								a, b := lenArg(pair[0]), lenArg(pair[1])
								if a == nil || b == nil || stripConv(b) != ssa.Value(in) {
									continue
								}
								okP, hasPrefix := true, false
								for _, l := range leaves(a) {
									if stripConv(l) == ssa.Value(in) {
										continue
									}
									if beforeSep(l) {
										hasPrefix = true
									} else {
										okP = false
									}
								}
								if okP && hasPrefix {
									return true
								}
							}
						}
						// !strings.Contains(in, "/")
						if cd.Op == token.ILLEGAL && !cd.True {
							if call, _ := callOf(cd.Val); call != nil {
								g := call.Call.StaticCallee()
								if g != nil && g.Pkg != nil && g.Pkg.Pkg.Path() == "strings" && strings.HasPrefix(g.Name(), "Contains") && stripConv(call.Call.Args[0]) == ssa.Value(in) && sepIs(call.Call.Args[1]) {
									return true
								}
							}
						}
						return false
					})
				}
			}
			nCalls++
			if !all || n == 0 {
				bad++
			}
		})
		ok = nCalls > 0 && bad == 0
		r.Check(R6, "func ParseNode / identity is the part before the instance separator", p.pos(pn.Pos()), ok, "every ParseIdentity call in ParseNode gets the text before the first '/' (element 0 of the split, input[:index of '/'], or the whole input where no separator was found)")
	}
	// index-based parsers: the only "no separator" test of a position is `< 0` (or `== -1` / its complements); `<= 0` or
	// `> 0` treats a separator in first position as absent, and a value with an empty first part does not parse back
	for _, pn := range []string{"ParseNode", "ParseIdentity", "ParseMediaType"} {
		fn := p.Func(pn)
		if fn == nil {
			continue
		}
		bad := ""
		eachInstr(fn, func(in ssa.Instruction) {
			bo, ok := in.(*ssa.BinOp)
			if !ok {
				return
			}
			x, y, op := bo.X, bo.Y, bo.Op
			if _, isC := stripConv(x).(*ssa.Const); isC {
				x, y = y, x
				switch op {
				case token.LSS:
					op = token.GTR
				case token.LEQ:
					op = token.GEQ
				case token.GTR:
					op = token.LSS
				case token.GEQ:
					op = token.LEQ
				}
			}
			call, _ := callOf(stripConv(x))
			if call == nil {
				return
			}
			g := call.Call.StaticCallee()
			if g == nil || g.Pkg == nil || (g.Pkg.Pkg.Path() != "strings" && g.Pkg.Pkg.Path() != "bytes") || !strings.Contains(g.Name(), "Index") {
				return
			}
			k, isK := constInt(stripConv(y))
			if !isK {
				return
			}
			switch {
			case op == token.LEQ && k == 0, op == token.GTR && k == 0, op == token.LSS && k == 1, op == token.GEQ && k == 1, op == token.EQL && k == 0, op == token.NEQ && k == 0:
				bad = fmt.Sprintf("position compared with %s %d at %s", op, k, p.instrPos(in))
			}
		})
		r.Trivial(R6, "func "+pn+" / a separator in first position is still a separator", p.pos(fn.Pos()), bad == "", bad)
	}
	for _, et := range []string{"SessionState", "NotificationEvent", "CommandMethod"} {
		nt := p.Type(et)
		val, mt, ut := p.Method(et, "Validate"), p.Method(et, "MarshalText"), p.Method(et, "UnmarshalText")
		if nt == nil || val == nil || mt == nil || ut == nil {
			r.Undecided(R6, "anchor-unresolved:"+et, "-", "enum type or its Validate/MarshalText/UnmarshalText not found")
			continue
		}
		declared := map[string]bool{}
		sc := p.LimeT.Scope()
		for _, n := range sc.Names() {
			if c, ok := sc.Lookup(n).(*types.Const); ok && types.Identical(c.Type(), nt) {
				if v, ok := constStringOfConst(c); ok {
					declared[v] = true
				}
			}
		}
		accepted := map[string]bool{}
		eachInstr(val, func(in ssa.Instruction) {
			if b, ok := in.(*ssa.BinOp); ok && b.Op == token.EQL {
				for _, o := range []ssa.Value{b.X, b.Y} {
					if cs, ok := constString(stripConv(o)); ok {
						accepted[cs] = true
					}
				}
			}
		})
		if !equalSets(declared, accepted) && len(val.Params) == 1 {
			// not a chain of comparisons (a table, a map): evaluate it on every declared constant and on a probe
			accepted = map[string]bool{}
			probe := "\x00not-a-declared-value"
			for v := range declared {
				if res, ok := p.constEval(val, []constant.Value{constant.MakeString(v)}); ok && res.Kind() == constant.String && constant.StringVal(res) == nilSentinel {
					accepted[v] = true
				}
			}
			if res, ok := p.constEval(val, []constant.Value{constant.MakeString(probe)}); ok && res.Kind() == constant.String && constant.StringVal(res) == nilSentinel {
				accepted[probe] = true
			}
		}
		r.Check(R6, "type "+et+" / Validate accepts exactly the declared constants", p.pos(val.Pos()), equalSets(declared, accepted),
			fmt.Sprintf("declared %v, accepted %v", sortedKeys(declared), sortedKeys(accepted)))
		for _, m := range []*ssa.Function{mt, ut} {
			calls := false
			eachCall(m, func(c ssa.CallInstruction) {
				if staticCallee(c) == val {
					calls = true
				}
			})
			// the error of Validate must abort
			r.Check(R6, "func "+fnName(m)+" / validates", p.pos(m.Pos()), calls, "both directions must call Validate so that an encoder never emits what the decoder rejects")
		}
	}
	// URI
	if mt, ut := p.Method("URI", "MarshalText"), p.Method("URI", "UnmarshalText"); mt != nil && ut != nil {
		reachURL := func(fn *ssa.Function, name string) bool {
			found := false
			for f := range r.P.reachableAny(fn, 3) {
				eachCall(f, func(c ssa.CallInstruction) {
					if g := staticCallee(c); g != nil && g.Pkg != nil && g.Pkg.Pkg.Path() == "net/url" && g.Name() == name {
						found = true
					}
				})
			}
			return found
		}
		r.Check(R6, "type URI / MarshalText prints through net/url", p.pos(mt.Pos()), reachURL(mt, "String"), "URI text form must be url.URL.String()")
		r.Check(R6, "type URI / UnmarshalText parses through net/url", p.pos(ut.Pos()), reachURL(ut, "Parse"), "URI text form must be parsed by url.Parse")
	} else {
		r.Undecided(R6, "anchor-unresolved:URI", "-", "URI.MarshalText/UnmarshalText not found")
	}
}

func equalSets(a, b map[string]bool) bool {
	if len(a) != len(b) {
		return false
	}
	for k := range a {
		if !b[k] {
			return false
		}
	}
	return true
}

// reachableAny: fn plus its in-repo static callees up to depth.
func (p *Prog) reachableAny(fn *ssa.Function, depth int) map[*ssa.Function]bool {
	out := map[*ssa.Function]bool{}
	var rec func(f *ssa.Function, d int)
	rec = func(f *ssa.Function, d int) {
		if f == nil || out[f] || d > depth {
			return
		}
		out[f] = true
		eachCall(f, func(c ssa.CallInstruction) {
			if g := staticCallee(c); g != nil && (g.Pkg == p.Lime || g.Pkg == p.Chat) {
				rec(g, d+1)
			}
		})
	}
	rec(fn, 0)
	return out
}

// isZeroValue: a constant zero or an empty composite (what `T{}` stores).
func isZeroValue(v ssa.Value) bool {
	if c, ok := v.(*ssa.Const); ok {
		if c.Value == nil {
			return true
		}
		switch c.Value.Kind() {
		case constant.String:
			return constant.StringVal(c.Value) == ""
		case constant.Bool:
			return !constant.BoolVal(c.Value)
		case constant.Int:
			return constant.Sign(c.Value) == 0
		}
	}
	return false
}

// c01TextComplete (R10): a text form never silently drops a field. For every return of T.String() the fields of T that
// do not flow into the returned string must be known empty on the edge taken: `x.F == ""`, `x.F == (F{})` or
// `x == (T{})`. Otherwise two different values print the same text and the parser cannot give the value back.
func c01TextComplete(r *Report, s *Sem, R string) {
	p := r.P
	for _, tn := range []string{"Node", "Identity", "MediaType"} {
		fn := p.Method(tn, "String")
		if fn == nil || len(fn.Params) == 0 {
			r.Undecided(R, "anchor-unresolved:"+tn+".String", "-", "not found")
			continue
		}
		recv := fn.Params[0]
		st, ok := recv.Type().Underlying().(*types.Struct)
		if pt, isPtr := recv.Type().Underlying().(*types.Pointer); isPtr {
			st, ok = pt.Elem().Underlying().(*types.Struct)
		}
		if !ok {
			r.Undecided(R, "type "+tn+" / struct receiver", p.pos(fn.Pos()), "receiver is not a struct")
			continue
		}
		isRoot := func(v ssa.Value) bool {
			v = stripConv(v)
			if v == ssa.Value(recv) {
				return true
			}
			if al, ok := v.(*ssa.Alloc); ok {
				if sv := singleStore(al); sv != nil && stripConv(sv) == ssa.Value(recv) {
					return true
				}
			}
			if u, ok := v.(*ssa.UnOp); ok && u.Op == token.MUL {
				if al, ok := u.X.(*ssa.Alloc); ok {
					if sv := singleStore(al); sv != nil && stripConv(sv) == ssa.Value(recv) {
						return true
					}
				}
			}
			return false
		}
		// first-level field index a value reads (−1: none, −2: the whole receiver)
		var fieldOfVal func(v ssa.Value) int
		fieldOfVal = func(v ssa.Value) int {
			v = stripConv(v)
			if isRoot(v) {
				return -2
			}
			switch x := v.(type) {
			case *ssa.UnOp:
				if x.Op == token.MUL {
					return fieldOfVal(x.X)
				}
			case *ssa.FieldAddr:
				if isRoot(x.X) {
					return x.Field
				}
				return fieldOfVal(x.X)
			case *ssa.Field:
				if isRoot(x.X) {
					return x.Field
				}
				return fieldOfVal(x.X)
			}
			return -1
		}
		flows := func(v ssa.Value) map[int]bool {
			used := map[int]bool{}
			seen := map[ssa.Value]bool{}
			var rec func(v ssa.Value, d int)
			rec = func(v ssa.Value, d int) {
				if v == nil || seen[v] || d > 30 {
					return
				}
				seen[v] = true
				if k := fieldOfVal(v); k >= 0 {
					used[k] = true
					return
				} else if k == -2 {
					for i := 0; i < st.NumFields(); i++ {
						used[i] = true
					}
					return
				}
				switch x := v.(type) {
				case *ssa.Phi:
					// a phi of texts: only what flows on every edge is certainly there — intersect
					var sets []map[int]bool
					for _, e := range x.Edges {
						sub := map[int]bool{}
						saveUsed := used
						used = sub
						rec(e, d+1)
						used = saveUsed
						sets = append(sets, sub)
					}
					if len(sets) > 0 {
						for k := range sets[0] {
							all := true
							for _, o := range sets[1:] {
								if !o[k] {
									all = false
								}
							}
							if all {
								used[k] = true
							}
						}
					}
				case *ssa.BinOp:
					if x.Op == token.ADD {
						rec(x.X, d+1)
						rec(x.Y, d+1)
					}
				case *ssa.Call:
					for _, a := range x.Call.Args {
						rec(a, d+1)
					}
					if x.Call.IsInvoke() {
						rec(x.Call.Value, d+1)
					}
					// an accumulator (strings.Builder, bytes.Buffer) read out here: what was written into it before
					if len(x.Call.Args) > 0 {
						if acc, ok := stripConv(x.Call.Args[0]).(*ssa.Alloc); ok {
							for _, w := range accumulatorWrites(acc, x) {
								// the write certainly happened, or was skipped only because the very field it writes is empty
								sub := map[int]bool{}
								saveUsed := used
								used = sub
								for _, a := range w.Common().Args {
									if stripConv(a) != ssa.Value(acc) {
										rec(a, d+1)
									}
								}
								used = saveUsed
								wb := w.Block()
								if wb.Dominates(x.Block()) {
									for k := range sub {
										used[k] = true
									}
									continue
								}
								need := map[edge]bool{}
								for _, me := range mustEdges(x.Block()) {
									need[me] = true
								}
								for k := range sub {
									okK := true
									for _, me := range mustEdges(wb) {
										if need[me] {
											continue
										}
										isFieldTest := false
										for _, c := range impliedConds(ifOf(me.from), me.succ == 0) {
											if c.Op != token.NEQ {
												continue
											}
											cx, cy := c.X, c.Y
											if zeroConst(cx) {
												cx, cy = cy, cx
											}
											if zeroConst(cy) && (fieldOfVal(cx) == k || fieldOfVal(cx) == -2) {
												isFieldTest = true
											}
										}
										if !isFieldTest {
											okK = false
										}
									}
									if okK {
										used[k] = true
									}
								}
							}
						}
					}
				case *ssa.MakeInterface:
					rec(x.X, d+1)
				case *ssa.ChangeType:
					rec(x.X, d+1)
				case *ssa.Convert:
					rec(x.X, d+1)
				case *ssa.Extract:
					rec(x.Tuple, d+1)
				case *ssa.Slice:
					if al, ok := x.X.(*ssa.Alloc); ok {
						for _, ref := range *al.Referrers() {
							if ia, ok := ref.(*ssa.IndexAddr); ok {
								for _, r2 := range *ia.Referrers() {
									if sto, ok := r2.(*ssa.Store); ok && sto.Addr == ssa.Value(ia) {
										rec(sto.Val, d+1)
									}
								}
							}
						}
					} else {
						rec(x.X, d+1)
					}
				case *ssa.UnOp:
					if x.Op == token.MUL {
						if al, ok := x.X.(*ssa.Alloc); ok {
							for _, ref := range *al.Referrers() {
								if sto, ok := ref.(*ssa.Store); ok && sto.Addr == ssa.Value(al) {
									rec(sto.Val, d+1)
								}
							}
						}
					}
				}
			}
			rec(v, 0)
			return used
		}
		isZero := zeroConst
		groups := map[string][]retLeaf{}
		var order []string
		for _, rl := range returnLeaves(fn, 0) {
			used := flows(rl.v)
			var missing []string
			for i := 0; i < st.NumFields(); i++ {
				if !used[i] {
					missing = append(missing, st.Field(i).Name())
				}
			}
			key := strings.Join(missing, ",")
			if _, ok := groups[key]; !ok {
				order = append(order, key)
			}
			groups[key] = append(groups[key], rl)
		}
		sort.Strings(order)
		for _, key := range order {
			if key == "" {
				r.Trivial(R, "func "+fnName(fn)+" / full text form", p.pos(fn.Pos()), true, "every field flows into the returned text")
				continue
			}
			okAll, pos := true, p.pos(fn.Pos())
			detail := ""
			for _, rl := range groups[key] {
				pos = p.instrPos(rl.in)
				for _, fname := range strings.Split(key, ",") {
					idx := -1
					for i := 0; i < st.NumFields(); i++ {
						if st.Field(i).Name() == fname {
							idx = i
						}
					}
					guarded := condGuardEdge(rl.b, rl.to, func(c Cond) bool {
						if c.Op != token.EQL {
							return false
						}
						x, y := c.X, c.Y
						if isZero(x) {
							x, y = y, x
						}
						if !isZero(y) {
							return false
						}
						k := fieldOfVal(x)
						if k == -2 {
							_, isLoad := stripConv(x).(*ssa.UnOp)
							return isLoad || stripConv(x) == ssa.Value(recv)
						}
						if k != idx {
							return false
						}
						// the whole field, not a part of it
						ap := pathOf(x)
						return len(ap.Fields) <= 1 || ap.Last() == st.Field(idx)
					})
					if !guarded {
						okAll = false
						detail = "a return whose text does not contain " + fname + " is reachable with " + fname + " non-empty"
					}
				}
			}
			r.Check(R, "func "+fnName(fn)+" / text form without {"+key+"} only when empty", pos, okAll, detail)
		}
	}
}

// zeroConst: the zero value of its type as a constant ("" or the zero aggregate).
func zeroConst(v ssa.Value) bool {
	if v == nil {
		return false
	}
	c, ok := stripConv(v).(*ssa.Const)
	if !ok {
		return false
	}
	if c.Value == nil {
		return true
	}
	cs, isS := constString(c)
	return isS && cs == ""
}

// accumulatorWrites: the calls, other than `read`, that receive the address of the local accumulator acc (directly or as
// an io.Writer) and can run before read.
func accumulatorWrites(acc *ssa.Alloc, read *ssa.Call) []ssa.CallInstruction {
	var out []ssa.CallInstruction
	add := func(in ssa.Instruction) {
		c, ok := in.(ssa.CallInstruction)
		if !ok || in == ssa.Instruction(read) {
			return
		}
		if reachesInstr(in, read) {
			out = append(out, c)
		}
	}
	for _, ref := range *acc.Referrers() {
		switch x := ref.(type) {
		case *ssa.MakeInterface:
			for _, r2 := range *x.Referrers() {
				add(r2)
			}
		default:
			add(ref)
		}
	}
	return out
}

func isZeroInt(v ssa.Value) bool {
	k, ok := constInt(stripConv(v))
	return ok && k == 0
}

// lenArg: v is len(x) → x.
func lenArg(v ssa.Value) ssa.Value {
	call, _ := callOf(stripConv(v))
	if call == nil {
		return nil
	}
	if b, ok := call.Call.Value.(*ssa.Builtin); ok && b.Name() == "len" {
		return call.Call.Args[0]
	}
	return nil
}

// constTag: a kind tag as a constant — a string, or an integer of a private enum (rendered "#n").
func constTag(v ssa.Value) (string, bool) {
	v = stripConv(v)
	if cs, ok := constString(v); ok {
		return cs, true
	}
	if k, ok := constInt(v); ok {
		return fmt.Sprintf("#%d", k), true
	}
	return "", false
}
