package main

import (
	"fmt"
	"go/token"
	"go/types"
	"sort"
	"strings"

	"golang.org/x/tools/go/ssa"
)

// ascendingFromZero: idx takes the values 0,1,2,… over the iterations of its loop — the range form (i' = i+1 with i
// starting at -1, the element read at i') or the three-clause form (i starting at 0, incremented by 1 after the body).
func ascendingFromZero(idx ssa.Value) bool {
	stepOf := func(v ssa.Value) (*ssa.Phi, bool) {
		bo, ok := v.(*ssa.BinOp)
		if !ok || bo.Op != token.ADD {
			return nil, false
		}
		one, isC := constInt(bo.Y)
		ph, isPhi := bo.X.(*ssa.Phi)
		return ph, isC && one == 1 && isPhi
	}
	startsAt := func(ph *ssa.Phi, k int64, step ssa.Value) bool {
		if len(ph.Edges) < 2 {
			return false
		}
		// one entry edge with the start value; every other edge (several `continue`/`break`-to-header paths) carries the step
		start, back := 0, 0
		for _, e := range ph.Edges {
			if k0, ok := constInt(e); ok && k0 == k {
				start++
			} else if e == step {
				back++
			} else {
				return false
			}
		}
		return start == 1 && back >= 1
	}
	if ph, ok := stepOf(idx); ok {
		return startsAt(ph, -1, idx)
	}
	if ph, ok := idx.(*ssa.Phi); ok {
		for _, e := range ph.Edges {
			if p2, ok := stepOf(e); ok && p2 == ph {
				return startsAt(ph, 0, e)
			}
		}
	}
	return false
}

func init() {
	register("C17", "that user Register callbacks assign distinct nodes; absence of cross-talk under run-time interleavings (nothing per-session is shared to interleave on, by R5)", c17)
	register("C20", "what user predicates and handlers do; that the client actually observes a finished session after a handler error (transport behaviour)", c20)
}

func c17(r *Report, s *Sem) {
	p := r.P
	a := s.anchors()
	R9 := r.Rule("R9", "addresses do not stick to envelopes: the channel's data sender hands the caller's envelope to the transport untouched — it invokes nothing on it (an address resolved in place on the first session is what the second session receives)", 1)
	defer checkSendPathReadsOnly(r, s, R9)
	defer r.Import(s, "C12", "R4", "R8", "what one session failed to send cannot surface in another: the JSON encoder of a TCP transport writes straight to that transport's connection wrapper — no buffer shared between transports (a pooled buffer that keeps the bytes of a failed write prefixes them to the next session's envelope)", 8)
	defer r.Import(s, "C07", "R1", "R7", "the id a session carries is the one generated for it: every session envelope a server channel emits takes its id from channel.sessionID, which on a server channel is stored only by the constructor from the parameter the accept loop generated (never adopted from a peer's envelope)", 21)
	R1 := r.Rule("R1", "one channel per dispatch: in the dispatch loop the session context, every stream/done accessor of the select and the Sender handed to each handler function all derive from the loop function's single channel parameter", 8)
	R2 := r.Rule("R2", "context keys: the session context stores the channel's id, remote node and local node under three distinct keys of an unexported type, and each exported getter loads the key under which a value of its asserted type was stored", 6)
	R3 := r.Rule("R3", "fresh identity: every server channel is built from a session id generated in the same loop iteration and the transport just dequeued, and the serving goroutine captures that iteration's channel", 3)
	R5 := r.Rule("R5", "shared-state inventory: no package-level variable written at run time can hold a channel, transport, node or session id (the listener registry holds listeners only), per-session code touches no package-level container (pool, cache, registry), and the mux's handler tables are written only by registration methods", 3)
	R6 := r.Rule("R6", "handler functions pass on exactly the context and Sender they were given", 8)

	if a.listenFn == nil {
		r.Undecided(R1, "anchor-unresolved:dispatch loop", "-", "not found")
		return
	}
	var chParam *ssa.Parameter
	for _, pr := range a.listenFn.Params {
		if typeIs(pr.Type(), s.channelT) {
			chParam = pr
		}
	}
	fromCh := func(v ssa.Value) bool {
		ok, n := true, 0
		for _, l := range leaves(v) {
			n++
			if pathOf(l).Root != ssa.Value(chParam) {
				ok = false
			}
		}
		return ok && n > 0
	}
	ctxFn := p.Func("sessionContext")
	// ---- R1
	var sesCtx *ssa.Call
	eachInstr(a.listenFn, func(in ssa.Instruction) {
		c, ok := in.(*ssa.Call)
		if !ok {
			return
		}
		g := c.Call.StaticCallee()
		if g == nil {
			return
		}
		if g == ctxFn && ctxFn != nil {
			sesCtx = c
			r.Check(R1, "func "+fnName(a.listenFn)+" / session context built from the dispatched channel", p.instrPos(c), fromCh(c.Call.Args[1]), "argument "+describe(c.Call.Args[1]))
		}
	})
	if sesCtx == nil {
		r.Check(R1, "func "+fnName(a.listenFn)+" / session context built from the dispatched channel", p.pos(a.listenFn.Pos()), false, "no call of the session-context constructor")
	}
	eachInstr(a.listenFn, func(in ssa.Instruction) {
		sel, ok := in.(*ssa.Select)
		if !ok {
			return
		}
		for i, st := range sel.States {
			if _, isDone := isCtxDoneChan(st.Chan); isDone {
				continue
			}
			// accessor call on the channel parameter, or field of it
			ok := false
			if call, _ := callOf(st.Chan); call != nil && len(call.Call.Args) > 0 {
				ok = fromCh(call.Call.Args[0])
			} else {
				ok = fromCh(st.Chan)
			}
			r.Check(R1, fmt.Sprintf("func %s / select arm #%d reads the dispatched channel's stream", fnName(a.listenFn), i), p.instrPos(in), ok, "stream "+describe(st.Chan))
		}
	})
	eachInstr(a.listenFn, func(in ssa.Instruction) {
		c, ok := in.(*ssa.Call)
		if !ok {
			return
		}
		g := c.Call.StaticCallee()
		if g == nil || !typeIs(recvType(g), p.Type("EnvelopeMux")) || !strings.HasPrefix(g.Name(), "handle") {
			return
		}
		// context argument is the session context of this iteration; Sender argument (if any) is the channel
		ctxOK := false
		for _, l := range leaves(c.Call.Args[1]) {
			if call, _ := callOf(l); call != nil && call == sesCtx {
				ctxOK = true
			}
		}
		sndOK := true
		for i, prm := range g.Params {
			if n := namedOf(prm.Type()); n != nil && n.Obj().Name() == "Sender" {
				if !fromCh(c.Call.Args[i]) {
					sndOK = false
				}
			}
		}
		r.Check(R1, "func "+fnName(a.listenFn)+" / "+g.Name()+" gets this session's context and sender", p.instrPos(c), ctxOK && sndOK, fmt.Sprintf("context ok=%v, sender ok=%v", ctxOK, sndOK))
	})
	for _, m := range []string{"ListenServer", "ListenClient"} {
		fn := p.Method("EnvelopeMux", m)
		if fn == nil {
			r.Undecided(R1, "anchor-unresolved:EnvelopeMux."+m, "-", "not found")
			continue
		}
		ok := false
		eachCall(fn, func(c ssa.CallInstruction) {
			if staticCallee(c) == a.listenFn {
				arg := c.Common().Args[len(c.Common().Args)-1]
				ap := pathOf(arg)
				if pr, isParam := ap.Root.(*ssa.Parameter); isParam && pr.Parent() == fn && len(ap.Fields) == 1 && ap.Fields[0].Embedded() {
					ok = true
				}
			}
		})
		r.Check(R1, "func "+fnName(fn)+" / dispatches the channel embedded in its argument", p.pos(fn.Pos()), ok, "")
	}

	// ---- R2
	if ctxFn == nil {
		r.Undecided(R2, "anchor-unresolved:sessionContext", "-", "not found")
	} else {
		type kv struct {
			key   *ssa.Global
			field *types.Var
			typ   types.Type
		}
		var stored []kv
		var ctxChParam *ssa.Parameter
		for _, pr := range ctxFn.Params {
			if typeIs(pr.Type(), s.channelT) {
				ctxChParam = pr
			}
		}
		eachCall(ctxFn, func(c ssa.CallInstruction) {
			g := staticCallee(c)
			if g == nil || g.Pkg == nil || g.Pkg.Pkg.Path() != "context" || g.Name() != "WithValue" {
				return
			}
			var key *ssa.Global
			for _, l := range leaves(c.Common().Args[1]) {
				if gl, ok := pathOf(l).Root.(*ssa.Global); ok {
					key = gl
				}
			}
			var fld *types.Var
			var typ types.Type
			for _, l := range leaves(c.Common().Args[2]) {
				ap := pathOf(l)
				if ctxChParam != nil && ap.Root == ssa.Value(ctxChParam) {
					fld = ap.Last()
					typ = stripConv(l).Type()
				}
				// the function takes the three values instead of the channel: what its callers pass for that parameter
				if pr, isParam := stripConv(l).(*ssa.Parameter); isParam && pr.Parent() == ctxFn && ctxChParam == nil {
					idx := paramIndex(pr)
					var got *types.Var
					agree := true
					for _, cf := range p.LimeFuncs() {
						eachCall(cf, func(cc ssa.CallInstruction) {
							if staticCallee(cc) != ctxFn || idx >= len(cc.Common().Args) {
								return
							}
							cap := pathOf(cc.Common().Args[idx])
							if cap.Last() == nil || !typeIs(cap.Root.Type(), s.channelT) {
								agree = false
								return
							}
							if got != nil && got != cap.Last() {
								agree = false
							}
							got = cap.Last()
						})
					}
					if agree && got != nil {
						fld, typ = got, pr.Type()
					}
				}
			}
			stored = append(stored, kv{key, fld, typ})
		})
		want := map[*types.Var]string{s.sessionIDF: "session id", s.remoteNodeF: "remote node", s.localNodeF: "local node"}
		keys := map[*ssa.Global]bool{}
		for _, st := range stored {
			name := want[st.field]
			ok := st.key != nil && name != "" && !keys[st.key]
			if st.key != nil {
				keys[st.key] = true
				// unexported key type
				if n := namedOf(st.key.Type()); n != nil && n.Obj().Exported() {
					ok = false
				}
			}
			fn := "<other>"
			if st.field != nil {
				fn = st.field.Name()
			}
			r.Check(R2, "func sessionContext / stores channel."+fn+" under its own key", p.pos(ctxFn.Pos()), ok, "three distinct unexported keys for id, remote node and local node of the channel parameter")
		}
		r.Check(R2, "func sessionContext / stores three values", p.pos(ctxFn.Pos()), len(stored) == 3, fmt.Sprintf("%d values", len(stored)))
		// … on every path: no return hands back a context that did not pass through all the WithValue calls (a session
		// served under a context that already identifies another session must still get its own identity)
		nWV := 0
		eachCall(ctxFn, func(c ssa.CallInstruction) {
			if g := staticCallee(c); g != nil && g.Pkg != nil && g.Pkg.Pkg.Path() == "context" && g.Name() == "WithValue" {
				nWV++
			}
		})
		short := 0
		for _, rl := range returnLeaves(ctxFn, 0) {
			// the returned value must be the result of a WithValue call (the last of the chain)
			call, _ := callOf(rl.v)
			if call == nil {
				short++
				continue
			}
			if g := call.Call.StaticCallee(); g == nil || g.Pkg == nil || g.Pkg.Pkg.Path() != "context" || g.Name() != "WithValue" {
				short++
				continue
			}
			// chain length: follow Args[0] back through WithValue calls
			depth := 0
			v := ssa.Value(call)
			for {
				cc, _ := callOf(v)
				if cc == nil {
					break
				}
				g := cc.Call.StaticCallee()
				if g == nil || g.Pkg == nil || g.Pkg.Pkg.Path() != "context" || g.Name() != "WithValue" {
					break
				}
				depth++
				v = cc.Call.Args[0]
			}
			if depth < nWV {
				short++
			}
		}
		r.Check(R2, "func sessionContext / every return carries all the values", p.pos(ctxFn.Pos()), short == 0 && nWV > 0, fmt.Sprintf("%d return(s) hand back a context that skipped some of the %d WithValue calls", short, nWV))
		for _, gt := range []struct {
			fn  string
			fld *types.Var
		}{{"ContextSessionID", s.sessionIDF}, {"ContextSessionRemoteNode", s.remoteNodeF}, {"ContextSessionLocalNode", s.localNodeF}} {
			g := p.Func(gt.fn)
			if g == nil {
				r.Undecided(R2, "anchor-unresolved:"+gt.fn, "-", "exported getter not found")
				continue
			}
			var used *ssa.Global
			eachCall(g, func(c ssa.CallInstruction) {
				if c.Common().IsInvoke() && c.Common().Method.Name() == "Value" {
					for _, l := range leaves(c.Common().Args[0]) {
						if gl, ok := pathOf(l).Root.(*ssa.Global); ok {
							used = gl
						}
					}
				}
			})
			ok := false
			for _, st := range stored {
				if st.field == gt.fld && st.key == used && used != nil {
					ok = true
				}
			}
			r.Check(R2, "func "+gt.fn+" / reads the key its value was stored under", p.pos(g.Pos()), ok, "a getter reading another key returns another session datum (or nothing)")
		}
	}

	// ---- R3
	mkSrv := p.Func("NewServerChannel")
	n3 := 0
	for _, fn := range p.LimeFuncs() {
		if fn.Pkg != p.Lime {
			continue
		}
		eachInstr(fn, func(in ssa.Instruction) {
			c, ok := in.(*ssa.Call)
			if !ok || c.Call.StaticCallee() != mkSrv || mkSrv == nil {
				return
			}
			n3++
			idArg := c.Call.Args[3]
			trArg := c.Call.Args[0]
			fresh := false
			if call, _ := callOf(idArg); call != nil {
				if g := call.Call.StaticCallee(); g != nil && g.Pkg != nil && strings.HasSuffix(g.Pkg.Pkg.Path(), "google/uuid") && call.Block() == c.Block() {
					fresh = true
				}
			}
			// transport: value received from the accept queue in this iteration
			dequeued := false
			for _, l := range leaves(trArg) {
				if ex, ok := stripConv(l).(*ssa.Extract); ok {
					if _, isSel := ex.Tuple.(*ssa.Select); isSel {
						dequeued = true
					}
				}
				if u, ok := stripConv(l).(*ssa.UnOp); ok && u.Op == token.ARROW {
					dequeued = true
				}
			}
			r.Check(R3, "func "+fnName(fn)+" / server channel gets a fresh id and the dequeued transport", p.instrPos(c), fresh && dequeued, fmt.Sprintf("uuid generated in the same block=%v, transport from the queue=%v", fresh, dequeued))
			// the go statement captures this call's result
			captured := false
			eachInstr(fn, func(in2 ssa.Instruction) {
				g, ok := in2.(*ssa.Go)
				if !ok || !instrDominates(c, g) {
					return
				}
				// `go serve(ctx, ch)`: the channel is an argument, evaluated when the go statement runs
				if _, isClosure := g.Call.Value.(*ssa.MakeClosure); !isClosure {
					for _, arg := range g.Call.Args {
						if stripConv(arg) == ssa.Value(c) {
							captured = true
						}
					}
				}
				if mc, ok := g.Call.Value.(*ssa.MakeClosure); ok {
					for _, b := range mc.Bindings {
						if al, ok := b.(*ssa.Alloc); ok {
							for _, ref := range *al.Referrers() {
								if st, ok := ref.(*ssa.Store); ok && stripConv(st.Val) == ssa.Value(c) && st.Block() == c.Block() {
									captured = true
								}
							}
							// a fresh cell per iteration: when the construction sits in a loop, the captured cell must be
							// allocated inside that loop too
							if reachesInstr(c, c) && !reachesInstr(al, al) {
								captured = false
							}
						}
						if stripConv(b) == ssa.Value(c) {
							captured = true
						}
					}
				}
			})
			r.Check(R3, "func "+fnName(fn)+" / serving goroutine captures this iteration's channel", p.instrPos(c), captured, "a variable shared across iterations would let two goroutines serve the same channel")
		})
	}
	r.Check(R3, "library call sites of NewServerChannel", "-", n3 == 1, fmt.Sprintf("%d", n3))

	// ---- R5
	var offenders []string
	for _, mem := range sortedMembers(p.Lime) {
		g, ok := mem.(*ssa.Global)
		if !ok {
			continue
		}
		written := false
		for _, fn := range p.LimeFuncs() {
			if strings.HasPrefix(topLevel(fn).Name(), "init") {
				continue
			}
			eachInstr(fn, func(in ssa.Instruction) {
				switch x := in.(type) {
				case *ssa.Store:
					if pathOf(x.Addr).Root == ssa.Value(g) {
						written = true
					}
				case *ssa.MapUpdate:
					if pathOf(x.Map).Root == ssa.Value(g) {
						written = true
					}
				}
			})
		}
		if !written {
			continue
		}
		if canHoldSessionData(g.Type(), s, 0) {
			offenders = append(offenders, g.Name())
		}
	}
	sort.Strings(offenders)
	r.Check(R5, "package-level variables written at run time", "-", len(offenders) == 0, fmt.Sprintf("variables able to hold per-session data: %v", offenders))
	// per-session code (methods of the channel types and the mux's dispatch functions) must not touch package-level
	// containers at all: a pool, cache or registry shared by all sessions is a path for data to cross between them
	var shared []string
	for _, fn := range p.LimeFuncs() {
		k := s.recvKind(fn)
		perSession := k == "channel" || k == "server" || k == "client" || enclosedBy(fn, a.listenFn) || enclosedBy(fn, a.receiver)
		if t := topLevel(fn); typeIs(recvType(t), p.Type("EnvelopeMux")) && strings.HasPrefix(t.Name(), "handle") {
			perSession = true
		}
		if !perSession {
			continue
		}
		eachInstr(fn, func(in ssa.Instruction) {
			for _, op := range in.Operands(nil) {
				g, ok := (*op).(*ssa.Global)
				if !ok || g.Pkg != p.Lime {
					continue
				}
				elem := g.Type().(*types.Pointer).Elem()
				if isErrorType(elem) {
					continue
				}
				if b, isBasic := elem.Underlying().(*types.Basic); isBasic && b.Info()&types.IsConstType != 0 {
					continue
				}
				if isPlainData(elem, 0) && !writtenOutsideInit(p, g) {
					continue // a read-only table of texts/numbers (error prefixes, …) cannot carry anything between sessions
				}
				shared = append(shared, g.Name()+" in "+fnName(fn))
			}
		})
	}
	sort.Strings(shared)
	r.Check(R5, "per-session code / no package-level containers", "-", len(shared) == 0, fmt.Sprintf("package-level state used by channel/dispatch code: %v", uniq(shared)))
	muxT := p.Type("EnvelopeMux")
	okMux := true
	var badW []string
	if muxT != nil {
		st := muxT.Underlying().(*types.Struct)
		for i := 0; i < st.NumFields(); i++ {
			for _, w := range fieldStores(p.LimeFuncs(), st.Field(i)) {
				fn := topLevel(w.Parent())
				if !(typeIs(recvType(fn), muxT) && !strings.HasPrefix(fn.Name(), "handle") && fn != a.listenFn) {
					okMux = false
					badW = append(badW, fnName(fn))
				}
			}
		}
	}
	r.Check(R5, "type EnvelopeMux / fields written only by registration methods", "-", okMux, fmt.Sprintf("other writers: %v (a mux is shared by all sessions of a server)", badW))

	// ---- R6
	for _, fn := range p.LimeFuncs() {
		if fn.Parent() != nil || !typeIs(recvType(fn), muxT) || !strings.HasPrefix(fn.Name(), "handle") {
			continue
		}
		eachCall(fn, func(c ssa.CallInstruction) {
			if !c.Common().IsInvoke() || c.Common().Method.Name() != "Handle" {
				return
			}
			ok := true
			for _, arg := range c.Common().Args {
				if _, isParam := stripConv(arg).(*ssa.Parameter); !isParam {
					ok = false
				}
			}
			r.Check(R6, "func "+fnName(fn)+" / forwards its own context, envelope and sender", p.instrPos(c), ok, "arguments must be the function's parameters unchanged")
		})
	}
	for _, ad := range []string{"messageHandler", "notificationHandler", "requestCommandHandler", "responseCommandHandler"} {
		h := p.Method(ad, "Handle")
		if h == nil {
			r.Undecided(R6, "anchor-unresolved:"+ad+".Handle", "-", "not found")
			continue
		}
		ok := false
		eachCall(h, func(c ssa.CallInstruction) {
			if c.Common().IsInvoke() || staticCallee(c) != nil {
				return
			}
			all := true
			for i, arg := range c.Common().Args {
				if stripConv(arg) != ssa.Value(h.Params[i+1]) {
					all = false
				}
			}
			if all && len(c.Common().Args) == len(h.Params)-1 {
				ok = true
			}
		})
		r.Check(R6, "func "+fnName(h)+" / forwards all arguments in order", p.pos(h.Pos()), ok, "")
	}
	r.Import(s, "C03", "R5", "R6", "the remote node a session's handlers see is the node announced to its client: the established envelope's To and channel.remoteNode are both the node handed in by the authentication loop, result #0 of the registration callback, unchanged", 3)
}

// canHoldSessionData: values of type t can (transitively) hold a channel, a transport, a node or a string id.
func canHoldSessionData(t types.Type, s *Sem, d int) bool {
	if d > 5 {
		return false
	}
	if p, ok := t.(*types.Pointer); ok {
		t = p.Elem()
	}
	if n := namedOf(t); n != nil {
		switch n.Obj().Name() {
		case "channel", "ServerChannel", "ClientChannel", "Transport", "Node", "Session":
			if n.Obj().Pkg() == s.p.LimeT {
				return true
			}
		}
	}
	switch u := t.Underlying().(type) {
	case *types.Map:
		return canHoldSessionData(u.Elem(), s, d+1)
	case *types.Slice:
		return canHoldSessionData(u.Elem(), s, d+1)
	case *types.Chan:
		return canHoldSessionData(u.Elem(), s, d+1)
	case *types.Pointer:
		return canHoldSessionData(u.Elem(), s, d+1)
	}
	return false
}

func c20(r *Report, s *Sem) {
	p := r.P
	a := s.anchors()
	R12 := r.Rule("R12", "which the server then finishes: once the deferred finishing block of the serving function is armed, nothing on the way out closes the channel (a Close in the handler-error branch makes the block skip FinishSession: the peer loses the connection without a finished envelope)", 1)
	defer checkNoCloseBeforeDeferredFinish(r, s, R12)
	R11 := r.Rule("R11", "the tables dispatched from are the tables registered into: an EnvelopeMux is only ever handled through pointers — never loaded, stored, passed or held in a field by value (a copy taken at construction misses every handler registered afterwards, so an envelope goes to a later-matching handler or to none)", 1)
	defer checkNeverCopied(r, R11, p.Type("EnvelopeMux"), "an EnvelopeMux handled by value is a copy of the handler tables at that moment")
	defer r.Import(s, "C04", "R3", "R10", "no envelope is discarded before dispatch: in the receiver every kind is forwarded to its stream by a blocking select without a default arm (a kind dropped when its buffer is full reaches zero handlers)", 5)
	defer r.Import(s, "C05", "R2", "R9", "a response whose request has given up is an ordinary inbound envelope: the pending entry is removed by a deferred delete on every exit after the insert, so a late response misses the table and reaches the response handlers instead of an abandoned reply slot", 5)
	R1 := r.Rule("R1", "registration keeps order: each registration method appends the handler at the end of its kind's slice, and the …HandlerFunc variants wrap predicate and function into the adapter unchanged", 8)
	R2 := r.Rule("R2", "each handle function scans its kind's slice in ascending order; Handle is called only on the true edge of Match of the same element and the same envelope; after a Handle call no path re-enters the loop (error ⇒ wrapped error returned, success ⇒ loop left); falling off the end returns nil", 12)
	R3 := r.Rule("R3", "adapters: a nil predicate matches; otherwise Match is the predicate's verdict on the same envelope", 4)
	R4 := r.Rule("R4", "the dispatch loop returns a handler's error (C04.R6 ties each stream to its handler function); the serving function's deferred block then finishes the session (C13.R3)", 4)
	R5 := r.Rule("R5", "all four kinds (message, notification, request command, response command) were found and individually judged by R1–R3; their CFG shapes are compared and reported as an observation", 1)

	muxT := p.Type("EnvelopeMux")
	if muxT == nil {
		r.Undecided(R1, "anchor-unresolved:EnvelopeMux", "-", "not found")
		return
	}
	st := muxT.Underlying().(*types.Struct)
	kinds := []struct{ handler, adapter string }{{"MessageHandler", "messageHandler"}, {"NotificationHandler", "notificationHandler"}, {"RequestCommandHandler", "requestCommandHandler"}, {"ResponseCommandHandler", "responseCommandHandler"}}
	var shapesHandle, shapesReg, shapesAdapter []string
	var regFns []*ssa.Function // the mux's registration methods
	for _, k := range kinds {
		// the slice field of this kind
		var fld *types.Var
		for i := 0; i < st.NumFields(); i++ {
			if sl, ok := st.Field(i).Type().Underlying().(*types.Slice); ok {
				if n := namedOf(sl.Elem()); n != nil && n.Obj().Name() == k.handler {
					fld = st.Field(i)
				}
			}
		}
		if fld == nil {
			r.Undecided(R1, "anchor-unresolved:handler table of "+k.handler, "-", "not found")
			continue
		}
		// ---- R1
		reg := p.Method("EnvelopeMux", k.handler)
		regF := p.Method("EnvelopeMux", k.handler+"Func")
		if reg == nil || regF == nil {
			r.Undecided(R1, "anchor-unresolved:EnvelopeMux."+k.handler, "-", "registration methods not found")
			continue
		}
		okApp := false
		for _, w := range fieldStores([]*ssa.Function{reg}, fld) {
			call, _ := callOf(w.Val)
			if call == nil {
				continue
			}
			if b, ok := call.Call.Value.(*ssa.Builtin); ok && b.Name() == "append" {
				first := pathOf(call.Call.Args[0]).Last() == fld
				var elems []ssa.Value
				elems = sliceOriginsElems(call.Call.Args[1])
				last := len(elems) == 1 && stripConv(elems[0]) == ssa.Value(reg.Params[1])
				okApp = first && last
			}
		}
		r.Check(R1, "func "+fnName(reg)+" / appends at the end", p.pos(reg.Pos()), okApp, "m.table = append(m.table, handler): prepending or replacing breaks 'earliest registered wins'")
		okWrap := false
		eachCall(regF, func(c ssa.CallInstruction) {
			var registered ssa.Value
			if staticCallee(c) == reg {
				registered = c.Common().Args[1]
			} else if b, ok := c.Common().Value.(*ssa.Builtin); ok && b.Name() == "append" && pathOf(c.Common().Args[0]).Last() == fld {
				// the registration inlined: m.table = append(m.table, adapter)
				if elems := sliceOriginsElems(c.Common().Args[1]); len(elems) == 1 {
					stored := false
					for _, w := range fieldStores([]*ssa.Function{regF}, fld) {
						if call, _ := callOf(w.Val); call != nil && ssa.Instruction(call) == c.(ssa.Instruction) {
							stored = true
						}
					}
					if stored {
						registered = elems[0]
					}
				}
			}
			if registered == nil {
				return
			}
			for _, l := range leaves(registered) {
				al, ok := stripConv(l).(*ssa.Alloc)
				if !ok || namedOf(al.Type()) == nil || p.Type(k.adapter) == nil || namedOf(al.Type()).Obj() != p.Type(k.adapter).Obj() {
					continue
				}
				pn, hn := "predicate", "handlerFunc"
				if f := p.Field(k.adapter, "predicate"); f != nil {
					pn = f.Name()
				}
				if f := p.Field(k.adapter, "handlerFunc"); f != nil {
					hn = f.Name()
				}
				ps, hs := storesInto(al, pn), storesInto(al, hn)
				if len(ps) == 1 && len(hs) == 1 && stripConv(ps[0].Val) == ssa.Value(regF.Params[1]) && stripConv(hs[0].Val) == ssa.Value(regF.Params[2]) {
					okWrap = true
				}
			}
		})
		r.Check(R1, "func "+fnName(regF)+" / wraps predicate and function unchanged", p.pos(regF.Pos()), okWrap, "")
		shapesReg = append(shapesReg, cfgShape(reg)+"|"+cfgShape(regF))
		regFns = append(regFns, reg, regF)

		// ---- R2
		var hf *ssa.Function
		for _, fn := range p.LimeFuncs() {
			if fn.Parent() == nil && typeIs(recvType(fn), muxT) && strings.HasPrefix(fn.Name(), "handle") {
				reads := false
				eachInstr(fn, func(in ssa.Instruction) {
					if fa, ok := in.(*ssa.FieldAddr); ok && structField(fa.X.Type(), fa.Field) == fld {
						reads = true
					}
				})
				if reads {
					hf = fn
				}
			}
		}
		if hf == nil {
			r.Undecided(R2, "anchor-unresolved:handle function of "+k.handler, "-", "not found")
			continue
		}
		base := "func " + fnName(hf)
		var match, handle *ssa.Call
		nMatch, nHandle := 0, 0
		eachInstr(hf, func(in ssa.Instruction) {
			if c, ok := in.(*ssa.Call); ok && c.Call.IsInvoke() {
				switch c.Call.Method.Name() {
				case "Match":
					match = c
					nMatch++
				case "Handle":
					handle = c
					nHandle++
				}
			}
		})
		if match == nil || handle == nil || nMatch != 1 || nHandle != 1 {
			r.Check(R2, base+" / one Match and one Handle site", p.pos(hf.Pos()), false, fmt.Sprintf("%d Match, %d Handle call sites", nMatch, nHandle))
			continue
		}
		envParam := hf.Params[2]
		// ascending scan: element = table[i], i = phi(-1, i+1), i < len(table)
		asc := false
		if u, ok := stripConv(match.Call.Value).(*ssa.UnOp); ok && u.Op == token.MUL {
			if ia, ok := u.X.(*ssa.IndexAddr); ok && pathOf(ia.X).Last() == fld {
				asc = ascendingFromZero(ia.Index)
			}
		}
		r.Check(R2, base+" / scans in registration order", p.instrPos(match), asc, "element i of the table with i = 0,1,2,… (a reverse or partial scan changes which handler wins)")
		sameElem := stripConv(match.Call.Value) == stripConv(handle.Call.Value)
		sameEnv := stripConv(match.Call.Args[0]) == ssa.Value(envParam) && stripConv(handle.Call.Args[1]) == ssa.Value(envParam)
		onTrue := condGuard(handle.Block(), func(cd Cond) bool { return cd.Op == token.ILLEGAL && cd.True && cd.Val == ssa.Value(match) })
		r.Check(R2, base+" / Handle only on a matching handler, same element, same envelope", p.instrPos(handle), sameElem && sameEnv && onTrue, fmt.Sprintf("same element=%v, same envelope=%v, on Match's true edge=%v", sameElem, sameEnv, onTrue))
		again := reachesInstr(handle, match)
		r.Check(R2, base+" / scan stops after the first handled envelope", p.instrPos(handle), !again, "after Handle no path may reach Match again (a missing break runs every matching handler)")
		// error ⇒ returned wrapped; success ⇒ nil
		okErr := true
		walkFrom(hf, handle, walkOpts{
			cutEdge: func(from *ssa.BasicBlock, k2 int) bool {
				ifi := ifOf(from)
				if ifi == nil {
					return false
				}
				isNil, ok := errTestOf(ifi, k2 == 0, handle)
				return ok && isNil
			},
			onExit: func(e ssa.Instruction, pred *ssa.BasicBlock) {
				if ret, ok := e.(*ssa.Return); ok && retMayBeNilVia(ret, pred) {
					okErr = false
				}
			}})
		r.Check(R2, base+" / a handler error is returned", p.instrPos(handle), okErr, "swallowing the error keeps the dispatch loop running")
		// fall-through returns nil without calling anything: every return not after Handle is nil
		shapesHandle = append(shapesHandle, cfgShape(hf))

		// ---- R3
		m := p.Method(k.adapter, "Match")
		if m == nil {
			r.Undecided(R3, "anchor-unresolved:"+k.adapter+".Match", "-", "not found")
			continue
		}
		predF := p.Field(k.adapter, "predicate")
		okNil, okPred := false, false
		for _, rl := range returnLeaves(m, 0) {
			if c, ok := rl.v.(*ssa.Const); ok && c.Value != nil && c.Value.String() == "true" {
				if condGuardEdge(rl.b, rl.to, func(cd Cond) bool {
					if cd.Op != token.EQL {
						return false
					}
					x, y := cd.X, cd.Y
					if isNilConst(x) {
						x, y = y, x
					}
					return isNilConst(y) && pathOf(x).Last() == predF
				}) {
					okNil = true
				}
				continue
			}
			if call, _ := callOf(rl.v); call != nil && !call.Call.IsInvoke() && call.Call.StaticCallee() == nil {
				if pathOf(call.Call.Value).Last() == predF && len(call.Call.Args) == 1 && stripConv(call.Call.Args[0]) == ssa.Value(m.Params[1]) {
					okPred = true
				}
				continue
			}
			okPred = false
			okNil = false
		}
		r.Check(R3, "func "+fnName(m)+" / nil predicate matches, otherwise the predicate decides", p.pos(m.Pos()), okNil && okPred, fmt.Sprintf("nil ⇒ true: %v; predicate(envelope) returned: %v", okNil, okPred))
		shapesAdapter = append(shapesAdapter, cfgShape(m)+"|"+cfgShape(p.Method(k.adapter, "Handle")))
	}

	// ---- R6
	R6 := r.Rule("R6", "the builders register at once: a handler registration made through ServerBuilder/ClientBuilder reaches the mux inside the builder method that was called, never later in Build() — so the table order is the order of the application's calls", 2)
	for _, bn := range []string{"ServerBuilder", "ClientBuilder"} {
		build := p.Method(bn, "Build")
		if build == nil {
			r.Undecided(R6, "anchor-unresolved:"+bn+".Build", "-", "not found")
			continue
		}
		late := ""
		for f := range p.reachable(build) {
			if containsFn(regFns, f) {
				late = fnName(f)
			}
		}
		r.Check(R6, "func "+fnName(build)+" / registers no handler", p.pos(build.Pos()), late == "", "Build() reaches "+late+": a handler registered there lands behind every handler the application registered after the call that asked for it")
	}

	// ---- R4
	if a.listenFn != nil {
		eachInstr(a.listenFn, func(in ssa.Instruction) {
			c, ok := in.(*ssa.Call)
			if !ok {
				return
			}
			g := c.Call.StaticCallee()
			if g == nil || !typeIs(recvType(g), muxT) || !strings.HasPrefix(g.Name(), "handle") {
				return
			}
			okRet := true
			walkFrom(a.listenFn, c, walkOpts{
				barrier: func(in2 ssa.Instruction) bool {
					_, isSel := in2.(*ssa.Select)
					return isSel // back in the loop on the success edge
				},
				cutEdge: func(from *ssa.BasicBlock, k2 int) bool {
					ifi := ifOf(from)
					if ifi == nil {
						return false
					}
					isNil, ok := errTestOf(ifi, k2 == 0, c)
					return ok && isNil
				},
				onExit: func(e ssa.Instruction, pred *ssa.BasicBlock) {
					if ret, ok := e.(*ssa.Return); ok && retMayBeNilVia(ret, pred) {
						okRet = false
					}
				}})
			// and on the error edge the loop is not re-entered
			reenters := false
			walkFrom(a.listenFn, c, walkOpts{
				barrier: func(in2 ssa.Instruction) bool {
					if _, isSel := in2.(*ssa.Select); isSel {
						reenters = true
						return true
					}
					return false
				},
				cutEdge: func(from *ssa.BasicBlock, k2 int) bool {
					ifi := ifOf(from)
					if ifi == nil {
						return false
					}
					isNil, ok := errTestOf(ifi, k2 == 0, c)
					return ok && isNil
				}})
			r.Check(R4, "func "+fnName(a.listenFn)+" / error of "+g.Name()+" stops the dispatch loop", p.instrPos(c), okRet && !reenters, "a handler error must end the loop with that error")
		})
	}

	// ---- R8
	R8 := r.Rule("R8", "a handler's error ends its own session only: the outcome of the per-session serving function is observed by nothing — it is started by a plain go statement (or called with its result discarded), never returned from a function handed to a group or stored, so no construct that cancels the shared serve context (an error group) can react to one session's error", 1)
	if serving, _ := servingFunc(s); serving != nil {
		n := 0
		for _, c := range p.callersOf(serving) {
			n++
			used := ""
			if v, ok := c.(ssa.Value); ok && v.Referrers() != nil {
				for _, ref := range *v.Referrers() {
					if _, isDbg := ref.(*ssa.DebugRef); !isDbg {
						used = "the result of the serving function is used at " + p.instrPos(ref)
					}
				}
			}
			if _, isDefer := c.(*ssa.Defer); isDefer {
				used = "the serving function is deferred"
			}
			r.Check(R8, "func "+fnName(c.Parent())+" / outcome of one session is not fed back", p.instrPos(c), used == "", used)
		}
		if n == 0 {
			r.Undecided(R8, "serving function / call sites", "-", "none found")
		}
	} else {
		r.Undecided(R8, "anchor-unresolved:serving function", "-", "not found")
	}

	// ---- R7
	R7 := r.Rule("R7", "an unmatched envelope is dropped, not left in its stream: every receiving arm of the dispatch select listens on a channel that is never nil (an arm disabled while no handler is registered parks the receiver on the first such envelope and ends the session's input)", 4)
	if a.listenFn != nil {
		eachInstr(a.listenFn, func(in ssa.Instruction) {
			sel, ok := in.(*ssa.Select)
			if !ok || len(sel.States) < 3 {
				return
			}
			for i, st := range sel.States {
				if st.Dir != types.RecvOnly {
					continue
				}
				bad := ""
				for _, l := range leaves(st.Chan) {
					if isNilConst(stripConv(l)) {
						bad = "the channel may be nil"
					}
				}
				r.Check(R7, fmt.Sprintf("func %s / dispatch select arm #%d (%s) always armed", fnName(a.listenFn), i, types.TypeString(st.Chan.Type(), func(*types.Package) string { return "" })), p.pos(st.Pos), bad == "", bad)
			}
		})
	}

	// ---- R5
	same := func(l []string) bool {
		for _, x := range l {
			if x != l[0] {
				return false
			}
		}
		return len(l) > 0
	}
	// Sibling agreement is reported as an observation only: a behaviour-preserving rewrite of one kind (e.g. `return nil`
	// instead of `break`) changes its shape, so arming it would be a false alarm; R1–R4 judge each kind on its own.
	r.Note("sibling shapes (observation, not armed): handle functions agree=%v, adapters agree=%v, registration methods agree=%v", same(shapesHandle), same(shapesAdapter), same(shapesReg))
	r.Trivial(R5, "four kinds inventoried", "-", len(shapesHandle) == 4 && len(shapesAdapter) == 4 && len(shapesReg) == 4, fmt.Sprintf("%d handle functions, %d adapters, %d registration pairs were each checked by R1–R3", len(shapesHandle), len(shapesAdapter), len(shapesReg)))
}

// cfgShape renders a function's control-flow skeleton independent of types and names: per block, the kinds of
// control-relevant instructions and the successor indices.
func cfgShape(fn *ssa.Function) string {
	if fn == nil {
		return "<nil>"
	}
	var sb strings.Builder
	for _, b := range fn.Blocks {
		sb.WriteString(fmt.Sprintf("[%d:", b.Index))
		for _, in := range b.Instrs {
			switch x := in.(type) {
			case *ssa.Call:
				if x.Call.IsInvoke() {
					sb.WriteString("I")
				} else if x.Call.StaticCallee() != nil {
					sb.WriteString("C")
				} else if _, isB := x.Call.Value.(*ssa.Builtin); isB {
					sb.WriteString("B")
				} else {
					sb.WriteString("V")
				}
			case *ssa.If:
				sb.WriteString("?")
			case *ssa.Return:
				sb.WriteString("R")
			case *ssa.Phi:
				sb.WriteString("p")
			case *ssa.Store:
				sb.WriteString("s")
			}
		}
		sb.WriteString("→")
		for _, sx := range b.Succs {
			sb.WriteString(fmt.Sprintf("%d,", sx.Index))
		}
		sb.WriteString("]")
	}
	return sb.String()
}

// isPlainData: basic types and structs/arrays of them — no pointers, maps, slices, channels, interfaces or functions.
func isPlainData(t types.Type, d int) bool {
	if d > 4 {
		return false
	}
	switch x := t.Underlying().(type) {
	case *types.Basic:
		return x.Kind() != types.UnsafePointer
	case *types.Struct:
		for i := 0; i < x.NumFields(); i++ {
			if !isPlainData(x.Field(i).Type(), d+1) {
				return false
			}
		}
		return true
	case *types.Array:
		return isPlainData(x.Elem(), d+1)
	}
	return false
}

func writtenOutsideInit(p *Prog, g *ssa.Global) bool {
	written := false
	for _, fn := range p.LimeFuncs() {
		if strings.HasPrefix(topLevel(fn).Name(), "init") {
			continue
		}
		eachInstr(fn, func(in ssa.Instruction) {
			if st, ok := in.(*ssa.Store); ok && pathOf(st.Addr).Root == ssa.Value(g) {
				written = true
			}
		})
	}
	return written
}
