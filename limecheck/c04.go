package main

import (
	"fmt"
	"go/token"
	"go/types"
	"strings"

	"golang.org/x/tools/go/ssa"
)

func init() {
	register("C04", "FIFO order, exactly-once and equality of content under real schedulers, buffer sizes, payload sizes and transports; TLS/WebSocket framing internals. FIFO is inherited from Go channel semantics and the single-producer/single-consumer shape the rules establish; it is assumed, not proved", c04)
	register("C05", "behaviour under all interleavings of responses, cancellations and id reuse in general; loss of a response that races with its own request's cancellation (allowed by the statement)", c05)
}

func c04(r *Report, s *Sem) {
	p := r.P
	a := s.anchors()
	defer r.Import(s, "C20", "R2", "R13", "exactly once at the handler level: each handle function stops scanning after the first handler it invoked (without the break an envelope is handed to every matching handler and a request is answered twice)", 12)
	R12 := r.Rule("R12", "no deadline of one operation outlives it on a WebSocket connection: the library never re-arms deadlines per write or read there, so the only deadline it may install is the immediate one (time.Now()) that makes a blocked helper fail on cancellation — a deadline taken from a context stays on the connection and fails every later send made under a context without deadline, while both ends stay established", 2)
	defer func() {
		n := 0
		for _, fn := range p.LimeFuncs() {
			eachCall(fn, func(c ssa.CallInstruction) {
				g := staticCallee(c)
				if g == nil || g.Pkg == nil || !strings.HasSuffix(g.Pkg.Pkg.Path(), "gorilla/websocket") || !strings.HasSuffix(g.Name(), "Deadline") || !strings.HasPrefix(g.Name(), "Set") {
					return
				}
				n++
				now := false
				for _, l := range backSlice(c.Common().Args[len(c.Common().Args)-1], 10) {
					if cc, ok := l.(*ssa.Call); ok {
						if h := cc.Call.StaticCallee(); h != nil && h.Pkg != nil && h.Pkg.Pkg.Path() == "time" && h.Name() == "Now" {
							now = true
						}
					}
				}
				r.Check(R12, "func "+fnName(fn)+" / "+g.Name()+" on the WebSocket connection is immediate", p.instrPos(c), now, "the deadline is "+describe(c.Common().Args[len(c.Common().Args)-1])+", not derived from time.Now()")
			})
		}
		if n == 0 {
			r.Undecided(R12, "WebSocket deadlines", "-", "no Set*Deadline call on a WebSocket connection found")
		}
	}()
	R11 := r.Rule("R11", "one consumer per channel: the goroutine that runs the client's dispatch loop is spawned by a single function with a single call site, in the constructor that allocates the Client (the server side has one serving goroutine per accepted transport, C14.R5) — two dispatchers on one channel take alternate envelopes and break the order", 1)
	defer checkSingleDispatcher(r, s, R11)
	defer r.Import(s, "C15", "K", "R10", "TCP keeps delivering after a quiet period: the polling wrappers re-arm, on every retry, a deadline computed from a fresh time.Now() and re-check the context (a deadline computed once per call has expired after the first poll interval: the receiver spins, nothing is delivered any more while both ends stay established)", 2, "(K2)")
	R1 := r.Rule("R1", "every Transport.Send call made on behalf of a channel is inside one critical section of the channel's send mutex (whole-envelope writes are serialised)", 2)
	R2 := r.Rule("R2", "at most one concurrent reader per connection: Transport.Receive is called only by the receiver goroutine (spawned once, through sync.Once) and by the handshake read, whose call is dominated by state ∉ {established, finished}", 3)
	R3 := r.Rule("R3", "in the receiver, every envelope kind is forwarded by exactly one blocking select that sends the very value received (no dropping default arm); a response command goes to the stream only on the miss edge of the pending-table hand-off", 5)
	R4 := r.Rule("R4", "the inbound streams have no send sites outside the receiver goroutine and exactly one close site each, in the receiver's deferred closure", 10)
	R5 := r.Rule("R5", "one frame per envelope: TCP Send performs exactly one Encode, WebSocket Send exactly one WriteJSON, in-process Send exactly one channel send of the value it was given — none inside a loop", 3)
	R6 := r.Rule("R6", "the dispatch loop has one select over the inbound streams and hands each received value to the handler function of its own kind", 4)

	if a.sendMu == nil {
		r.Undecided(R1, "anchor-unresolved:send mutex", "-", "no sync.Mutex field of channel is held around Transport.Send in the data sender")
	}
	for _, c := range a.transportSends {
		fn := c.Parent()
		hl := heldLocks(fn)[c]
		ok := a.sendMu != nil && hl["W:"+a.sendMu.Name()]
		// released afterwards on every path (deferred or explicit)
		released := false
		if ok {
			exits := walkFrom(fn, c, walkOpts{
				barrier: func(in ssa.Instruction) bool {
					if ci, isCall := in.(ssa.CallInstruction); isCall {
						op, mu := mutexOp(ci)
						return op == "Unlock" && mu == a.sendMu.Name()
					}
					return false
				},
				deferBarrier: func(d *ssa.Defer) bool {
					op, mu := mutexOp(d)
					return op == "Unlock" && mu == a.sendMu.Name()
				}})
			released = len(exits) == 0
		}
		r.Check(R1, "func "+fnName(fn)+" / call Transport.Send under send mutex", p.instrPos(c), ok && released,
			fmt.Sprintf("locks held at the call: %v; released on every path after it: %v", hl, released))
	}

	// ---- R2
	for _, c := range a.transportRecvs {
		fn := c.Parent()
		switch {
		case fn == a.receiver:
			r.Trivial(R2, "func "+fnName(fn)+" / call Transport.Receive (receiver goroutine)", p.instrPos(c), true, "role: receiver")
		case containsFn(a.sessionReaders, fn):
			atoms := s.AtomsAt(c)
			ok := hasAtom(atoms, "state!=", "established") && hasAtom(atoms, "state!=", "finished")
			r.Check(R2, "func "+fnName(fn)+" / call Transport.Receive (handshake read)", p.instrPos(c), ok,
				"facts: "+atomsString(atoms)+"; while established the handshake read must take from the session stream, not from the transport")
		default:
			r.Check(R2, "func "+fnName(fn)+" / call Transport.Receive", p.instrPos(c), false, "a third reader of the connection")
		}
	}
	if a.startFn != nil {
		refs := p.methodRefs(a.startFn)
		viaOnce := len(refs) == 1
		for _, ref := range refs {
			mc, isClosure := ref.(*ssa.MakeClosure)
			once := false
			if isClosure {
				for _, u := range *mc.Referrers() {
					if c, ok := u.(ssa.CallInstruction); ok {
						if f := staticCallee(c); f != nil && f.Pkg != nil && f.Pkg.Pkg.Path() == "sync" && f.Name() == "Do" {
							once = true
						}
					}
				}
			}
			if !once {
				viaOnce = false
			}
		}
		r.Check(R2, "func "+fnName(a.startFn)+" / receiver spawned once per channel", p.pos(a.startFn.Pos()), viaOnce, fmt.Sprintf("%d reference(s); all through sync.Once.Do: %v", len(refs), viaOnce))
		// exactly one go statement in the whole package spawns a function that reads the transport
		nGo := 0
		for _, fn := range p.LimeFuncs() {
			eachInstr(fn, func(in ssa.Instruction) {
				g, ok := in.(*ssa.Go)
				if !ok {
					return
				}
				for _, callee := range p.calleesAt(g) {
					if callee == a.receiver {
						nGo++
						if reachesInstr(g, g) {
							nGo++ // in a loop: counts as many
						}
					}
				}
			})
		}
		r.Check(R2, "go statements spawning the receiver", p.instrPos(a.goSite), nGo == 1, fmt.Sprintf("%d go site(s) spawn the function that reads the transport; two concurrent readers would interleave envelopes", nGo))
	} else {
		r.Undecided(R2, "anchor-unresolved:receiver spawn", "-", "go site of the receiver not found")
	}

	// ---- R3
	if a.receiver != nil {
		type arm struct {
			ta   *ssa.TypeAssert
			sent bool
			pos  string
		}
		var arms []*arm
		eachInstr(a.receiver, func(in ssa.Instruction) {
			if ta, ok := in.(*ssa.TypeAssert); ok && ta.CommaOk {
				arms = append(arms, &arm{ta: ta, pos: p.instrPos(in)})
			}
		})
		handoff := p.handoffFunc(s)
		eachInstr(a.receiver, func(in ssa.Instruction) {
			sel, ok := in.(*ssa.Select)
			if !ok {
				return
			}
			for _, st := range sel.States {
				if st.Dir != types.SendOnly {
					continue
				}
				for _, am := range arms {
					ex, ok := stripConv(st.Send).(*ssa.Extract)
					if !ok || ex.Tuple != am.ta || ex.Index != 0 {
						continue
					}
					okArm := sel.Blocking
					why := fmt.Sprintf("blocking select=%v", sel.Blocking)
					// one select per arm: the select is not in a cycle that excludes the receive
					if typeIs(am.ta.AssertedType, p.Type("ResponseCommand")) {
						miss := handoff != nil && guardedBy(sel.Block(), func(ifi *ssa.If, br bool) bool {
							c := condOn(ifi, br)
							if c.Op != token.ILLEGAL || c.True {
								return false
							}
							call, _ := callOf(c.Val)
							return call != nil && call.Call.StaticCallee() == handoff
						})
						okArm = okArm && miss
						why += fmt.Sprintf(", on the miss edge of the pending-table hand-off=%v", miss)
					}
					if am.sent {
						okArm = false
						why += ", a second send of the same envelope"
					}
					am.sent = true
					r.Check(R3, "receiver arm "+shortType(am.ta.AssertedType.String())+" / forwards the received value", p.instrPos(in), okArm, why)
				}
			}
		})
		for _, am := range arms {
			if !am.sent {
				r.Check(R3, "receiver arm "+shortType(am.ta.AssertedType.String())+" / forwards the received value", am.pos, false, "this kind is never forwarded to an inbound stream")
			}
		}
	} else {
		r.Undecided(R3, "anchor-unresolved:receiver", "-", "receiver goroutine not found")
	}

	// ---- R4
	fns := p.LimeFuncs()
	isStream := func(f *types.Var) bool {
		for _, sf := range a.streams {
			if sf == f {
				return true
			}
		}
		return false
	}
	for _, site := range p.chanSendSites(fns) {
		if !isStream(site.field) {
			continue
		}
		ok := enclosedBy(site.fn, a.receiver)
		r.Check(R4, "func "+fnName(site.fn)+" / send on "+site.field.Name(), p.instrPos(site.in), ok, "only the receiver goroutine may feed the inbound streams (nothing is delivered that was not received)")
	}
	closes := map[*types.Var]int{}
	for _, site := range p.chanCloseSites(fns) {
		if site.field == nil || (!isStream(site.field) && site.field != a.doneField) {
			// the receiver closes `done` through its parameter: resolve by type below
			if enclosedBy(site.fn, a.receiver) && site.field == nil {
				closes[a.doneField]++
			}
			continue
		}
		closes[site.field]++
		inDefer := site.fn.Parent() == a.receiver && isDeferredClosure(a.receiver, site.fn)
		r.Check(R4, "func "+fnName(site.fn)+" / close "+site.field.Name(), p.instrPos(site.in), inDefer, "streams are closed only by the receiver's deferred closure")
	}
	for _, sf := range a.streams {
		r.Check(R4, "stream "+sf.Name()+" / closed exactly once", "-", closes[sf] == 1, fmt.Sprintf("%d close site(s)", closes[sf]))
	}

	// ---- R5
	for _, send := range p.Implementations(s.transportT, "Send") {
		var ops []ssa.Instruction
		var kinds []string
		for _, f := range withAnon(send) {
			eachInstr(f, func(in ssa.Instruction) {
				switch x := in.(type) {
				case ssa.CallInstruction:
					if g := staticCallee(x); g != nil && (g.Name() == "Encode" || g.Name() == "WriteJSON" || g.Name() == "WriteMessage") {
						ops = append(ops, in)
						kinds = append(kinds, g.Name())
					}
				case *ssa.Send:
					if el, ok := x.Chan.Type().Underlying().(*types.Chan); ok && types.IsInterface(el.Elem()) && el.Elem().String() != "error" {
						ops = append(ops, in)
						kinds = append(kinds, "chan send")
					}
				case *ssa.Select:
					for _, st := range x.States {
						if st.Dir == types.SendOnly {
							if el, ok := st.Chan.Type().Underlying().(*types.Chan); ok && types.IsInterface(el.Elem()) && el.Elem().String() != "error" {
								ops = append(ops, in)
								kinds = append(kinds, "select send")
							}
						}
					}
				}
			})
		}
		ok := len(ops) == 1
		why := fmt.Sprintf("write operations: %v", kinds)
		if ok {
			if reachesInstr(ops[0], ops[0]) {
				ok = false
				why += " (inside a loop)"
			}
			// the value written is the envelope parameter
			var val ssa.Value
			switch x := ops[0].(type) {
			case ssa.CallInstruction:
				val = x.Common().Args[len(x.Common().Args)-1]
			case *ssa.Send:
				val = x.X
			case *ssa.Select:
				for _, st := range x.States {
					if st.Dir == types.SendOnly {
						val = st.Send
					}
				}
			}
			isParam := false
			for _, l := range leaves(val) {
				if pr, ok2 := stripConv(l).(*ssa.Parameter); ok2 && topLevel(pr.Parent()) == send {
					isParam = true
				}
				if fv, ok2 := stripConv(l).(*ssa.FreeVar); ok2 {
					_ = fv
					isParam = true
				}
			}
			if !isParam {
				ok = false
				why += "; the value written is not the envelope handed to Send"
			}
		}
		r.Check(R5, "func "+fnName(send)+" / one write per envelope", p.pos(send.Pos()), ok, why)
	}

	// ---- R6
	c04Dispatch(r, s, R6)
	R7 := r.Rule("R7", "a response command is delivered exactly once also when its requester gave up: the pending entry is removed on every exit of the request path, so a late response misses the table and goes to the response stream", 1)
	checkPendingCleanup(r, s, R7)
	r.Import(s, "C12", "R4", "R8", "TCP: the JSON encoder/decoder of a transport work straight on the connection wrapper (no intermediate buffer that survives a failed send and is flushed with the next envelope: exactly once, nothing delivered that was not sent)", 5)
	r.Import(s, "C01", "R1", "R9", "intact content over the network transports: every exported field of every envelope kind and document wrapper is written by its encoder and restored by its decoder (a decoder that rebuilds a value through a constructor drops what the constructor derives, e.g. a collection's total)", 60)
}

func isDeferredClosure(parent, anon *ssa.Function) bool {
	found := false
	eachInstr(parent, func(in ssa.Instruction) {
		if d, ok := in.(*ssa.Defer); ok {
			switch x := d.Call.Value.(type) {
			case *ssa.MakeClosure:
				if x.Fn == anon {
					found = true
				}
			case *ssa.Function:
				if x == anon {
					found = true
				}
			}
		}
	})
	return found
}

// handoffFunc: the function that hands a response to a pending caller: takes a *ResponseCommand, returns bool, and
// touches the pending table.
func (p *Prog) handoffFunc(s *Sem) *ssa.Function {
	for _, fn := range p.LimeFuncs() {
		if fn.Parent() != nil || !isBool(fn.Signature.Results()) || len(fn.Params) != 2 {
			continue
		}
		if typeIs(fn.Params[1].Type(), p.Type("ResponseCommand")) && typeIs(recvType(fn), s.channelT) {
			return fn
		}
	}
	return nil
}

// checkSingleDispatcher (C04.R11): a channel's inbound streams have one consumer. On the client side the goroutine that
// runs the dispatch loop is spawned by one function, which is called exactly once — by the function that allocates the
// Client. A second listener on the same channel takes alternate envelopes and runs handlers concurrently: order is lost.
func checkSingleDispatcher(r *Report, s *Sem, R string) {
	p := r.P
	a := s.anchors()
	if a.listenFn == nil {
		r.Undecided(R, "anchor-unresolved:dispatch loop", "-", "not found")
		return
	}
	clientT := p.Type("Client")
	n := 0
	for _, fn := range p.LimeFuncs() {
		if fn.Parent() != nil || clientT == nil {
			continue
		}
		allocsClient := false
		eachInstr(fn, func(in ssa.Instruction) {
			if al, ok := in.(*ssa.Alloc); ok && typeIs(al.Type(), clientT) {
				allocsClient = true
			}
		})
		if !typeIs(recvType(fn), clientT) && !allocsClient {
			continue
		}
		spawns := false
		eachInstr(fn, func(in ssa.Instruction) {
			g, ok := in.(*ssa.Go)
			if !ok {
				return
			}
			for _, callee := range p.calleesAt(g) {
				if callee == a.listenFn || p.reachable(callee)[a.listenFn] {
					spawns = true
				}
			}
		})
		if !spawns {
			continue
		}
		n++
		if allocsClient {
			// the constructor spawns the dispatcher itself, once per Client it allocates
			nGo := 0
			eachInstr(fn, func(in ssa.Instruction) {
				if g, ok := in.(*ssa.Go); ok {
					for _, callee := range p.calleesAt(g) {
						if callee == a.listenFn || p.reachable(callee)[a.listenFn] {
							nGo++
						}
					}
				}
			})
			r.Check(R, "func "+fnName(fn)+" / the client's dispatcher is started once, by the constructor", p.pos(fn.Pos()), nGo == 1, fmt.Sprintf("%d go statement(s) reaching the dispatch loop in the constructor", nGo))
			continue
		}
		callers := p.callersOf(fn)
		inCtor := 0
		for _, c := range callers {
			eachInstr(topLevel(c.Parent()), func(in ssa.Instruction) {
				if al, ok := in.(*ssa.Alloc); ok && typeIs(al.Type(), clientT) {
					inCtor++
				}
			})
		}
		r.Check(R, "func "+fnName(fn)+" / the client's dispatcher is started once, by the constructor", p.pos(fn.Pos()), len(callers) == 1 && inCtor > 0,
			fmt.Sprintf("%d call site(s), %d of them in a function that allocates the Client", len(callers), inCtor))
	}
	if n == 0 {
		r.Undecided(R, "client listener", "-", "no method of Client spawns a goroutine that reaches the dispatch loop")
	}
}

func c04Dispatch(r *Report, s *Sem, R6 string) {
	p := r.P
	a := s.anchors()
	if a.listenFn == nil {
		r.Undecided(R6, "anchor-unresolved:dispatch loop", "-", "not found")
		return
	}
	nSel := 0
	eachInstr(a.listenFn, func(in ssa.Instruction) {
		sel, ok := in.(*ssa.Select)
		if !ok {
			return
		}
		nSel++
		for i, st := range sel.States {
			if st.Dir != types.RecvOnly {
				continue
			}
			f := s.chanField(st.Chan)
			isStream := false
			for _, sf := range a.streams {
				if sf == f {
					isStream = true
				}
			}
			if !isStream || f == nil {
				continue
			}
			elem := f.Type().Underlying().(*types.Chan).Elem()
			// find the extract of the received value for this state: Select returns (index, recvOk, r0, r1, ...)
			recvIdx := 2
			for k := 0; k < i; k++ {
				if sel.States[k].Dir == types.RecvOnly {
					recvIdx++
				}
			}
			var val ssa.Value
			for _, ref := range *sel.Referrers() {
				if ex, ok := ref.(*ssa.Extract); ok && ex.Index == recvIdx {
					val = ex
				}
			}
			ok, why := false, "no handler call receives the value taken from this stream"
			if val != nil {
				for _, ref := range *val.Referrers() {
					c, isCall := ref.(ssa.CallInstruction)
					if !isCall {
						continue
					}
					g := staticCallee(c)
					if g == nil || g.Signature.Recv() == nil || !typeIs(recvType(g), p.Type("EnvelopeMux")) {
						continue
					}
					// the handler function's envelope parameter type equals the stream's element type
					for pi, arg := range c.Common().Args {
						if arg == val && types.Identical(g.Params[pi].Type(), elem) {
							ok = true
							why = "handed to " + fnName(g)
						}
					}
				}
			}
			r.Check(R6, "func "+fnName(a.listenFn)+" / stream "+f.Name()+" dispatched", p.instrPos(in), ok, why)
		}
	})
	r.Check(R6, "func "+fnName(a.listenFn)+" / one select", p.pos(a.listenFn.Pos()), nSel == 1, fmt.Sprintf("%d select statements", nSel))
}

func c05(r *Report, s *Sem) {
	defer r.Import(s, "C15", "L", "R7", "the pending table stays available while requests are written: its mutex is never held across a blocking primitive or a call that reaches one (a table locked during a transport write blocks the receiver's hand-off of every other response and the clean-up of every caller that gave up)", 1)
	p := r.P
	a := s.anchors()
	R1 := r.Rule("R1", "every access to the pending-request table happens with its RW-mutex held, writes and deletes under the write lock", 5)
	R2 := r.Rule("R2", "in the request path the duplicate lookup and the insert are one critical section, the insert is keyed by the request's id, the reply channel is created per call with capacity ≥ 1, and a deferred delete of that key covers every exit after the insert", 5)
	R3 := r.Rule("R3", "the response returned to a caller is the one received from the reply channel that this call registered; the only other exits return errors", 2)
	R4 := r.Rule("R4", "the hand-off looks the table up by the response's own id, sends that same response on the channel found, and reports a miss otherwise", 3)
	R5 := r.Rule("R5", "atomic take: the lookup of a pending entry and its removal are in one critical section of the write lock (no unlock in between)", 1)

	tableF := p.Field("channel", "processingCmds")
	var muName string
	if tableF == nil {
		// resolve by type: the map[string]chan *ResponseCommand field of channel
		if st, ok := s.channelT.Underlying().(*types.Struct); ok {
			for _, f := range flatStructFields(p, st) {
				if m, ok := f.Type().Underlying().(*types.Map); ok {
					if ch, ok := m.Elem().Underlying().(*types.Chan); ok && typeIs(ch.Elem(), p.Type("ResponseCommand")) {
						tableF = f
					}
				}
			}
		}
	}
	if tableF == nil {
		r.Undecided(R1, "anchor-unresolved:pending table", "-", "no map[string]chan *ResponseCommand field in channel")
		return
	}
	type access struct {
		in    ssa.Instruction
		write bool
		kind  string
		key   ssa.Value
	}
	accessesOf := func(fn *ssa.Function) []access {
		var out []access
		eachInstr(fn, func(in ssa.Instruction) {
			switch x := in.(type) {
			case *ssa.Lookup:
				if readsField(x.X, tableF) {
					out = append(out, access{in, false, "lookup", x.Index})
				}
			case *ssa.MapUpdate:
				if readsField(x.Map, tableF) {
					out = append(out, access{in, true, "insert", x.Key})
				}
			case *ssa.Range:
				if readsField(x.X, tableF) {
					out = append(out, access{in, false, "range", nil})
				}
			case ssa.CallInstruction:
				if b, ok := x.Common().Value.(*ssa.Builtin); ok && (b.Name() == "delete" || b.Name() == "len") && readsField(x.Common().Args[0], tableF) {
					if b.Name() == "delete" {
						out = append(out, access{in, true, "delete", x.Common().Args[1]})
					} else {
						out = append(out, access{in, false, "len", nil})
					}
				}
			}
		})
		return out
	}
	// the guarding mutex: the RWMutex field held at the first access
	for _, fn := range p.LimeFuncs() {
		for _, ac := range accessesOf(fn) {
			hl := heldLocks(fn)[ac.in]
			for k := range hl {
				if muName == "" {
					muName = k[2:]
				}
			}
		}
	}
	for _, fn := range p.LimeFuncs() {
		hl := heldLocks(fn)
		for _, ac := range accessesOf(fn) {
			held := hl[ac.in]
			ok := held["W:"+muName] || (!ac.write && held["R:"+muName])
			if _, isAlloc := pathOf(tableOperand(ac.in)).Root.(*ssa.Alloc); isAlloc {
				continue // constructor: the struct is not shared yet
			}
			r.Check(R1, "func "+fnName(fn)+" / "+ac.kind+" on pending table", p.instrPos(ac.in), ok && muName != "", fmt.Sprintf("locks held: %v; guarding mutex: %s", held, muName))
		}
	}

	// ---- R2/R3: the request path = function that inserts
	var reqFn *ssa.Function
	for _, fn := range p.LimeFuncs() {
		for _, ac := range accessesOf(fn) {
			if ac.kind == "insert" && fn.Parent() == nil {
				reqFn = fn
			}
		}
	}
	handoff := p.handoffFunc(s)
	unlockBarrier := func(in ssa.Instruction) bool {
		if ci, ok := in.(ssa.CallInstruction); ok {
			if _, isDefer := in.(*ssa.Defer); isDefer {
				return false
			}
			op, mu := mutexOp(ci)
			return (op == "Unlock" || op == "RUnlock") && mu == muName
		}
		return false
	}
	if reqFn == nil {
		r.Undecided(R2, "anchor-unresolved:request path", "-", "no function inserts into the pending table")
	} else {
		var lookup, insert *access
		acs := accessesOf(reqFn)
		for i := range acs {
			switch acs[i].kind {
			case "lookup":
				lookup = &acs[i]
			case "insert":
				insert = &acs[i]
			}
		}
		var reqParam *ssa.Parameter
		for _, pr := range reqFn.Params {
			if typeIs(pr.Type(), p.Type("RequestCommand")) {
				reqParam = pr
			}
		}
		idOfReq := func(v ssa.Value) bool {
			ap := pathOf(v)
			return reqParam != nil && ap.Root == ssa.Value(reqParam) && ap.Last() != nil && ap.Last().Name() == "ID"
		}
		if lookup == nil || insert == nil {
			r.Check(R2, "func "+fnName(reqFn)+" / duplicate check before insert", p.pos(reqFn.Pos()), false, "lookup or insert missing")
		} else {
			// same critical section: from the lookup, the insert is reached without crossing an unlock
			reachedLocked := false
			walkFrom(reqFn, lookup.in, walkOpts{barrier: func(in ssa.Instruction) bool {
				if in == insert.in {
					reachedLocked = true
					return true
				}
				return unlockBarrier(in)
			}})
			dominated := instrDominates(lookup.in, insert.in)
			r.Check(R2, "func "+fnName(reqFn)+" / duplicate check and insert in one critical section", p.instrPos(insert.in), reachedLocked && dominated,
				fmt.Sprintf("lookup dominates insert=%v, no unlock between=%v", dominated, reachedLocked))
			// the insert is on the miss edge of the duplicate lookup
			missEdge := guardedBy(insert.in.Block(), func(ifi *ssa.If, br bool) bool {
				c := condOn(ifi, br)
				if c.Op != token.ILLEGAL || c.True {
					return false
				}
				ex, ok := stripConv(c.Val).(*ssa.Extract)
				return ok && ex.Tuple == lookup.in.(*ssa.Lookup) && ex.Index == 1
			})
			r.Check(R2, "func "+fnName(reqFn)+" / duplicate id rejected", p.instrPos(lookup.in), missEdge && idOfReq(lookup.key), "the insert must be on the not-found edge of a lookup of the request's own id (the pending entry is not disturbed)")
			r.Check(R2, "func "+fnName(reqFn)+" / insert keyed by request id", p.instrPos(insert.in), idOfReq(insert.key), "key: "+describe(insert.key))
			// reply channel: per-call MakeChan with capacity ≥ 1
			mu := insert.in.(*ssa.MapUpdate)
			mc, isMake := stripConv(mu.Value).(*ssa.MakeChan)
			capOK := false
			if isMake {
				if k, ok := constInt(mc.Size); ok && k >= 1 {
					capOK = true
				}
			}
			r.Check(R2, "func "+fnName(reqFn)+" / reply channel buffered", p.instrPos(insert.in), isMake && capOK, "the receiver must never block on a caller that gave up: per-call channel with constant capacity ≥ 1")
			// deferred delete covers every exit after the insert
			isDelDefer := func(d *ssa.Defer) bool {
				var f *ssa.Function
				switch x := d.Call.Value.(type) {
				case *ssa.MakeClosure:
					f = x.Fn.(*ssa.Function)
				case *ssa.Function:
					f = x
				}
				if f == nil {
					return false
				}
				for _, ac := range accessesOf(f) {
					if ac.kind == "delete" {
						kap := pathOf(ac.key)
						// the key is the captured request's id
						if kap.Last() != nil && kap.Last().Name() == "ID" {
							return true
						}
					}
				}
				return false
			}
			exits := walkFrom(reqFn, insert.in, walkOpts{deferBarrier: isDelDefer, cutEdge: contradicts(insert.in.Block()), barrier: func(in ssa.Instruction) bool {
				if ci, ok := in.(ssa.CallInstruction); ok {
					if _, isDefer := in.(*ssa.Defer); !isDefer {
						if b, ok := ci.Common().Value.(*ssa.Builtin); ok && b.Name() == "delete" {
							return true
						}
					}
				}
				return false
			}})
			r.Check(R2, "func "+fnName(reqFn)+" / entry removed on every exit", p.instrPos(insert.in), len(exits) == 0,
				fmt.Sprintf("%d exit(s) after the insert not covered by a (deferred) delete of the request's id", len(exits)))
			// every request that is sent was registered first, whatever its method or other fields
			nSend := 0
			eachCall(reqFn, func(c ssa.CallInstruction) {
				if c.Common().IsInvoke() {
					// the sender handed in (an interface of the package)
					if _, isParam := stripConv(c.Common().Value).(*ssa.Parameter); !isParam {
						return
					}
					if n := namedOf(c.Common().Value.Type()); n == nil || n.Obj().Pkg() != p.LimeT {
						return
					}
				} else {
					// or a direct call of something that writes a data envelope to the transport
					g := staticCallee(c)
					if g == nil || g.Pkg != p.Lime {
						return
					}
					sends := containsFn(a.dataSenders, g)
					for f := range p.reachable(g) {
						if containsFn(a.dataSenders, f) {
							sends = true
						}
					}
					if !sends {
						return
					}
				}
				nSend++
				// every feasible path from the entry to the send passes the insert (edges that contradict what is known at
				// the send — e.g. the not-in-use flag — are not taken)
				unregistered := false
				ci := c.(ssa.Instruction)
				walkFrom(reqFn, nil, walkOpts{cutEdge: contradicts(ci.Block()), barrier: func(in ssa.Instruction) bool {
					if in == insert.in {
						return true
					}
					if in == ci {
						unregistered = true
						return true
					}
					return false
				}})
				r.Check(R2, "func "+fnName(reqFn)+" / the request is sent only after it was registered", p.instrPos(c), !unregistered,
					"a path sends the request without a pending entry (e.g. for one method only): its response is then surfaced as unmatched and the caller gets neither response nor context error")
			})
			if nSend == 0 {
				r.Undecided(R2, "func "+fnName(reqFn)+" / send through the sender parameter", p.pos(reqFn.Pos()), "no invoke on a parameter of an interface of the package")
			}
			// R3
			for _, rl := range returnLeaves(reqFn, 0) {
				if isNilConst(rl.v) {
					continue
				}
				ok := false
				v := stripConv(rl.v)
				var ch ssa.Value
				if u, isU := v.(*ssa.UnOp); isU && u.Op == token.ARROW {
					ch = u.X
				}
				if ex, isEx := v.(*ssa.Extract); isEx {
					if sel, isSel := ex.Tuple.(*ssa.Select); isSel {
						ri := 2
						for _, st := range sel.States {
							if st.Dir == types.RecvOnly {
								if ri == ex.Index {
									ch = st.Chan
								}
								ri++
							}
						}
					}
				}
				if ch != nil && isMake && stripConv(ch) == ssa.Value(mc) {
					ok = true
				}
				r.Check(R3, "func "+fnName(reqFn)+" / returned response", p.instrPos(rl.in), ok, "the response returned must be received from the reply channel registered by this call; got "+describe(rl.v))
			}
			// the context arm returns an error
			nErr := 0
			for _, rl := range returnLeaves(reqFn, 1) {
				if !isNilConst(rl.v) {
					nErr++
				}
			}
			r.Check(R3, "func "+fnName(reqFn)+" / error exits", p.pos(reqFn.Pos()), nErr >= 2, fmt.Sprintf("%d error-returning exits (duplicate id, send failure, context end expected)", nErr))
			// the wait: nothing but the reply slot and the caller's context can end it
			if isMake {
				nSel := 0
				eachInstr(reqFn, func(in ssa.Instruction) {
					sel, ok := in.(*ssa.Select)
					if !ok {
						return
					}
					mine := false
					for _, st := range sel.States {
						if st.Dir == types.RecvOnly && stripConv(st.Chan) == ssa.Value(mc) {
							mine = true
						}
					}
					if !mine {
						return
					}
					nSel++
					extra := ""
					for _, st := range sel.States {
						if st.Dir == types.RecvOnly && stripConv(st.Chan) == ssa.Value(mc) {
							continue
						}
						if cv, isDone := isCtxDoneChan(st.Chan); isDone && st.Dir == types.RecvOnly && ctxFromParam(cv, 0) {
							continue
						}
						extra = describe(st.Chan)
					}
					if !sel.Blocking {
						extra = "a default arm"
					}
					r.Check(R3, "func "+fnName(reqFn)+" / the wait ends only with the response or the caller's context", p.instrPos(in), extra == "",
						"another way out of the wait ("+extra+") races with a response that was already taken out of the table: the caller gets neither the response nor its context's error, and the response is lost")
				})
				if nSel == 0 {
					r.Check(R3, "func "+fnName(reqFn)+" / the wait ends only with the response or the caller's context", p.pos(reqFn.Pos()), false, "no select on the registered reply channel")
				}
			}
		}
	}

	// ---- R4/R5
	if handoff == nil {
		r.Undecided(R4, "anchor-unresolved:hand-off", "-", "no func(*ResponseCommand) bool method on channel")
		return
	}
	acs := accessesOf(handoff)
	var lookup, del *access
	for i := range acs {
		switch acs[i].kind {
		case "lookup":
			lookup = &acs[i]
		case "delete":
			del = &acs[i]
		}
	}
	respParam := handoff.Params[1]
	idOfResp := func(v ssa.Value) bool {
		ap := pathOf(v)
		return ap.Root == ssa.Value(respParam) && ap.Last() != nil && ap.Last().Name() == "ID"
	}
	if lookup == nil || del == nil {
		r.Check(R4, "func "+fnName(handoff)+" / lookup and removal", p.pos(handoff.Pos()), false, "the hand-off must look the entry up and remove it")
		return
	}
	r.Check(R4, "func "+fnName(handoff)+" / lookup keyed by response id", p.instrPos(lookup.in), idOfResp(lookup.key) && idOfResp(del.key), "keys: "+describe(lookup.key)+", "+describe(del.key))
	// the send: value = response param, channel = looked-up value
	sendOK, why := false, "no send of the response on the looked-up channel"
	eachInstr(handoff, func(in ssa.Instruction) {
		var ch, val ssa.Value
		switch x := in.(type) {
		case *ssa.Send:
			ch, val = x.Chan, x.X
		case *ssa.Select:
			for _, st := range x.States {
				if st.Dir == types.SendOnly {
					ch, val = st.Chan, st.Send
				}
			}
		}
		if ch == nil {
			return
		}
		ex, ok := stripConv(ch).(*ssa.Extract)
		if ok && ex.Tuple == lookup.in.(*ssa.Lookup) && ex.Index == 0 && stripConv(val) == ssa.Value(respParam) {
			sendOK = true
			// found edge
			found := guardedBy(in.Block(), func(ifi *ssa.If, br bool) bool {
				c := condOn(ifi, br)
				e2, ok := stripConv(c.Val).(*ssa.Extract)
				return c.Op == token.ILLEGAL && c.True && ok && e2.Tuple == lookup.in.(*ssa.Lookup) && e2.Index == 1
			})
			if !found {
				sendOK, why = false, "the send is not on the found edge of the lookup"
			}
		}
	})
	r.Check(R4, "func "+fnName(handoff)+" / sends the same response to the looked-up channel", p.pos(handoff.Pos()), sendOK, why)
	// miss ⇒ false; hit ⇒ true
	missFalse := true
	for _, rl := range returnLeaves(handoff, 0) {
		c, isC := rl.v.(*ssa.Const)
		if !isC {
			// the found flag of the lookup itself
			if e2, ok := stripConv(rl.v).(*ssa.Extract); ok && e2.Tuple == ssa.Value(lookup.in.(*ssa.Lookup)) && e2.Index == 1 {
				continue
			}
			missFalse = false
			continue
		}
		if c.Value.String() == "true" {
			// must be after the send: dominated by found edge
			found := guardedBy(rl.b, func(ifi *ssa.If, br bool) bool {
				cc := condOn(ifi, br)
				e2, ok := stripConv(cc.Val).(*ssa.Extract)
				return cc.Op == token.ILLEGAL && cc.True && ok && e2.Tuple == lookup.in.(*ssa.Lookup) && e2.Index == 1
			})
			if !found {
				missFalse = false
			}
		}
	}
	r.Check(R4, "func "+fnName(handoff)+" / reports a miss as false", p.pos(handoff.Pos()), missFalse, "true may be returned only on the found edge, so that the receiver surfaces unmatched responses on the stream")

	// R5
	sameSection := false
	walkFrom(handoff, lookup.in, walkOpts{barrier: func(in ssa.Instruction) bool {
		if in == del.in {
			sameSection = true
			return true
		}
		return unlockBarrier(in)
	}})
	hl := heldLocks(handoff)
	wl := hl[lookup.in]["W:"+muName] && hl[del.in]["W:"+muName]
	r.Check(R5, "func "+fnName(handoff)+" / lookup and delete in one critical section", p.instrPos(del.in), sameSection && wl && instrDominates(lookup.in, del.in),
		fmt.Sprintf("delete reached from the lookup without an unlock=%v, both under the write lock=%v (otherwise a cancelled request's id can be re-registered in the gap and the new entry deleted)", sameSection, wl))
	r.Import(s, "C04", "R3", "R6", "a response that matches no pending request is surfaced, not lost: the receiver forwards it to the response stream by a blocking select without a dropping default arm, on the miss edge of the pending-table hand-off", 1, "ResponseCommand")
}

func tableOperand(in ssa.Instruction) ssa.Value {
	switch x := in.(type) {
	case *ssa.Lookup:
		return x.X
	case *ssa.MapUpdate:
		return x.Map
	case *ssa.Range:
		return x.X
	case ssa.CallInstruction:
		return x.Common().Args[0]
	}
	return nil
}
