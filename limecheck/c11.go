package main

import (
	"fmt"
	"go/token"
	"go/types"
	"sort"
	"strings"

	"golang.org/x/tools/go/ssa"
)

func init() {
	register("C11", "value equality of arbitrary resources after a wire round trip (inherits C01's residue); what user handlers do with the reply", c11)
}

// retLeaf is one value a function may return (result index idx) together with the block control comes from.
type retLeaf struct {
	v  ssa.Value
	b  *ssa.BasicBlock // block control comes from
	to *ssa.BasicBlock // block of the phi that selected v (nil when v is returned directly)
	in *ssa.Return
}

func returnLeaves(fn *ssa.Function, idx int) []retLeaf {
	var out []retLeaf
	var rec func(v ssa.Value, b, to *ssa.BasicBlock, r *ssa.Return, d int)
	rec = func(v ssa.Value, b, to *ssa.BasicBlock, r *ssa.Return, d int) {
		if ph, ok := v.(*ssa.Phi); ok && d < 20 {
			for i, e := range ph.Edges {
				rec(e, ph.Block().Preds[i], ph.Block(), r, d+1)
			}
			return
		}
		// defer-spilled results: `*res = v; rundefers; t = *res; return t` — take the last store in the same block
		if u, ok := v.(*ssa.UnOp); ok && u.Op == token.MUL && d < 20 {
			if a, ok := u.X.(*ssa.Alloc); ok && u.Block() == r.Block() {
				var last *ssa.Store
				for _, in := range u.Block().Instrs {
					if in == ssa.Instruction(u) {
						break
					}
					if st, ok := in.(*ssa.Store); ok && st.Addr == ssa.Value(a) {
						last = st
					}
				}
				if last != nil {
					rec(last.Val, b, to, r, d+1)
					return
				}
			}
		}
		out = append(out, retLeaf{v, b, to, r})
	}
	eachInstr(fn, func(in ssa.Instruction) {
		if r, ok := in.(*ssa.Return); ok && idx < len(r.Results) {
			if fn.Recover != nil && r.Block() == fn.Recover {
				return // the panic-recovery exit returns the (zero or already assigned) named results
			}
			rec(r.Results[idx], r.Block(), nil, r, 0)
		}
	})
	return out
}

// findFieldChain finds the chain of field names (including embedded hops) leading to field `name` in struct type t.
func findFieldChain(t types.Type, name string) []string {
	if p, ok := t.Underlying().(*types.Pointer); ok {
		t = p.Elem()
	}
	st, ok := t.Underlying().(*types.Struct)
	if !ok {
		return nil
	}
	for i := 0; i < st.NumFields(); i++ {
		if st.Field(i).Name() == name && !st.Field(i).Embedded() {
			return []string{name}
		}
	}
	for i := 0; i < st.NumFields(); i++ {
		f := st.Field(i)
		if f.Embedded() {
			if sub := findFieldChain(f.Type(), name); sub != nil {
				return append([]string{f.Name()}, sub...)
			}
		}
	}
	return nil
}

// srcDesc describes where a value comes from in the frame of fn: recv.<fields>, param:<name>, const:<v>, call:<f>(<args>).
func srcDesc(fn *ssa.Function, v ssa.Value, depth int) []string {
	var out []string
	for _, l := range leaves(v) {
		out = append(out, leafDesc(fn, l, depth)...)
	}
	sort.Strings(out)
	return uniq(out)
}

func uniq(s []string) []string {
	var out []string
	for i, x := range s {
		if i == 0 || x != s[i-1] {
			out = append(out, x)
		}
	}
	return out
}

func rootDesc(fn *ssa.Function, root ssa.Value) string {
	for i, p := range fn.Params {
		if p == root {
			if i == 0 && fn.Signature.Recv() != nil {
				return "recv"
			}
			return "param:" + p.Name()
		}
	}
	return ""
}

func leafDesc(fn *ssa.Function, l ssa.Value, depth int) []string {
	l = stripConv(l)
	switch x := l.(type) {
	case *ssa.Const:
		if x.Value == nil {
			return []string{"const:zero"}
		}
		return []string{"const:" + strings.Trim(x.Value.ExactString(), `"`)}
	case *ssa.Parameter:
		return []string{rootDesc(fn, x)}
	case *ssa.Call:
		name := ""
		if f := x.Call.StaticCallee(); f != nil {
			name = f.Name()
		} else if x.Call.IsInvoke() {
			name = x.Call.Method.Name()
		} else {
			name = "?"
		}
		var args []string
		if x.Call.IsInvoke() {
			args = append(args, strings.Join(srcDesc(fn, x.Call.Value, depth+1), "|"))
		}
		for _, a := range x.Call.Args {
			args = append(args, strings.Join(srcDesc(fn, a, depth+1), "|"))
		}
		return []string{"call:" + name + "(" + strings.Join(args, ",") + ")"}
	case *ssa.Alloc:
		// address of a local: describe what is stored in it
		var out []string
		for _, r := range *x.Referrers() {
			if st, ok := r.(*ssa.Store); ok && st.Addr == x {
				for _, d := range srcDesc(fn, st.Val, depth+1) {
					out = append(out, "&"+d)
				}
			}
		}
		if len(out) == 0 {
			out = []string{"&local"}
		}
		return out
	}
	ap := pathOf(l)
	if rd := rootDesc(fn, ap.Root); rd != "" {
		names := ap.FieldNames()
		if len(names) == 0 {
			return []string{rd}
		}
		return []string{rd + "." + strings.Join(names, ".")}
	}
	if c, ok := ap.Root.(*ssa.Call); ok && len(ap.Fields) > 0 {
		base := leafDesc(fn, c, depth)
		return []string{base[0] + "." + strings.Join(ap.FieldNames(), ".")}
	}
	return []string{"other:" + describe(l)}
}

// builtField computes the provenance of field `name` of the struct returned (by pointer) from fn.
func (s *Sem) builtField(fn *ssa.Function, name string, depth int) (srcs []string, found bool) {
	if depth > 4 {
		return nil, false
	}
	res := fn.Signature.Results()
	if res.Len() != 1 {
		return nil, false
	}
	chain := findFieldChain(res.At(0).Type(), name)
	if chain == nil {
		return nil, false
	}
	for _, rl := range returnLeaves(fn, 0) {
		v := stripConv(rl.v)
		var base ssa.Value
		switch x := v.(type) {
		case *ssa.Alloc:
			base = x
		case *ssa.Call:
			base = x
			if g := x.Call.StaticCallee(); g != nil && g.Pkg == s.p.Lime {
				inner, ok := s.builtField(g, name, depth+1)
				if ok {
					found = true
					for _, d := range inner {
						srcs = append(srcs, substDesc(fn, x, g, d, depth))
					}
				}
			} else {
				srcs = append(srcs, "other:"+describe(x))
			}
		default:
			srcs = append(srcs, "other:"+describe(v))
			continue
		}
		sts := storesInto(base, chain...)
		if len(sts) > 0 {
			found = true
			// a store made after delegating to another builder overrides what that builder put there
			if _, isCall := base.(*ssa.Call); isCall {
				srcs = nil
			}
		}
		for _, st := range sts {
			srcs = append(srcs, srcDesc(fn, st.Val, depth)...)
		}
		// setters: in-package methods called on (a prefix of) the field's address that store the rest of the chain
		if ss := s.setterSources(fn, base, chain, depth); len(ss) > 0 {
			found = true
			srcs = append(srcs, ss...)
		}
	}
	sort.Strings(srcs)
	return uniq(srcs), found
}

func (s *Sem) setterSources(fn *ssa.Function, base ssa.Value, chain []string, depth int) []string {
	var out []string
	var rec func(addr ssa.Value, rest []string)
	rec = func(addr ssa.Value, rest []string) {
		refs := addr.Referrers()
		if refs == nil {
			return
		}
		for _, r := range *refs {
			switch x := r.(type) {
			case *ssa.FieldAddr:
				if x.X == addr && len(rest) > 0 {
					if f := structField(x.X.Type(), x.Field); f != nil && f.Name() == rest[0] {
						rec(x, rest[1:])
					}
				}
			case *ssa.Call:
				g := x.Call.StaticCallee()
				if g == nil || g.Pkg != s.p.Lime || len(x.Call.Args) == 0 || x.Call.Args[0] != addr || len(g.Params) == 0 || len(rest) == 0 {
					continue
				}
				for _, st := range storesInto(g.Params[0], rest...) {
					for _, d := range srcDesc(g, st.Val, depth+1) {
						out = append(out, substDesc(fn, x, g, d, depth))
					}
				}
			}
		}
	}
	rec(base, chain)
	return out
}

// substDesc maps a provenance description from callee g's frame to fn's frame at call site c.
func substDesc(fn *ssa.Function, c *ssa.Call, g *ssa.Function, d string, depth int) string {
	args := c.Call.Args
	repl := func(prefix string, arg ssa.Value) (string, bool) {
		if d == prefix || strings.HasPrefix(d, prefix+".") {
			a := srcDesc(fn, arg, depth+1)
			if len(a) == 1 {
				return a[0] + strings.TrimPrefix(d, prefix), true
			}
		}
		return "", false
	}
	for i, p := range g.Params {
		if i >= len(args) {
			break
		}
		prefix := "param:" + p.Name()
		if i == 0 && g.Signature.Recv() != nil {
			prefix = "recv"
		}
		if out, ok := repl(prefix, args[i]); ok {
			return out
		}
		if strings.Contains(d, "("+prefix+")") || strings.Contains(d, "("+prefix+",") || strings.Contains(d, ","+prefix+")") {
			a := srcDesc(fn, args[i], depth+1)
			if len(a) == 1 {
				d = strings.ReplaceAll(d, prefix, a[0])
			}
		}
	}
	return d
}

func c11(r *Report, s *Sem) {
	p := r.P
	R8 := r.Rule("R8", "what the builders copy verbatim is accepted as is: the decoders of the envelope base and of the reply kinds make no refusal of their own on id, from, pp or to (a reply to a request without id carries no id and must still decode)", 3)
	checkRepliesDecodable(r, s, R8)
	defer r.Import(s, "C01", "R1", "R6", "a reply's resource survives the wire: every exported field of every envelope kind and document wrapper is written by its encoder and restored by its decoder (a decoder rebuilt on a constructor drops what the constructor derives, e.g. a collection's total)", 60)
	defer r.Import(s, "C01", "R10", "R7", "a reply's resource type survives the wire: the text form of a media type (and of the addresses) omits a field only where it is empty", 3)
	R1 := r.Rule("R1", "Envelope.Sender returns the delegation node (PP) exactly on the edge where PP is non-zero, and From on the edge where PP is zero", 2)
	R2 := r.Rule("R2", "reply builders copy id/method from the request, take From from the request's To and To from Sender() of the same envelope, and set the matching status/event/reason", 18)
	R3 := r.Rule("R3", "every function (outside the wire decoder) that stores a document into Command.Resource / Message.Content also stores, on every path to its return, the Type derived from MediaType() of that same document — the encoder emits and the decoder requires them together", 2)
	R4 := r.Rule("R4", "both ping auto-reply registrations match method get + path /ping and answer through the handler's own Sender with SuccessResponseWithResource(&Ping{}) built from the received command", 6)
	r.Trusted = append(r.Trusted, "struct comparison against the zero Node is the emptiness test for addresses")

	// ---- R1
	sender := p.Method("Envelope", "Sender")
	ppF, fromF := p.Field("Envelope", "PP"), p.Field("Envelope", "From")
	if sender == nil || ppF == nil || fromF == nil {
		r.Undecided(R1, "anchor-unresolved:Envelope.Sender", "-", "exported method or fields PP/From not found")
	} else {
		isZeroNode := func(v ssa.Value) bool {
			v = stripConv(v)
			if c, ok := v.(*ssa.Const); ok && c.Value == nil {
				return true
			}
			if u, ok := v.(*ssa.UnOp); ok && u.Op == token.MUL {
				if a, ok := u.X.(*ssa.Alloc); ok {
					// zero-valued local composite: no stores at all
					n := 0
					for _, ref := range *a.Referrers() {
						if _, ok := ref.(*ssa.Store); ok {
							n++
						}
						if _, ok := ref.(*ssa.FieldAddr); ok {
							n++
						}
					}
					return n == 0
				}
			}
			return false
		}
		ppEdge := func(ifi *ssa.If, branch bool, wantZero bool) bool {
			c := condOn(ifi, branch)
			if c.Op != token.EQL && c.Op != token.NEQ {
				return false
			}
			x, y := c.X, c.Y
			if isZeroNode(x) {
				x, y = y, x
			}
			if !isZeroNode(y) || !readsField(x, ppF) {
				return false
			}
			return (c.Op == token.EQL) == wantZero
		}
		for _, rl := range returnLeaves(sender, 0) {
			ap := pathOf(rl.v)
			switch ap.Last() {
			case ppF:
				ok := guardedBy(rl.b, func(ifi *ssa.If, br bool) bool { return ppEdge(ifi, br, false) })
				r.Check(R1, "func (*Envelope).Sender / return PP", p.instrPos(rl.in), ok,
					"returning PP must be dominated by the edge PP != Node{} (otherwise a request without delegation is answered to the empty node)")
			case fromF:
				ok := guardedBy(rl.b, func(ifi *ssa.If, br bool) bool { return ppEdge(ifi, br, true) })
				r.Check(R1, "func (*Envelope).Sender / return From", p.instrPos(rl.in), ok,
					"returning From must be dominated by the edge PP == Node{} (otherwise a delegated request is answered to the wrong node)")
			default:
				r.Check(R1, "func (*Envelope).Sender / return other", p.instrPos(rl.in), false, "returns "+describe(rl.v)+", neither PP nor From")
			}
		}
	}

	// ---- R2
	type want struct {
		field string
		any   []string // acceptable provenance (each source must be one of these)
	}
	senderOfRecv := "call:Sender(recv)"
	builders := []struct {
		typ, name string
		wants     []want
	}{
		{"RequestCommand", "SuccessResponse", []want{{"ID", []string{"recv.ID"}}, {"Method", []string{"recv.Method"}}, {"From", []string{"recv.To"}}, {"To", []string{senderOfRecv}}, {"Status", []string{"const:success"}}}},
		{"RequestCommand", "SuccessResponseWithResource", []want{{"ID", []string{"recv.ID"}}, {"Method", []string{"recv.Method"}}, {"From", []string{"recv.To"}}, {"To", []string{senderOfRecv}}, {"Status", []string{"const:success"}}, {"Resource", []string{"param:resource"}}}},
		{"RequestCommand", "FailureResponse", []want{{"ID", []string{"recv.ID"}}, {"Method", []string{"recv.Method"}}, {"From", []string{"recv.To"}}, {"To", []string{senderOfRecv}}, {"Status", []string{"const:failure"}}, {"Reason", []string{"param:reason"}}}},
		{"Message", "Notification", []want{{"ID", []string{"recv.ID"}}, {"From", []string{"recv.To"}}, {"To", []string{senderOfRecv}}, {"Event", []string{"param:event"}}}},
		{"Message", "FailedNotification", []want{{"ID", []string{"recv.ID"}}, {"From", []string{"recv.To"}}, {"To", []string{senderOfRecv}}, {"Event", []string{"const:failed"}}, {"Reason", []string{"param:reason"}}}},
	}
	for _, b := range builders {
		fn := p.Method(b.typ, b.name)
		if fn == nil {
			r.Undecided(R2, "anchor-unresolved:"+b.typ+"."+b.name, "-", "exported builder not found")
			continue
		}
		for _, w := range b.wants {
			srcs, found := s.builtField(fn, w.field, 0)
			construct := "func (*" + b.typ + ")." + b.name + " / field " + w.field
			if !found || len(srcs) == 0 {
				r.Check(R2, construct, p.pos(fn.Pos()), false, "the built envelope never receives this field")
				continue
			}
			ok := true
			for _, sdesc := range srcs {
				match := false
				for _, a := range w.any {
					// parameter names are not part of the API: accept any parameter of the right position by prefix
					if sdesc == a || (strings.HasPrefix(a, "param:") && strings.HasPrefix(sdesc, "param:")) {
						match = true
					}
				}
				if !match {
					ok = false
				}
			}
			r.Check(R2, construct, p.pos(fn.Pos()), ok, "provenance "+strings.Join(srcs, ",")+"; required "+strings.Join(w.any, "|"))
		}
	}

	// ---- R3
	rawT := p.Type("rawEnvelope")
	pairs := []struct{ typ, doc, typeField string }{{"Command", "Resource", "Type"}, {"Message", "Content", "Type"}}
	fnsAll := p.AllFuncs()
	for _, pr := range pairs {
		docF, typF := p.Field(pr.typ, pr.doc), p.Field(pr.typ, pr.typeField)
		if docF == nil || typF == nil {
			r.Undecided(R3, "anchor-unresolved:"+pr.typ+"."+pr.doc, "-", "field not found")
			continue
		}
		for _, st := range fieldStores(fnsAll, docF) {
			fn := st.Parent()
			if isNilConst(st.Val) {
				continue
			}
			isDecoder := false
			for _, prm := range fn.Params {
				if typeIs(prm.Type(), rawT) {
					isDecoder = true
				}
			}
			construct := "func " + fnName(fn) + " / store " + pr.typ + "." + pr.doc
			if isDecoder {
				// the decoder stores both from the wire struct and refuses a document without type: checked as the counterpart fact
				ok := false
				for _, t2 := range fieldStores([]*ssa.Function{fn}, typF) {
					if instrDominates(t2, st) || len(walkFrom(fn, st, walkOpts{barrier: func(in ssa.Instruction) bool { return in == t2 }})) == 0 {
						ok = true
					}
				}
				r.Check(R3, construct+" (decoder)", p.instrPos(st), ok, "the decoder must fill the type together with the document")
				continue
			}
			docLeaves := leaves(st.Val)
			ok, why := false, "no store to "+pr.typ+"."+pr.typeField+" with provenance MediaType() of the stored document on every path to return"
			for _, t2 := range fieldStores([]*ssa.Function{fn}, typF) {
				// same struct instance
				if pathOf(t2.Addr).Root != pathOf(st.Addr).Root {
					continue
				}
				if !(instrDominates(t2, st) || len(walkFrom(fn, st, walkOpts{barrier: func(in ssa.Instruction) bool { return in == t2 }})) == 0) {
					why = "a store to the type exists but not on every path"
					continue
				}
				if mediaTypeOf(t2.Val, docLeaves) {
					ok = true
				} else {
					why = "the type stored does not derive from MediaType() of the stored document: " + describe(t2.Val)
				}
			}
			if ok {
				why = "the type is stored from MediaType() of the same document on every path"
			}
			r.Check(R3, construct, p.instrPos(st), ok, why)
		}
	}
	// counterpart facts on the wire: read from encoder and decoder of Command
	if enc, dec := p.Method("Command", "toRawEnvelope"), p.Method("Command", "populate"); enc != nil && dec != nil {
		rawRes, rawTyp := p.Field("rawEnvelope", "Resource"), p.Field("rawEnvelope", "Type")
		// decoder: the store of Command.Resource is dominated by raw.Type != nil
		for _, st := range fieldStores([]*ssa.Function{dec}, p.Field("Command", "Resource")) {
			ok := guardedBy(st.Block(), func(ifi *ssa.If, br bool) bool {
				c := condOn(ifi, br)
				return c.Op == token.NEQ && (readsField(c.X, rawTyp) && isNilConst(c.Y) || readsField(c.Y, rawTyp) && isNilConst(c.X))
			})
			r.Check(R3, "func (*Command).populate / resource requires type", p.instrPos(st), ok, "decoder accepts a resource only with a media type (so an untyped reply is undecodable by the peer)")
		}
		_ = rawRes
		_ = enc
	}

	// ---- R5: presence is decided by a plain nil test
	R5 := r.Rule("R5", "a resource/content is dropped only when it is nil: in the reply builder and in the command and message encoders every path that skips storing the document crosses the edge 'document == nil' (or returns an error) — a broader emptiness predicate would silently drop valid documents such as an empty text", 3)
	skipOnlyWhenNil := func(fn *ssa.Function, doc func(v ssa.Value) bool, isStore func(in ssa.Instruction) bool, what string) {
		if fn == nil {
			r.Undecided(R5, "anchor-unresolved:"+what, "-", "not found")
			return
		}
		bad := 0
		walkFrom(fn, nil, walkOpts{
			barrier: isStore,
			cutEdge: func(from *ssa.BasicBlock, k int) bool {
				ifi := ifOf(from)
				if ifi == nil {
					return false
				}
				cd := condOn(ifi, k == 0)
				if cd.Op != token.EQL {
					return false
				}
				x, y := cd.X, cd.Y
				if isNilConst(x) {
					x, y = y, x
				}
				return isNilConst(y) && doc(x)
			},
			onExit: func(e ssa.Instruction, pred *ssa.BasicBlock) {
				ret := e.(*ssa.Return)
				n := len(ret.Results)
				if n > 0 && isErrorType(ret.Results[n-1].Type()) && !retMayBeNilVia(ret, pred) {
					return // error exit
				}
				bad++
			}})
		r.Check(R5, "func "+fnName(fn)+" / "+what+" dropped only when nil", p.pos(fn.Pos()), bad == 0, fmt.Sprintf("%d success path(s) skip the document although it is not known to be nil", bad))
	}
	if b := p.Method("RequestCommand", "SuccessResponseWithResource"); b != nil {
		prm := b.Params[1]
		setRes := p.Method("Command", "SetResource")
		resF := p.Field("Command", "Resource")
		skipOnlyWhenNil(b, func(v ssa.Value) bool { return stripConv(v) == ssa.Value(prm) }, func(in ssa.Instruction) bool {
			if st, ok := in.(*ssa.Store); ok {
				if fa, ok := st.Addr.(*ssa.FieldAddr); ok && structField(fa.X.Type(), fa.Field) == resF {
					return true
				}
			}
			if c, ok := in.(ssa.CallInstruction); ok && staticCallee(c) == setRes && setRes != nil {
				return true
			}
			return false
		}, "resource")
	}
	for _, enc := range []struct{ typ, field, wire string }{{"Command", "Resource", "Resource"}, {"Message", "Content", "Content"}} {
		docF := p.Field(enc.typ, enc.field)
		wireF := p.Field("rawEnvelope", enc.wire)
		isWireStore := func(in ssa.Instruction) bool {
			if st, ok := in.(*ssa.Store); ok {
				if fa, ok := st.Addr.(*ssa.FieldAddr); ok && structField(fa.X.Type(), fa.Field) == wireF {
					return true
				}
			}
			return false
		}
		// the encoder(s): whichever function stores the wire member (the base type's own method, or the kinds' methods
		// when the base part was folded into them)
		n := 0
		for _, fn := range p.LimeFuncs() {
			stores := false
			eachInstr(fn, func(in ssa.Instruction) {
				if isWireStore(in) {
					stores = true
				}
			})
			if !stores || fn.Parent() != nil {
				continue
			}
			n++
			skipOnlyWhenNil(fn, func(v ssa.Value) bool { return pathOf(v).Last() == docF }, isWireStore, strings.ToLower(enc.field))
		}
		if n == 0 {
			skipOnlyWhenNil(nil, nil, nil, strings.ToLower(enc.field)+" encoder")
		}
	}

	// ---- R4
	for _, bt := range []string{"ServerBuilder", "ClientBuilder"} {
		fn := p.Method(bt, "AutoReplyPings")
		if fn == nil {
			r.Undecided(R4, "anchor-unresolved:"+bt+".AutoReplyPings", "-", "exported method not found")
			continue
		}
		var predFn, handFn *ssa.Function
		eachCall(fn, func(c ssa.CallInstruction) {
			for _, a := range c.Common().Args {
				var f *ssa.Function
				switch x := stripConv(a).(type) {
				case *ssa.Function:
					f = x
				case *ssa.MakeClosure:
					f = x.Fn.(*ssa.Function)
				}
				if f == nil {
					continue
				}
				if isBool(f.Signature.Results()) {
					predFn = f
				} else if f.Signature.Results().Len() == 1 && isErrorType(f.Signature.Results().At(0).Type()) {
					handFn = f
				}
			}
		})
		base := "func (*" + bt + ").AutoReplyPings"
		if predFn == nil || handFn == nil {
			r.Undecided(R4, base+" / closures", p.pos(fn.Pos()), "predicate or handler literal not found among the registration call's arguments")
			continue
		}
		conds := trueConds(predFn)
		hasGet, hasPing := false, false
		for _, c := range conds {
			if c.Op != token.EQL {
				continue
			}
			x, y := stripConv(c.X), stripConv(c.Y)
			if _, ok := x.(*ssa.Const); ok {
				x, y = y, x
			}
			cs, ok := constString(y)
			if !ok {
				continue
			}
			ap := pathOf(x)
			if cs == "get" && ap.Root == predFn.Params[0] && ap.Last() != nil && ap.Last().Name() == "Method" {
				hasGet = true
			}
			if call, _ := callOf(x); call != nil && cs == "/ping" {
				if f := call.Call.StaticCallee(); f != nil && f.Name() == "Path" && len(call.Call.Args) == 1 {
					a2 := pathOf(call.Call.Args[0])
					if a2.Root == predFn.Params[0] && a2.Last() != nil && a2.Last().Name() == "URI" {
						hasPing = true
					}
				}
			}
		}
		r.Check(R4, base+" / predicate method==get", p.pos(predFn.Pos()), hasGet, "predicate true must imply cmd.Method == get")
		r.Check(R4, base+" / predicate path==/ping", p.pos(predFn.Pos()), hasPing, "predicate true must imply cmd.URI.Path() == /ping")
		// handler: every nil-able return comes from SendResponseCommand on the Sender parameter with the built reply
		okSend := false
		why := "no call of SendResponseCommand on the handler's Sender parameter with SuccessResponseWithResource(&Ping{}) of the received command"
		eachCall(handFn, func(c ssa.CallInstruction) {
			cc := c.Common()
			if !cc.IsInvoke() || cc.Method.Name() != "SendResponseCommand" {
				return
			}
			if len(handFn.Params) < 3 || stripConv(cc.Value) != ssa.Value(handFn.Params[2]) {
				why = "reply is sent through " + describe(cc.Value) + ", not the Sender handed to the handler"
				return
			}
			if len(cc.Args) < 2 {
				return
			}
			call, _ := callOf(cc.Args[1])
			if call == nil {
				return
			}
			g := call.Call.StaticCallee()
			if g == nil || g != p.Method("RequestCommand", "SuccessResponseWithResource") {
				why = "reply is not built by SuccessResponseWithResource"
				return
			}
			if stripConv(call.Call.Args[0]) != ssa.Value(handFn.Params[1]) {
				why = "reply is built from another command than the one received"
				return
			}
			isPing := false
			for _, l := range leaves(call.Call.Args[1]) {
				if a, ok := stripConv(l).(*ssa.Alloc); ok && typeIs(a.Type(), p.Type("Ping")) {
					isPing = true
				}
			}
			if !isPing {
				why = "resource is not a Ping document"
				return
			}
			okSend = true
		})
		if okSend {
			why = "SendResponseCommand(ctx, cmd.SuccessResponseWithResource(&Ping{})) on the handler's Sender"
		}
		r.Check(R4, base+" / handler reply", p.pos(handFn.Pos()), okSend, why)
	}
}

// mediaTypeOf: v (or the local it points to) is the result of MediaType() invoked on one of docLeaves.
func mediaTypeOf(v ssa.Value, docLeaves []ssa.Value) bool {
	check := func(x ssa.Value) bool {
		for _, l := range leaves(x) {
			call, _ := callOf(l)
			if call == nil {
				continue
			}
			name := ""
			var recv ssa.Value
			if call.Call.IsInvoke() {
				name, recv = call.Call.Method.Name(), call.Call.Value
			} else if f := call.Call.StaticCallee(); f != nil && len(call.Call.Args) > 0 {
				name, recv = f.Name(), call.Call.Args[0]
			}
			if name != "MediaType" {
				continue
			}
			for _, rl := range leaves(recv) {
				for _, dl := range docLeaves {
					if stripConv(rl) == stripConv(dl) {
						return true
					}
				}
			}
		}
		return false
	}
	if check(v) {
		return true
	}
	if a, ok := stripConv(v).(*ssa.Alloc); ok {
		for _, ref := range *a.Referrers() {
			if st, ok := ref.(*ssa.Store); ok && st.Addr == a && check(st.Val) {
				return true
			}
		}
	}
	return false
}

// trueConds returns the comparisons that necessarily hold whenever fn (returning bool) returns true.
func trueConds(fn *ssa.Function) []Cond {
	type key struct {
		op   token.Token
		x, y ssa.Value
	}
	var sets []map[key]Cond
	for _, rl := range returnLeaves(fn, 0) {
		if c, ok := rl.v.(*ssa.Const); ok {
			if c.Value == nil || c.Value.String() != "true" {
				continue
			}
		}
		set := map[key]Cond{}
		for _, e := range mustEdges(rl.b) {
			c := condOn(ifOf(e.from), e.succ == 0)
			set[key{c.Op, c.X, c.Y}] = c
		}
		if _, ok := rl.v.(*ssa.Const); !ok {
			c := normCond(rl.v, true)
			set[key{c.Op, c.X, c.Y}] = c
		}
		sets = append(sets, set)
	}
	var out []Cond
	if len(sets) == 0 {
		return nil
	}
	for k, c := range sets[0] {
		all := true
		for _, s2 := range sets[1:] {
			if _, ok := s2[k]; !ok {
				all = false
			}
		}
		if all {
			out = append(out, c)
		}
	}
	return out
}
