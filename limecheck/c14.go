package main

import (
	"fmt"
	"go/token"
	"go/types"

	"golang.org/x/tools/go/ssa"
)

func init() {
	register("C14", "that Close on each transport really frees OS resources; a goroutine census after failure; what a vanished peer looks like to the kernel", c14)
}

// servingFunc resolves the per-connection serving function: the in-package caller of ServerChannel.EstablishSession.
func servingFunc(s *Sem) (*ssa.Function, *ssa.Call) {
	est := s.p.Method("ServerChannel", "EstablishSession")
	if est == nil {
		return nil, nil
	}
	for _, c := range s.p.callersOf(est) {
		if c.Parent().Pkg == s.p.Lime {
			if call, ok := c.(*ssa.Call); ok {
				return c.Parent(), call
			}
		}
	}
	return nil, nil
}

// releasing: calling fn guarantees, on every return, that the channel's transport was closed or found disconnected.
// onlyNil restricts the guarantee to returns with a nil error (FinishSession/FailSession release only on success).
func (s *Sem) releasing(fn *ssa.Function, depth int) (always bool, onNil bool) {
	if fn == nil || len(fn.Blocks) == 0 || depth > 3 {
		return false, false
	}
	key := fn
	if r, ok := s.relCache[key]; ok {
		return r[0], r[1]
	}
	s.relCache[key] = [2]bool{false, false}
	barrier := func(in ssa.Instruction) bool {
		c, ok := in.(ssa.CallInstruction)
		if !ok {
			return false
		}
		if _, isDefer := in.(*ssa.Defer); isDefer {
			return false
		}
		if s.isTransportCall(c, "Close") {
			return true
		}
		if g := staticCallee(c); g != nil && g != fn {
			if tgt := s.unwrap(g); tgt != nil {
				g = tgt
			}
			if g.Pkg == s.p.Lime {
				if a, _ := s.releasing(g, depth+1); a {
					return true
				}
			}
		}
		return false
	}
	notConnectedEdge := func(from *ssa.BasicBlock, k int) bool {
		ifi := ifOf(from)
		if ifi == nil {
			return false
		}
		for _, a := range s.atomsOfBool(ifi.Cond, k == 0, 0) {
			if a.Kind == "!connected" {
				return true
			}
		}
		return false
	}
	onNil = true
	exits := walkFrom(fn, nil, walkOpts{barrier: barrier, cutEdge: notConnectedEdge, onExit: func(e ssa.Instruction, pred *ssa.BasicBlock) {
		if ret, ok := e.(*ssa.Return); ok {
			if len(ret.Results) == 0 || !isErrorType(ret.Results[len(ret.Results)-1].Type()) || retMayBeNilVia(ret, pred) {
				onNil = false
			}
		}
	}})
	always = len(exits) == 0
	s.relCache[key] = [2]bool{always, always || onNil}
	return always, always || onNil
}

func c14(r *Report, s *Sem) {
	p := r.P
	defer r.Import(s, "C07", "R8", "R12", "every answer of the authentication exchange is validated, round trips included: on every path to the authentication callback the peer's envelope passed the state, id and offered-scheme tests (checks hoisted out of the loop let the answer to a round trip through unvalidated, and the violation ends in an established session)", 1)
	defer r.Import(s, "C09", "R2", "R11", "a selection outside the offer is refused: the confirmation is sent only on the ok edges of lookups of the peer's selection in sets built only from the offered lists (validating against what the transport supports lets a client of a TLS-only server pick 'none' and be served)", 6)
	defer r.Import(s, "C13", "R2", "R10", "ends the goroutines serving it: closing the channel stops the receiver through the per-channel Once shared with the terminal states, and the stop routine cancels the receiver's context and waits for it (closing the transport alone does not wake a receiver parked on a full inbound stream)", 5)
	R1 := r.Rule("R1", "release on all failure exits: in the per-connection serving function every path from entry to an exit that does not pass the dispatch loop passes a releasing call on the channel (a call all of whose returns closed the transport or found it disconnected)", 1)
	R2 := r.Rule("R2", "callbacks gated: the Established callback is called only under the fact 'state == established'; the Finished callback only from a defer registered after the Established site", 2)
	R3 := r.Rule("R3", "no blocking tail: between a failed establishment and the exit of the serving function there is no channel operation, select or loop", 1)
	R4 := r.Rule("R4", "client side: every error exit of the client's channel builder after the transport was created passes a releasing call", 1)
	R5 := r.Rule("R5", "one serving goroutine per accepted transport, which ends when the serving function returns (the go statement's body is just that call)", 1)

	fn, estCall := servingFunc(s)
	if fn == nil {
		r.Undecided(R1, "anchor-unresolved:serving function", "-", "no in-package caller of ServerChannel.EstablishSession")
		return
	}
	cfgEst, cfgFin := p.Field("ServerConfig", "Established"), p.Field("ServerConfig", "Finished")
	// the dispatch-loop call
	var listenCall *ssa.Call
	a := s.anchors()
	eachInstr(fn, func(in ssa.Instruction) {
		if c, ok := in.(*ssa.Call); ok {
			if g := c.Call.StaticCallee(); g != nil {
				for f := range p.reachableAny(g, 2) {
					if f == a.listenFn {
						listenCall = c
					}
				}
			}
		}
	})
	if listenCall == nil {
		r.Undecided(R1, "anchor-unresolved:dispatch call", p.pos(fn.Pos()), "the serving function does not call the dispatch loop")
		return
	}
	isReleasing := func(in ssa.Instruction) bool {
		c, ok := in.(ssa.CallInstruction)
		if !ok {
			return false
		}
		if _, isDefer := in.(*ssa.Defer); isDefer {
			return false
		}
		if s.isTransportCall(c, "Close") {
			return true
		}
		if g := staticCallee(c); g != nil && g.Pkg == p.Lime {
			// promoted methods reach the declared function through a wrapper
			if tgt := s.unwrap(g); tgt != nil {
				g = tgt
			}
			if al, _ := s.releasing(g, 0); al {
				return true
			}
		}
		return false
	}
	// EstablishSession returning nil with the channel not established means the session was failed, and a failing call
	// that returns nil has closed the transport (checked here from the summaries): such an edge is a released exit.
	est := p.Method("ServerChannel", "EstablishSession")
	h := newHS(s)
	nilMeansEstOrFailed := true
	for _, o := range h.exec(est, hsIn{S: "new"}) {
		if o.ErrNil && !o.Dead && o.S != "established" && o.S != "failed" {
			nilMeansEstOrFailed = false
		}
	}
	_, failOnNil := s.releasing(p.Method("ServerChannel", "FailSession"), 0)
	r.Note("EstablishSession nil-return implies established-or-failed: %v; FailSession nil-return implies transport closed: %v", nilMeansEstOrFailed, failOnNil)
	notEstablishedAfterNil := func(from *ssa.BasicBlock, k int) bool {
		if !nilMeansEstOrFailed || !failOnNil {
			return false
		}
		ifi := ifOf(from)
		if ifi == nil || !errNilGuard(from, estCall) {
			return false
		}
		opp := s.atomsOfBool(ifi.Cond, k != 0, 0)
		return hasAtom(opp, "state==", "established") && hasAtom(opp, "connected", "")
	}
	exits := walkFrom(fn, nil, walkOpts{
		cutEdge: notEstablishedAfterNil,
		barrier: func(in ssa.Instruction) bool { return in == ssa.Instruction(listenCall) || isReleasing(in) },
		deferBarrier: func(d *ssa.Defer) bool {
			if g := staticCallee(d); g != nil {
				al, _ := s.releasing(g, 0)
				return al
			}
			return false
		},
	})
	r.Check(R1, "func "+fnName(fn)+" / failure exits release the connection", p.pos(fn.Pos()), len(exits) == 0,
		fmt.Sprintf("%d exit(s) reachable without the dispatch loop and without a releasing call%s", len(exits), firstExit(p, exits)))
	// the establishment error edge specifically
	deferRel := func(d *ssa.Defer) bool {
		if g := staticCallee(d); g != nil {
			al, _ := s.releasing(g, 0)
			return al
		}
		return false
	}
	errExits := walkFrom(fn, estCall, walkOpts{
		barrier:      isReleasing,
		deferBarrier: deferRel,
		cutEdge: func(from *ssa.BasicBlock, k int) bool {
			ifi := ifOf(from)
			if ifi == nil {
				return false
			}
			isNil, ok := errTestOf(ifi, k == 0, estCall)
			return ok && isNil
		}})
	r.Check(R1, "func "+fnName(fn)+" / establishment error edge releases the connection", p.instrPos(estCall), len(errExits) == 0,
		fmt.Sprintf("%d exit(s) on the err != nil edge of EstablishSession without a releasing call%s", len(errExits), firstExit(p, errExits)))

	// ---- R2
	var estCb, finCb []ssa.CallInstruction
	for _, f := range withAnon(fn) {
		eachCall(f, func(c ssa.CallInstruction) {
			if c.Common().IsInvoke() || staticCallee(c) != nil {
				return
			}
			for _, l := range leaves(c.Common().Value) {
				switch pathOf(l).Last() {
				case cfgEst:
					estCb = append(estCb, c)
				case cfgFin:
					finCb = append(finCb, c)
				}
			}
		})
	}
	if len(estCb) == 0 || len(finCb) == 0 {
		r.Undecided(R2, "anchor-unresolved:callbacks", p.pos(fn.Pos()), fmt.Sprintf("Established call sites=%d, Finished call sites=%d", len(estCb), len(finCb)))
	}
	for _, c := range estCb {
		atoms := s.AtomsAt(c)
		ok := hasAtom(atoms, "state==", "established")
		r.Check(R2, "func "+fnName(c.Parent())+" / Established callback gated", p.instrPos(c), ok && c.Parent() == fn,
			"facts at the call: "+atomsString(atoms)+"; EstablishSession returns nil also after a successfully sent failed session, so the caller must check the state")
	}
	for _, c := range finCb {
		cl := c.Parent()
		var def *ssa.Defer
		eachInstr(fn, func(in ssa.Instruction) {
			if d, ok := in.(*ssa.Defer); ok {
				if mc, ok := d.Call.Value.(*ssa.MakeClosure); ok && mc.Fn == cl {
					def = d
				}
			}
		})
		if def == nil || cl.Parent() != fn {
			r.Check(R2, "func "+fnName(cl)+" / Finished callback in a deferred closure of the serving function", p.instrPos(c), false, "Finished must be called from a defer of the serving function")
			continue
		}
		gated := hasAtom(s.AtomsAt(def), "state==", "established")
		after, covers := true, true
		for _, e := range estCb {
			if reachesInstr(def, e) {
				after = false // Established could still fire after Finished was armed
			}
			ex := walkFrom(fn, e, walkOpts{seeDefers: true, barrier: func(in ssa.Instruction) bool { return in == ssa.Instruction(def) }})
			if len(ex) > 0 {
				covers = false
			}
		}
		r.Check(R2, "func "+fnName(cl)+" / Finished armed only for established sessions, after Established", p.instrPos(def), gated && after && covers,
			fmt.Sprintf("defer gated by state==established=%v, registered after the Established site=%v, on every path from it=%v", gated, after, covers))
	}

	// ---- R3
	blocking := 0
	var blk ssa.Instruction
	walkFrom(fn, nil, walkOpts{barrier: func(in ssa.Instruction) bool {
		if in == ssa.Instruction(listenCall) {
			return true
		}
		for _, e := range estCb {
			if in == ssa.Instruction(e) {
				return true
			}
		}
		switch x := in.(type) {
		case *ssa.Select, *ssa.Send:
			blocking++
			blk = in
		case *ssa.UnOp:
			if x.Op == token.ARROW {
				blocking++
				blk = in
			}
		}
		return false
	}})
	loop := false
	for _, b := range fn.Blocks {
		// a cycle reachable before the dispatch call
		for _, sx := range b.Succs {
			if sx.Index <= b.Index && sx.Dominates(b) {
				if !listenCall.Block().Dominates(b) {
					loop = true
				}
			}
		}
	}
	r.Check(R3, "func "+fnName(fn)+" / no blocking construct on failure paths", p.instrPos(blk), blocking == 0 && !loop, fmt.Sprintf("%d channel operation(s)/select(s), loop=%v before the dispatch loop", blocking, loop))

	// ---- R4
	build := p.Method("Client", "buildChannel")
	if build == nil {
		r.Undecided(R4, "anchor-unresolved:Client.buildChannel", "-", "not found")
	} else {
		var mk *ssa.Call
		eachInstr(build, func(in ssa.Instruction) {
			if c, ok := in.(*ssa.Call); ok {
				if g := c.Call.StaticCallee(); g != nil && g.Name() == "NewClientChannel" {
					mk = c
				}
			}
		})
		if mk == nil {
			r.Undecided(R4, "func "+fnName(build)+" / channel construction", p.pos(build.Pos()), "NewClientChannel call not found")
		} else {
			ex := walkFrom(build, mk, walkOpts{barrier: isReleasing})
			bad := 0
			for _, e := range ex {
				if ret, ok := e.(*ssa.Return); ok {
					// success exits hand the channel to the caller
					if isNilConst(ret.Results[0]) || !retMayBeNil(ret) {
						bad++
					}
				}
			}
			r.Check(R4, "func "+fnName(build)+" / error exits close the transport", p.instrPos(mk), bad == 0, fmt.Sprintf("%d error exit(s) after the transport was created without a releasing call", bad))
		}
	}

	R6 := r.Rule("R6", "closing really closes: every Transport.Close implementation closes its underlying connection unless the handle itself is nil, and channel.Close reaches Transport.Close on every path — 'not connected' (end of stream seen) is not 'closed'", 3)
	checkCloseReallyCloses(r, s, R6)
	R7 := r.Rule("R7", "a wrong first envelope is refused: the handshake driver reaches its negotiation and authentication stages (and so the callbacks) only for a first session envelope whose own state is 'new' and whose id is empty", 2)
	checkFirstEnvelopeGate(r, s, R7)
	R8 := r.Rule("R8", "a refusal by a callback ends the handshake: an error returned by the registration callback, and a failed write of the established envelope, are returned by the authentication driver (never dropped in a shadowed variable, which would retry or establish a refused session)", 2)
	checkCallbackErrorsPropagate(r, s, R8)
	R9 := r.Rule("R9", "helper goroutines end with the step that started them: when a function starts a goroutine literal that waits on a channel the function made locally (its stop signal), every path from the go statement to an exit of the function closes (or sends on) that channel — a helper released only on the success path stays parked for the server's lifetime after each failed step (every go statement with a literal is inspected)", 5)
	checkHelpersReleased(r, s, R9)

	// ---- R5
	callers := p.callersOf(fn)
	okGo := len(callers) == 1
	for _, c := range callers {
		cl := c.Parent()
		// the caller is a function literal started by a go statement, whose body only calls the serving function
		started := false
		if cl.Parent() != nil {
			eachInstr(cl.Parent(), func(in ssa.Instruction) {
				if g, ok := in.(*ssa.Go); ok {
					if mc, ok := g.Call.Value.(*ssa.MakeClosure); ok && mc.Fn == cl {
						started = true
					}
				}
			})
		} else if _, isGo := c.(*ssa.Go); isGo {
			started = true
		}
		ncalls := 0
		eachCall(cl, func(ssa.CallInstruction) { ncalls++ })
		if !started || (cl.Parent() != nil && ncalls != 1) {
			okGo = false
		}
	}
	r.Check(R5, "func "+fnName(fn)+" / runs in its own goroutine which ends with it", p.pos(fn.Pos()), okGo, fmt.Sprintf("%d caller(s)", len(callers)))
	_ = types.Typ
}

func firstExit(p *Prog, exits []ssa.Instruction) string {
	if len(exits) == 0 {
		return ""
	}
	return " (first: " + p.instrPos(exits[0]) + ")"
}

// checkHelpersReleased: see C14.R9.
func checkHelpersReleased(r *Report, s *Sem, R string) {
	p := r.P
	n := 0
	for _, fn := range p.LimeFuncs() {
		eachInstr(fn, func(in ssa.Instruction) {
			g, ok := in.(*ssa.Go)
			if !ok {
				return
			}
			mc, ok := g.Call.Value.(*ssa.MakeClosure)
			if !ok {
				return
			}
			lit, ok := mc.Fn.(*ssa.Function)
			if !ok || lit.Parent() != fn {
				return
			}
			// channels made by fn on which the literal waits
			waits := map[*ssa.MakeChan]bool{}
			note := func(ch ssa.Value) {
				for _, l := range leaves(ch) {
					if m, ok := stripConv(l).(*ssa.MakeChan); ok && m.Parent() == fn {
						waits[m] = true
					}
				}
			}
			eachInstr(lit, func(x ssa.Instruction) {
				switch y := x.(type) {
				case *ssa.Select:
					for _, st := range y.States {
						if st.Dir == types.RecvOnly {
							note(st.Chan)
						}
					}
				case *ssa.UnOp:
					if y.Op == token.ARROW {
						note(y.X)
					}
				}
			})
			local := 0
			for stop := range waits {
				if !chanEscapes(stop, lit) {
					local++
				}
			}
			if local == 0 {
				n++
				r.Trivial(R, "func "+fnName(fn)+" / goroutine "+fnName(lit)+" inspected", p.instrPos(g), true, "waits on no stop channel private to the function that started it")
			}
			for stop := range waits {
				// a channel that escapes fn (stored in a field, returned, passed on) may be signalled by others
				if chanEscapes(stop, lit) {
					continue
				}
				n++
				isRelease := func(c *ssa.CallCommon) bool {
					b, isB := c.Value.(*ssa.Builtin)
					if !isB || b.Name() != "close" {
						return false
					}
					for _, l := range leaves(c.Args[0]) {
						if stripConv(l) == ssa.Value(stop) {
							return true
						}
					}
					return false
				}
				exits := walkFrom(fn, g, walkOpts{
					barrier: func(x ssa.Instruction) bool {
						switch y := x.(type) {
						case *ssa.Call:
							return isRelease(&y.Call)
						case *ssa.Send:
							for _, l := range leaves(y.Chan) {
								if stripConv(l) == ssa.Value(stop) {
									return true
								}
							}
						}
						return false
					},
					deferBarrier: func(d *ssa.Defer) bool { return isRelease(&d.Call) },
				})
				r.Check(R, "func "+fnName(fn)+" / goroutine "+fnName(lit)+" is released on every exit", p.instrPos(g), len(exits) == 0, fmt.Sprintf("%d exit(s) reachable from the go statement without closing the channel the goroutine waits on%s", len(exits), firstExit(p, exits)))
			}
		})
	}
	if n == 0 {
		r.Undecided(R, "goroutine literals", "-", "no go statement with a function literal found in the package")
	}
}

// chanEscapes: the channel value is used by anything other than close/send/receive/select in its function and as a
// capture of the given literal.
func chanEscapes(m *ssa.MakeChan, lit *ssa.Function) bool {
	esc := false
	var visit func(v ssa.Value, d int)
	visit = func(v ssa.Value, d int) {
		if d > 4 || v.Referrers() == nil {
			return
		}
		for _, ref := range *v.Referrers() {
			switch x := ref.(type) {
			case *ssa.Store:
				if al, ok := x.Addr.(*ssa.Alloc); ok && x.Val == v {
					// spilled to a cell captured by closures: follow the cell's loads
					for _, r2 := range *al.Referrers() {
						if u, ok := r2.(*ssa.UnOp); ok {
							visit(u, d+1)
						} else if mc, ok := r2.(*ssa.MakeClosure); ok {
							if f, ok := mc.Fn.(*ssa.Function); !ok || (f != lit && f.Parent() != m.Parent()) {
								esc = true
							}
						}
					}
					continue
				}
				esc = true
			case *ssa.Call:
				if b, ok := x.Call.Value.(*ssa.Builtin); ok && (b.Name() == "close" || b.Name() == "len" || b.Name() == "cap") {
					continue
				}
				esc = true
			case *ssa.Defer:
				if b, ok := x.Call.Value.(*ssa.Builtin); ok && b.Name() == "close" {
					continue
				}
				esc = true
			case *ssa.Send, *ssa.Select, *ssa.UnOp, *ssa.DebugRef:
			case *ssa.ChangeType:
				visit(x, d+1)
			case *ssa.MakeClosure:
				if f, ok := x.Fn.(*ssa.Function); !ok || f.Parent() != m.Parent() {
					esc = true
				}
			case *ssa.Phi:
				visit(x, d+1)
			default:
				esc = true
			}
		}
	}
	visit(m, 0)
	return esc
}
