package main

import (
	"fmt"

	"golang.org/x/tools/go/ssa"
)

// checkReceiveErrorEndsReceiver (C06.R12): in the receiver goroutine no path leads from the error edge of
// Transport.Receive back to the Receive call — an envelope the transport refused (a terminal session envelope a
// stricter decoder rejects, say) must end the receiver, which then closes the transport; skipping it leaves the channel
// established on a session the peer has ended.
func checkReceiveErrorEndsReceiver(r *Report, s *Sem, R string) {
	p := r.P
	a := s.anchors()
	if a.receiver == nil {
		r.Undecided(R, "anchor-unresolved:receiver goroutine", "-", "not found")
		return
	}
	n := 0
	for _, c := range a.transportRecvs {
		if c.Parent() != a.receiver {
			continue
		}
		call, ok := c.(*ssa.Call)
		if !ok {
			continue
		}
		n++
		again := false
		walkFrom(a.receiver, call, walkOpts{
			cutEdge: func(from *ssa.BasicBlock, k int) bool {
				ifi := ifOf(from)
				if ifi == nil {
					return false
				}
				isNil, ok := errTestOf(ifi, k == 0, call)
				return ok && isNil // stay on the error edge
			},
			barrier: func(in ssa.Instruction) bool {
				if in == ssa.Instruction(call) {
					again = true
					return true
				}
				return false
			}})
		r.Check(R, "func "+fnName(a.receiver)+" / a receive error ends the receiver", p.instrPos(call), !again, "a path from the error edge of Transport.Receive reaches the Receive call again")
	}
	if n == 0 {
		r.Undecided(R, "func "+fnName(a.receiver)+" / Transport.Receive", p.pos(a.receiver.Pos()), "no call found")
	}
}

// checkHandshakeVerdictNotContext (C18.R14): the handshake drivers report their own verdict — no return of
// ServerChannel.EstablishSession hands back ctx.Err() directly. A session that completed while the serving context was
// being cancelled is established; reporting the cancellation makes the server drop it without callbacks or a finished
// envelope.
func checkHandshakeVerdictNotContext(r *Report, s *Sem, R string) {
	p := r.P
	est := p.Method("ServerChannel", "EstablishSession")
	if est == nil {
		r.Undecided(R, "anchor-unresolved:ServerChannel.EstablishSession", "-", "not found")
		return
	}
	bad := ""
	n := 0
	for _, rl := range returnLeaves(est, est.Signature.Results().Len()-1) {
		n++
		if c, _ := callOf(rl.v); c != nil && c.Call.IsInvoke() && c.Call.Method.Name() == "Err" {
			if nm := namedOf(c.Call.Value.Type()); nm != nil && nm.Obj().Name() == "Context" {
				bad = "returns ctx.Err() at " + p.instrPos(rl.in)
			}
		}
	}
	r.Check(R, "func "+fnName(est)+" / no return is the context's error itself", p.pos(est.Pos()), bad == "" && n > 0, bad)
}

// checkNoCloseBeforeDeferredFinish (C20.R12): once the deferred finishing block of the serving function is armed, nothing
// on the way out closes the channel — the block's `if established { FinishSession }` is what sends the finished
// envelope; a Close in the handler-error branch turns the session into a dropped connection.
func checkNoCloseBeforeDeferredFinish(r *Report, s *Sem, R string) {
	p := r.P
	serving, _ := servingFunc(s)
	if serving == nil {
		r.Undecided(R, "anchor-unresolved:serving function", "-", "not found")
		return
	}
	finS := p.Method("ServerChannel", "FinishSession")
	var def *ssa.Defer
	eachInstr(serving, func(in ssa.Instruction) {
		d, ok := in.(*ssa.Defer)
		if !ok {
			return
		}
		var body *ssa.Function
		switch x := d.Call.Value.(type) {
		case *ssa.MakeClosure:
			body, _ = x.Fn.(*ssa.Function)
		case *ssa.Function:
			body = x
		}
		if body == nil || finS == nil {
			return
		}
		if body == finS || p.reachable(body)[finS] {
			def = d
		}
	})
	if def == nil {
		r.Undecided(R, "func "+fnName(serving)+" / deferred finishing block", p.pos(serving.Pos()), "not found")
		return
	}
	var closes []string
	walkFrom(serving, def, walkOpts{barrier: func(in ssa.Instruction) bool {
		c, ok := in.(*ssa.Call)
		if !ok {
			return false
		}
		if s.isTransportCall(c, "Close") {
			closes = append(closes, p.instrPos(in))
			return false
		}
		if g := c.Call.StaticCallee(); g != nil && g.Pkg == p.Lime && g.Name() == "Close" {
			if k := s.recvKind(s.unwrapOr(g)); k == "channel" || k == "server" || k == "client" {
				closes = append(closes, p.instrPos(in))
			}
		}
		return false
	}})
	r.Check(R, "func "+fnName(serving)+" / nothing closes the channel between arming the deferred finish and the exit", p.instrPos(def), len(closes) == 0, fmt.Sprintf("Close at %v: the deferred block then finds the session not established and sends no finished envelope", closes))
}

func (s *Sem) unwrapOr(f *ssa.Function) *ssa.Function {
	if t := s.unwrap(f); t != nil {
		return t
	}
	return f
}
