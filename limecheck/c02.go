package main

import (
	"fmt"
	"go/token"
	"go/types"
	"sort"
	"strings"

	"golang.org/x/tools/go/ssa"
)

func init() {
	register("C02", "value-level stability of decode→encode→decode; panics inside encoding/json, net/url, gorilla/websocket; user-registered document types outside the repository; termination beyond the loop-shape inventory", c02)
}

// wireStructs are the intermediate JSON structs: named struct types of lime all of whose fields carry json tags and
// that have at least one pointer/slice field.
func wireStructs(p *Prog) []*types.Named {
	var out []*types.Named
	sc := p.LimeT.Scope()
	for _, n := range sc.Names() {
		tn, ok := sc.Lookup(n).(*types.TypeName)
		if !ok {
			continue
		}
		nt, ok := tn.Type().(*types.Named)
		if !ok || tn.Exported() {
			continue
		}
		st, ok := nt.Underlying().(*types.Struct)
		if !ok || st.NumFields() == 0 {
			continue
		}
		all := true
		for i := 0; i < st.NumFields(); i++ {
			if !strings.Contains(st.Tag(i), "json:") {
				all = false
			}
		}
		if all {
			out = append(out, nt)
		}
	}
	return out
}

// decodeRoots returns the decode entry points.
func decodeRoots(p *Prog, s *Sem) []*ssa.Function {
	var roots []*ssa.Function
	add := func(f *ssa.Function) {
		if f != nil {
			roots = append(roots, f)
		}
	}
	for _, fn := range p.AllFuncs() {
		if fn.Parent() != nil {
			continue
		}
		if fn.Signature.Recv() != nil && (fn.Name() == "UnmarshalJSON" || fn.Name() == "UnmarshalText") {
			add(fn)
		}
	}
	add(p.Method("rawEnvelope", "toEnvelope"))
	add(p.Func("UnmarshalDocument"))
	add(p.Func("GetDocumentFactory"))
	for _, f := range p.Implementations(s.transportT, "Receive") {
		add(f)
	}
	add(receiverFunc(p, s))
	return roots
}

// receiverFunc resolves "the receiver goroutine": the target of the go statement whose callee calls Transport.Receive.
func receiverFunc(p *Prog, s *Sem) *ssa.Function {
	var found *ssa.Function
	for _, fn := range p.LimeFuncs() {
		eachInstr(fn, func(in ssa.Instruction) {
			g, ok := in.(*ssa.Go)
			if !ok {
				return
			}
			for _, callee := range p.calleesAt(g) {
				calls := false
				eachCall(callee, func(c ssa.CallInstruction) {
					if s.isTransportCall(c, "Receive") {
						calls = true
					}
				})
				if calls {
					found = callee
				}
			}
		})
	}
	return found
}

// nilableWire: v is (a load of) a pointer-typed field of a wire struct, or an element of a wire slice of pointers.
func nilableWire(v ssa.Value, wires []*types.Named) (bool, string) {
	v = stripConv(v)
	u, ok := v.(*ssa.UnOp)
	if !ok || u.Op != token.MUL {
		return false, ""
	}
	if _, ok := v.Type().Underlying().(*types.Pointer); !ok {
		return false, ""
	}
	switch a := u.X.(type) {
	case *ssa.FieldAddr:
		n := namedOf(a.X.Type())
		for _, w := range wires {
			if n != nil && n.Obj() == w.Obj() {
				return true, w.Obj().Name() + "." + structField(a.X.Type(), a.Field).Name()
			}
		}
	case *ssa.IndexAddr:
		// element of a slice loaded from a wire field
		if ld, ok := a.X.(*ssa.UnOp); ok && ld.Op == token.MUL {
			if fa, ok := ld.X.(*ssa.FieldAddr); ok {
				n := namedOf(fa.X.Type())
				for _, w := range wires {
					if n != nil && n.Obj() == w.Obj() {
						return true, w.Obj().Name() + "." + structField(fa.X.Type(), fa.Field).Name() + "[i]"
					}
				}
			}
		}
	}
	return false, ""
}

// nonNilGuarded: block b is reached only through an edge asserting that a value with v's access path (or v itself) is non-nil.
func nonNilGuarded(b *ssa.BasicBlock, v ssa.Value) bool {
	key := apKey(v)
	return guardedBy(b, func(ifi *ssa.If, br bool) bool {
		c := condOn(ifi, br)
		if c.Op != token.NEQ {
			return false
		}
		x, y := c.X, c.Y
		if isNilConst(x) {
			x, y = y, x
		}
		if !isNilConst(y) {
			return false
		}
		return stripConv(x) == stripConv(v) || (key != "" && apKey(x) == key)
	})
}

func apKey(v ssa.Value) string {
	v = stripConv(v)
	ap := pathOf(v)
	if len(ap.Fields) == 0 {
		if _, ok := ap.Root.(*ssa.Parameter); ok {
			return "P:" + ap.Root.Name()
		}
		return ""
	}
	if ia := indexBase(v); ia != "" {
		return ia
	}
	return fmt.Sprintf("%p:%s", ap.Root, ap.String())
}

func indexBase(v ssa.Value) string {
	if u, ok := v.(*ssa.UnOp); ok && u.Op == token.MUL {
		if ia, ok := u.X.(*ssa.IndexAddr); ok {
			return fmt.Sprintf("idx:%p:%p", ia.X, ia.Index)
		}
	}
	return ""
}

// derefSites lists the instructions of fn that dereference pointer value v (load, field address, method call needing
// a non-nil receiver is not included: methods are analysed on their own).
type derefSite struct {
	in  ssa.Instruction
	ptr ssa.Value
}

func pointerDerefs(fn *ssa.Function) []derefSite {
	var out []derefSite
	eachInstr(fn, func(in ssa.Instruction) {
		switch x := in.(type) {
		case *ssa.UnOp:
			if x.Op == token.MUL {
				out = append(out, derefSite{in, x.X})
			}
		case *ssa.FieldAddr:
			out = append(out, derefSite{in, x.X})
		case *ssa.Store:
			out = append(out, derefSite{in, x.Addr})
		}
	})
	return out
}

func c02(r *Report, s *Sem) {
	p := r.P
	defer r.Import(s, "C01", "R4", "R14", "decoding terminates: every byte-level Receive makes one decode attempt and returns its outcome — the result of the shared conversion or the decoder's error (a loop that retries after a syntax error never ends: encoding/json keeps returning the same error without reading)", 4)
	defer r.Import(s, "C01", "R12", "R13", "re-encoding yields what was accepted: every wire member an encoder stores has one source among the fields of the accepted value and is emitted on presence tests only (a total replaced by the item count when it is zero decodes to a different collection)", 20)
	defer r.Import(s, "C01", "R5", "R12", "decoding never writes shared state: the document factory registry is filled only by RegisterDocumentFactory and package initialisation (a lookup that memoises its fallback is a map write on the decode path — two connections decoding unknown media types crash the process with a concurrent map write)", 1, "writes the document factory registry", "registration")
	defer r.Import(s, "C01", "R3", "R10", "no typed envelope leaves the decoder without the member that identifies its kind: the discriminator answers a kind's tag only when that member is present (request ⇒ uri, response ⇒ status, …), which is what lets dispatch code such as the ping predicates call methods on RequestCommand.URI without a nil test", 7, "tag only with its identifying member")
	R1 := r.Rule("R1", "every dereference, in code reachable from a decode entry point, of a pointer that may come from a pointer field (or pointer-slice element) of a wire struct — directly or through a parameter — is dominated by a non-nil test of the same access path", 12)
	R2 := r.Rule("R2", "every explicit panic reachable from a decode entry point is a listed caller-contract panic unrelated to wire data, or is discharged by a dominating guard on the peer-controlled value", 3)
	R3 := r.Rule("R3", "the receiver's type switch covers every concrete type that can be produced by the wire→envelope conversion or converted to the envelope interface (its default arm panics)", 5)
	R4 := r.Rule("R4", "every index expression reachable from a decode entry point is within bounds by a dominating len fact (strings.Split yields ≥1 element), or is a range index of a slice of the same length", 1)
	R5 := r.Rule("R5", "every registered document / authentication factory returns the address of a fresh value (never nil), so json.Unmarshal into the interface fills the typed value", 10)
	r.Trusted = append(r.Trusted, "strings.Split with a non-empty separator returns at least one element", "encoding/json never calls UnmarshalJSON/UnmarshalText with a nil receiver")

	wires := wireStructs(p)
	if len(wires) < 3 {
		r.Undecided(R1, "anchor-unresolved:wire structs", "-", fmt.Sprintf("found %d wire structs, expected rawEnvelope, rawDocumentContainer, rawDocumentCollection", len(wires)))
		return
	}
	roots := decodeRoots(p, s)
	reach := p.reachable(roots...)
	var fns []*ssa.Function
	for f := range reach {
		if f.Synthetic == "" && len(f.Blocks) > 0 {
			fns = append(fns, f)
		}
	}
	sort.Slice(fns, func(i, j int) bool { return fns[i].Pos() < fns[j].Pos() })
	r.Note("decode roots: %d; in-repo functions reachable: %d", len(roots), len(fns))

	// ---- R1
	// Step 1: parameters dereferenced without a guard (exported obligation).
	type pkey struct {
		fn  *ssa.Function
		idx int
	}
	unguardedParam := map[pkey]ssa.Instruction{}
	for _, fn := range fns {
		for _, d := range pointerDerefs(fn) {
			pv, ok := stripConv(d.ptr).(*ssa.Parameter)
			if !ok {
				continue
			}
			if _, isPtr := pv.Type().Underlying().(*types.Pointer); !isPtr {
				continue
			}
			idx := -1
			for i, q := range fn.Params {
				if q == pv {
					idx = i
				}
			}
			if idx < 0 || (idx == 0 && fn.Signature.Recv() != nil) {
				continue // receivers: methods are invoked on values the caller already used
			}
			if !nonNilGuarded(d.in.Block(), pv) {
				if _, seen := unguardedParam[pkey{fn, idx}]; !seen {
					unguardedParam[pkey{fn, idx}] = d.in
				}
			}
		}
	}
	// Step 2: local dereferences of wire-nilable pointers.
	for _, fn := range fns {
		for _, d := range pointerDerefs(fn) {
			ok, what := nilableWire(d.ptr, wires)
			if !ok {
				continue
			}
			guarded := nonNilGuarded(d.in.Block(), d.ptr)
			r.Check(R1, "func "+fnName(fn)+" / deref "+what, p.instrPos(d.in), guarded,
				"a peer can omit or null this JSON member; dereferencing it without a dominating `!= nil` test panics on the receiver goroutine (no recover)")
		}
		// Step 3: wire-nilable pointers passed to callees that dereference the parameter unguarded.
		eachCall(fn, func(c ssa.CallInstruction) {
			for _, callee := range p.calleesAt(c) {
				args := c.Common().Args
				off := 0
				if c.Common().IsInvoke() {
					off = 1
				}
				for i, a := range args {
					site, bad := unguardedParam[pkey{callee, i + off}]
					if !bad {
						continue
					}
					for _, l := range leaves(a) {
						ok, what := nilableWire(l, wires)
						if !ok {
							continue
						}
						guarded := nonNilGuarded(c.Block(), l)
						r.Check(R1, "func "+fnName(fn)+" / pass "+what+" to "+fnName(callee), p.instrPos(c), guarded,
							"callee dereferences this parameter without a nil test at "+p.instrPos(site)+"; the argument may be absent/null on the wire")
					}
				}
			}
		})
	}

	// ---- R2
	setterPanic := map[*ssa.Function]bool{}
	for _, fn := range fns {
		eachInstr(fn, func(in ssa.Instruction) {
			pn, ok := in.(*ssa.Panic)
			if !ok {
				return
			}
			construct := "func " + fnName(fn) + " / panic " + panicText(pn)
			if !pn.Pos().IsValid() && strings.Contains(panicText(pn), "blocking select matched no case") {
				return // go/ssa's synthetic unreachable arm of a blocking select
			}
			switch {
			case nilGuardedPanic(pn, "Context"):
				r.Trivial(R2, construct, p.instrPos(in), true, "caller-contract panic: nil context (not wire data)")
			case s.stateSetters[fn]:
				setterPanic[fn] = true
			case fn == receiverFunc(p, s):
				r.Trivial(R2, construct, p.instrPos(in), true, "default arm of the receiver's type switch: discharged by R3 (exhaustiveness)")
			default:
				r.Check(R2, construct, p.instrPos(in), false, "explicit panic reachable from a decode entry point and not a listed caller-contract panic")
			}
		})
	}
	// the state setter's monotonicity panic: every call from decode-reachable code with a peer-controlled argument is guarded
	for setter := range setterPanic {
		for _, c := range p.callersOf(setter) {
			caller := c.Parent()
			if !reach[caller] {
				continue
			}
			arg := c.Common().Args[len(c.Common().Args)-1]
			if _, isConst := stripConv(arg).(*ssa.Const); isConst {
				r.Trivial(R2, "func "+fnName(caller)+" / call "+fnName(setter)+" (constant state)", p.instrPos(c), true, "argument is a constant state")
				continue
			}
			ok := regressionGuarded(s, c.Block(), arg)
			r.Check(R2, "func "+fnName(caller)+" / call "+fnName(setter)+" with peer state", p.instrPos(c), ok,
				"the setter panics when the state moves backwards; a peer-supplied state must be tested with Step() >= current before the call")
		}
	}

	// ---- R3
	rcv := receiverFunc(p, s)
	toEnv := p.Method("rawEnvelope", "toEnvelope")
	if rcv == nil || toEnv == nil {
		r.Undecided(R3, "anchor-unresolved:receiver/toEnvelope", "-", "receiver goroutine or wire→envelope conversion not found")
	} else {
		cases := map[string]bool{}
		eachInstr(rcv, func(in ssa.Instruction) {
			if ta, ok := in.(*ssa.TypeAssert); ok && ta.CommaOk {
				cases[ta.AssertedType.String()] = true
			}
		})
		var envT types.Object
		if et := p.Type("envelope"); et != nil {
			envT = et.Obj()
		}
		produced := map[string]string{}
		for _, fn := range p.LimeFuncs() {
			eachInstr(fn, func(in ssa.Instruction) {
				mi, ok := in.(*ssa.MakeInterface)
				if !ok || envT == nil || !types.Identical(mi.Type(), envT.Type()) {
					return
				}
				produced[mi.X.Type().String()] = p.instrPos(mi)
			})
		}
		var names []string
		for n := range produced {
			names = append(names, n)
		}
		sort.Strings(names)
		for _, n := range names {
			r.Check(R3, "receiver type switch / case "+shortType(n), produced[n], cases[n],
				"a value of this type can reach the receiver's type switch, whose default arm panics")
		}
	}

	// ---- R4
	for _, fn := range fns {
		eachInstr(fn, func(in ssa.Instruction) {
			var x, idx ssa.Value
			switch v := in.(type) {
			case *ssa.IndexAddr:
				x, idx = v.X, v.Index
			case *ssa.Index:
				x, idx = v.X, v.Index
			default:
				return
			}
			if _, isArr := x.Type().Underlying().(*types.Array); isArr {
				return
			}
			if pt, ok := x.Type().Underlying().(*types.Pointer); ok {
				if _, isArr := pt.Elem().Underlying().(*types.Array); isArr {
					return
				}
			}
			construct := "func " + fnName(fn) + " / index " + describe(x) + "[" + describe(idx) + "]"
			if k, ok := constInt(idx); ok {
				min := minLen(x, in.Block())
				r.Check(R4, construct, p.instrPos(in), k < min, fmt.Sprintf("constant index %d needs len ≥ %d; proven len ≥ %d from dominating guards and library facts", k, k+1, min))
				return
			}
			ok := rangeIndexSafe(x, idx, in.Block())
			r.Check(R4, construct, p.instrPos(in), ok, "variable index must be bounded by `i < len(s)` of the indexed slice (or of a slice of equal length)")
		})
	}

	// ---- R9: slice expressions
	R9 := r.Rule("R9", "every slice expression x[lo:hi] reachable from a decode entry point is within bounds: constant bounds against a proven minimum length, or a position found in that very value (strings.Index* of the same x on its ≥ 0 / found edge, optionally +1 or +len(sep)), or len-guarded — an index computed on one string and applied to another (e.g. after the string was cut) is refused", 0)
	for _, fn := range fns {
		eachInstr(fn, func(in ssa.Instruction) {
			sl, ok := in.(*ssa.Slice)
			if !ok {
				return
			}
			if pt, ok := sl.X.Type().Underlying().(*types.Pointer); ok {
				if _, isArr := pt.Elem().Underlying().(*types.Array); isArr {
					if sl.Low == nil && sl.High == nil {
						return // arr[:] of a local array (varargs, literals)
					}
				}
			}
			construct := "func " + fnName(fn) + " / slice " + describe(sl.X) + "[" + descOrEmpty(sl.Low) + ":" + descOrEmpty(sl.High) + "]"
			okLo, whyLo := sliceBoundOK(sl.X, sl.Low, in.Block())
			okHi, whyHi := sliceBoundOK(sl.X, sl.High, in.Block())
			okOrder := sl.Low == nil || sl.High == nil || boundsOrdered(sl.Low, sl.High, in.Block())
			r.Check(R9, construct, p.instrPos(in), okLo && okHi && okOrder, fmt.Sprintf("low: %s; high: %s; low ≤ high: %v", whyLo, whyHi, okOrder))
		})
	}

	R11 := r.Rule("R11", "accepted ⇒ encodable: every refusal the struct→wire function of an envelope kind or document wrapper makes on its own (a fresh error on a test of its fields) is implied by a refusal of the matching wire→struct function on the same members — otherwise a node cannot forward what it accepted", 5)
	checkEncoderRefusals(r, s, R11)

	// ---- R7
	R7 := r.Rule("R7", "JSON null resets an interface: after json.Unmarshal into an interface-typed variable (the authentication / document decode) the value may be nil whatever the factory returned, so no method is invoked on it — directly, or in a lime function it is handed to — without a nil test", 2)
	for _, fn := range fns {
		eachCall(fn, func(c ssa.CallInstruction) {
			g := staticCallee(c)
			if g == nil || g.Pkg == nil || g.Pkg.Pkg.Path() != "encoding/json" || (g.Name() != "Unmarshal" && g.Name() != "Decode") {
				return
			}
			args := c.Common().Args
			cell, ok := stripConv(args[len(args)-1]).(*ssa.Alloc)
			if !ok {
				return
			}
			if _, isIface := cell.Type().(*types.Pointer).Elem().Underlying().(*types.Interface); !isIface {
				return
			}
			construct := "func " + fnName(fn) + " / interface value decoded by " + g.Name()
			bad := ""
			for _, ref := range *cell.Referrers() {
				ld, ok := ref.(*ssa.UnOp)
				if !ok || ld.Op != token.MUL || !reachesInstr(c.(ssa.Instruction), ld) {
					continue
				}
				for _, use := range *ld.Referrers() {
					uc, ok := use.(ssa.CallInstruction)
					if !ok {
						continue
					}
					guarded := condGuard(use.Block(), func(cd Cond) bool {
						return cd.Op == token.NEQ && (stripConv(cd.X) == ssa.Value(ld) && isNilConst(cd.Y) || stripConv(cd.Y) == ssa.Value(ld) && isNilConst(cd.X))
					})
					if guarded {
						continue
					}
					if uc.Common().IsInvoke() && stripConv(uc.Common().Value) == ssa.Value(ld) {
						bad = "method " + uc.Common().Method.Name() + " invoked on it at " + p.instrPos(use)
					}
					if h := staticCallee(uc); h != nil && h.Pkg == p.Lime && len(h.Blocks) > 0 {
						for i, a := range uc.Common().Args {
							if stripConv(a) != ssa.Value(ld) || i >= len(h.Params) {
								continue
							}
							for _, pref := range *h.Params[i].Referrers() {
								if pc, ok := pref.(ssa.CallInstruction); ok && pc.Common().IsInvoke() && pc.Common().Value == ssa.Value(h.Params[i]) {
									pg := condGuard(pref.Block(), func(cd Cond) bool {
										return cd.Op == token.NEQ && (cd.X == ssa.Value(h.Params[i]) && isNilConst(cd.Y) || cd.Y == ssa.Value(h.Params[i]) && isNilConst(cd.X))
									})
									if !pg {
										bad = "handed to " + fnName(h) + ", which invokes " + pc.Common().Method.Name() + " on it at " + p.instrPos(pref)
									}
								}
							}
						}
					}
				}
			}
			r.Check(R7, construct, p.instrPos(c.(ssa.Instruction)), bad == "", "a peer sending null for this member makes the value nil: "+bad)
		})
	}

	r.Import(s, "C01", "R7", "R8", "accepted ⇒ re-encodable for addresses and media types: their parsers return only verbatim pieces of the input and their text forms re-assemble them, so parsing the text form of an accepted value yields it again (an escaping applied on one side only changes the value on the next hop)", 3)
	R6 := r.Rule("R6", "accepted ⇒ re-encodable: co-presence symmetry between decoder and encoder (a member the encoder emits only together with another field is stored by the decoder only when that other member is on the wire), so what was accepted does not change under re-encoding", 10)
	checkCoPresence(r, R6)

	// ---- R5
	checkFactory := func(f *ssa.Function, where string) {
		ok := true
		n := 0
		for _, rl := range returnLeaves(f, 0) {
			n++
			if _, isAlloc := stripConv(rl.v).(*ssa.Alloc); !isAlloc {
				ok = false
			}
		}
		r.Check(R5, where+" / "+fnName(f), p.pos(f.Pos()), ok && n > 0, "factory must return the address of a fresh value on every path")
	}
	reg := p.Func("RegisterDocumentFactory")
	for _, fn := range p.AllFuncs() {
		eachCall(fn, func(c ssa.CallInstruction) {
			if staticCallee(c) == reg && reg != nil {
				switch f := stripConv(c.Common().Args[0]).(type) {
				case *ssa.Function:
					checkFactory(f, "document factory")
				case *ssa.MakeClosure:
					checkFactory(f.Fn.(*ssa.Function), "document factory")
				}
			}
		})
	}
	if g, ok := p.Lime.Members["authFactories"].(*ssa.Global); ok {
		for _, fn := range p.LimeFuncs() {
			if fn.Name() != "init" {
				continue
			}
			eachInstr(fn, func(in ssa.Instruction) {
				mu, ok := in.(*ssa.MapUpdate)
				if !ok {
					return
				}
				_ = g
				if f, ok := stripConv(mu.Value).(*ssa.Function); ok && f.Signature.Results().Len() == 1 && typeIs(f.Signature.Results().At(0).Type(), p.Type("Authentication")) {
					checkFactory(f, "authentication factory")
				}
			})
		}
	}
}

func shortType(s string) string {
	return strings.ReplaceAll(s, limePath+".", "")
}

func panicText(pn *ssa.Panic) string {
	for _, l := range leaves(pn.X) {
		if cs, ok := constString(stripConv(l)); ok {
			return fmt.Sprintf("%q", cs)
		}
		if c, _ := callOf(l); c != nil {
			for _, a := range c.Call.Args {
				for _, l2 := range leaves(a) {
					if cs, ok := constString(stripConv(l2)); ok {
						return fmt.Sprintf("%q", cs)
					}
				}
			}
			return describe(c)
		}
	}
	return describe(pn.X)
}

// nilGuardedPanic: the panic sits on the true edge of `<param of interface type named typ> == nil`.
func nilGuardedPanic(pn *ssa.Panic, typ string) bool {
	return guardedBy(pn.Block(), func(ifi *ssa.If, br bool) bool {
		c := condOn(ifi, br)
		if c.Op != token.EQL {
			return false
		}
		x, y := c.X, c.Y
		if isNilConst(x) {
			x, y = y, x
		}
		if !isNilConst(y) {
			return false
		}
		pv, ok := stripConv(x).(*ssa.Parameter)
		if !ok {
			return false
		}
		n := namedOf(pv.Type())
		return n != nil && n.Obj().Name() == typ
	})
}

// regressionGuarded: block b is dominated by an edge on which Step(arg) >= Step(current state).
func regressionGuarded(s *Sem, b *ssa.BasicBlock, arg ssa.Value) bool {
	stepOf := func(v ssa.Value) (ssa.Value, bool) {
		c, _ := callOf(v)
		if c == nil {
			return nil, false
		}
		f := c.Call.StaticCallee()
		if f == nil || f.Name() != "Step" || len(c.Call.Args) != 1 {
			return nil, false
		}
		return c.Call.Args[0], true
	}
	same := func(a, b ssa.Value) bool {
		a, b = stripConv(a), stripConv(b)
		if a == b {
			return true
		}
		ka, kb := apKey(a), apKey(b)
		return ka != "" && ka == kb
	}
	return guardedBy(b, func(ifi *ssa.If, br bool) bool {
		c := condOn(ifi, br)
		x, okx := stepOf(c.X)
		y, oky := stepOf(c.Y)
		if !okx || !oky {
			return false
		}
		switch c.Op {
		case token.GEQ, token.GTR:
			return same(x, arg) && s.isStateRead(y)
		case token.LEQ, token.LSS:
			return same(y, arg) && s.isStateRead(x)
		}
		return false
	})
}

// minLen computes a lower bound for len(x) at block b from library facts and dominating guards.
func minLen(x ssa.Value, b *ssa.BasicBlock) int64 {
	var min int64
	for _, l := range leaves(x) {
		if c, _ := callOf(l); c != nil {
			if f := c.Call.StaticCallee(); f != nil && f.Pkg != nil && f.Pkg.Pkg.Path() == "strings" && f.Name() == "Split" {
				if sep, ok := constString(stripConv(c.Call.Args[1])); ok && sep != "" {
					min = 1
					continue
				}
			}
		}
		min = 0
		break
	}
	isLenOfX := func(v ssa.Value) bool {
		c, _ := callOf(v)
		if c == nil {
			return false
		}
		bi, ok := c.Call.Value.(*ssa.Builtin)
		return ok && bi.Name() == "len" && len(c.Call.Args) == 1 && c.Call.Args[0] == x
	}
	changed := true
	for iter := 0; changed && iter < 4; iter++ {
		changed = false
		for _, e := range mustEdges(b) {
			c := condOn(ifOf(e.from), e.succ == 0)
			lx, k := c.X, c.Y
			op := c.Op
			if isLenOfX(k) {
				lx, k = k, lx
				switch op {
				case token.LSS:
					op = token.GTR
				case token.GTR:
					op = token.LSS
				case token.LEQ:
					op = token.GEQ
				case token.GEQ:
					op = token.LEQ
				}
			}
			if !isLenOfX(lx) {
				continue
			}
			kv, ok := constInt(k)
			if !ok {
				continue
			}
			nm := min
			switch op {
			case token.GTR:
				if kv+1 > nm {
					nm = kv + 1
				}
			case token.GEQ:
				if kv > nm {
					nm = kv
				}
			case token.NEQ:
				if nm == kv {
					nm = kv + 1
				}
			case token.EQL:
				if kv > nm {
					nm = kv
				}
			}
			if nm != min {
				min = nm
				changed = true
			}
		}
	}
	return min
}

// rangeIndexSafe: idx is bounded by a dominating `idx < len(y)` and the indexed slice has y's length.
func rangeIndexSafe(x, idx ssa.Value, b *ssa.BasicBlock) bool {
	var lenArgs []ssa.Value
	for _, e := range mustEdges(b) {
		c := condOn(ifOf(e.from), e.succ == 0)
		var l ssa.Value
		switch {
		case c.Op == token.LSS && c.X == idx:
			l = c.Y
		case c.Op == token.GTR && c.Y == idx:
			l = c.X
		default:
			continue
		}
		if call, _ := callOf(l); call != nil {
			if bi, ok := call.Call.Value.(*ssa.Builtin); ok && bi.Name() == "len" {
				lenArgs = append(lenArgs, call.Call.Args[0])
			}
		}
	}
	if len(lenArgs) == 0 {
		return false
	}
	for _, y := range lenArgs {
		if y == x || (apKey(y) != "" && apKey(y) == apKey(x)) {
			return true
		}
		// x was made with len(y)
		if sameLenAs(x, y) || sameLenAs(y, x) {
			return true
		}
	}
	return false
}

func sameLenAs(x, y ssa.Value) bool {
	isLenOf := func(v, of ssa.Value) bool {
		call, _ := callOf(v)
		if call == nil {
			return false
		}
		bi, ok := call.Call.Value.(*ssa.Builtin)
		if !ok || bi.Name() != "len" {
			return false
		}
		a := call.Call.Args[0]
		return a == of || (apKey(a) != "" && apKey(a) == apKey(of))
	}
	made := func(v ssa.Value) bool {
		ms, ok := stripConv(v).(*ssa.MakeSlice)
		return ok && isLenOf(ms.Len, y)
	}
	if made(x) {
		return true
	}
	// x is a load of a field path: every store to that path in the function is such a MakeSlice
	ap := pathOf(x)
	if len(ap.Fields) == 0 {
		return false
	}
	fn := x.Parent()
	if fn == nil {
		return false
	}
	n, ok := 0, true
	for _, st := range fieldStores([]*ssa.Function{fn}, ap.Last()) {
		if pathOf(st.Addr).Root != ap.Root {
			continue
		}
		n++
		if !made(st.Val) {
			ok = false
		}
	}
	return ok && n > 0
}

func descOrEmpty(v ssa.Value) string {
	if v == nil {
		return ""
	}
	return describe(v)
}

// indexOfIn: v is the result of a strings/bytes position search in x (Index, IndexByte, IndexRune, IndexAny,
// LastIndex…), so -1 ≤ v < len(x) (and v + len(sep) ≤ len(x) when found).
func indexOfIn(v, x ssa.Value) (sepLen int64, ok bool) {
	call, _ := callOf(stripConv(v))
	if call == nil {
		return 0, false
	}
	g := call.Call.StaticCallee()
	if g == nil || g.Pkg == nil || (g.Pkg.Pkg.Path() != "strings" && g.Pkg.Pkg.Path() != "bytes") {
		return 0, false
	}
	switch g.Name() {
	case "Index", "LastIndex":
		if stripConv(call.Call.Args[0]) != stripConv(x) {
			return 0, false
		}
		if cs, isC := constString(stripConv(call.Call.Args[1])); isC {
			return int64(len(cs)), true
		}
		return 0, true
	case "IndexByte", "LastIndexByte", "IndexRune", "IndexAny", "LastIndexAny", "IndexFunc", "LastIndexFunc":
		if stripConv(call.Call.Args[0]) != stripConv(x) {
			return 0, false
		}
		return 1, true
	}
	return 0, false
}

// nonNegAt: v ≥ 0 is known at block b from a dominating guard (v >= 0, v > -1, v != -1, !(v < 0)).
func nonNegAt(v ssa.Value, b *ssa.BasicBlock) bool {
	v = stripConv(v)
	return condGuard(b, func(c Cond) bool {
		x, y, op := c.X, c.Y, c.Op
		if x == nil || y == nil {
			return false
		}
		if stripConv(y) == v {
			// constant on the left: flip
			x, y = y, x
			switch op {
			case token.LSS:
				op = token.GTR
			case token.LEQ:
				op = token.GEQ
			case token.GTR:
				op = token.LSS
			case token.GEQ:
				op = token.LEQ
			}
		}
		if stripConv(x) != v {
			return false
		}
		k, isC := constInt(stripConv(y))
		if !isC {
			return false
		}
		switch op {
		case token.GEQ:
			return k >= 0
		case token.GTR:
			return k >= -1
		case token.NEQ:
			return k == -1
		case token.EQL:
			return k >= 0
		}
		return false
	})
}

// sliceBoundOK: 0 ≤ bound ≤ len(x) at block b.
func sliceBoundOK(x, bound ssa.Value, b *ssa.BasicBlock) (bool, string) {
	if bound == nil {
		return true, "default"
	}
	bv := stripConv(bound)
	if k, ok := constInt(bv); ok {
		if k == 0 {
			return true, "0"
		}
		if k < 0 {
			return false, "negative constant"
		}
		min := minLen(x, b)
		return k <= min, fmt.Sprintf("constant %d against proven len ≥ %d", k, min)
	}
	// len(x) itself, or len(x) - k guarded… keep to the plain form
	if call, _ := callOf(bv); call != nil {
		if bi, ok := call.Call.Value.(*ssa.Builtin); ok && bi.Name() == "len" && stripConv(call.Call.Args[0]) == stripConv(x) {
			return true, "len of the same value"
		}
	}
	// position found in the same value
	if _, ok := indexOfIn(bv, x); ok {
		return nonNegAt(bv, b), "position found in the same value (needs its ≥ 0 edge)"
	}
	if bo, ok := bv.(*ssa.BinOp); ok && bo.Op == token.ADD {
		base, add := bo.X, bo.Y
		if _, isC := constInt(stripConv(base)); isC {
			base, add = add, base
		}
		if k, isC := constInt(stripConv(add)); isC && k >= 0 {
			if sep, ok := indexOfIn(base, x); ok && k <= sep {
				return nonNegAt(base, b), fmt.Sprintf("position found in the same value + %d (separator length %d)", k, sep)
			}
		}
	}
	// len(v) (+1) where v is x or a slice of x: len(v) ≤ len(x) always, and < len(x) under a guard that says so
	{
		base, k := bv, int64(0)
		if bo, ok := bv.(*ssa.BinOp); ok && bo.Op == token.ADD {
			if kk, isC := constInt(stripConv(bo.Y)); isC {
				base, k = stripConv(bo.X), kk
			} else if kk, isC := constInt(stripConv(bo.X)); isC {
				base, k = stripConv(bo.Y), kk
			}
		}
		if v := lenArg(base); v != nil && (k == 0 || k == 1) && subSliceOf(v, x) {
			if k == 0 {
				return true, "length of a part of the same value"
			}
			strict := condGuard(b, func(c Cond) bool {
				if c.Op != token.NEQ && c.Op != token.LSS && c.Op != token.GTR {
					return false
				}
				l, r := c.X, c.Y
				if c.Op == token.GTR {
					l, r = r, l
				}
				la, ra := lenArg(l), lenArg(r)
				if la == nil || ra == nil {
					return false
				}
				if stripConv(la) == stripConv(v) && stripConv(ra) == stripConv(x) {
					return true
				}
				return c.Op == token.NEQ && stripConv(ra) == stripConv(v) && stripConv(la) == stripConv(x)
			})
			return strict, "length of a part of the same value + 1 (needs the guard len(part) != len(whole))"
		}
	}
	// i bounded by a dominating i <= len(x) / i < len(x), with i ≥ 0 (range index or guarded)
	if rangeIndexSafe(x, bv, b) {
		return true, "index proven < len of the same value"
	}
	leq := condGuard(b, func(c Cond) bool {
		if c.Op != token.LEQ && c.Op != token.LSS && c.Op != token.GEQ && c.Op != token.GTR {
			return false
		}
		lo, hi := c.X, c.Y
		if c.Op == token.GEQ || c.Op == token.GTR {
			lo, hi = hi, lo
		}
		if stripConv(lo) != bv {
			return false
		}
		call, _ := callOf(stripConv(hi))
		if call == nil {
			return false
		}
		bi, ok := call.Call.Value.(*ssa.Builtin)
		return ok && bi.Name() == "len" && stripConv(call.Call.Args[0]) == stripConv(x)
	})
	if leq && (nonNegAt(bv, b) || isUnsignedOrLen(bv)) {
		return true, "guarded by ≤ len of the same value"
	}
	return false, "bound " + describe(bound) + " is not tied to the sliced value"
}

func isUnsignedOrLen(v ssa.Value) bool {
	if call, _ := callOf(v); call != nil {
		if bi, ok := call.Call.Value.(*ssa.Builtin); ok && (bi.Name() == "len" || bi.Name() == "cap") {
			return true
		}
	}
	if bt, ok := v.Type().Underlying().(*types.Basic); ok && bt.Info()&types.IsUnsigned != 0 {
		return true
	}
	return false
}

// boundsOrdered: lo ≤ hi for the accepted forms: constants, lo constant 0, or both tied to positions where lo's
// search… kept minimal: constants compared numerically; otherwise a dominating guard lo <= hi / lo < hi.
func boundsOrdered(lo, hi ssa.Value, b *ssa.BasicBlock) bool {
	l, h := stripConv(lo), stripConv(hi)
	if k1, ok := constInt(l); ok {
		if k1 == 0 {
			return true
		}
		if k2, ok := constInt(h); ok {
			return k1 <= k2
		}
		// constant low against a bound ≥ … needs a guard
	}
	return condGuard(b, func(c Cond) bool {
		x, y, op := c.X, c.Y, c.Op
		if x == nil || y == nil {
			return false
		}
		if op == token.GEQ || op == token.GTR {
			x, y = y, x
			op = map[token.Token]token.Token{token.GEQ: token.LEQ, token.GTR: token.LSS}[op]
		}
		return (op == token.LEQ || op == token.LSS) && stripConv(x) == l && stripConv(y) == h
	})
}

// subSliceOf: every value v may take (through phis, not looking inside x) is x itself or a slice expression of x.
func subSliceOf(v, x ssa.Value) bool {
	x = stripConv(x)
	seen := map[ssa.Value]bool{}
	n := 0
	var rec func(v ssa.Value, d int) bool
	rec = func(v ssa.Value, d int) bool {
		v = stripConv(v)
		if v == x {
			n++
			return true
		}
		if seen[v] || d > 10 {
			return true
		}
		seen[v] = true
		switch y := v.(type) {
		case *ssa.Phi:
			for _, e := range y.Edges {
				if !rec(e, d+1) {
					return false
				}
			}
			return true
		case *ssa.Slice:
			n++
			return stripConv(y.X) == x
		}
		return false
	}
	return rec(v, 0) && n > 0
}

// ---- C02.R11: the encoder refuses only what the decoder refuses

type refusalAtom struct{ field, test string }

// refusals lists, for every return of fn whose error is made on the spot (errors.New / fmt.Errorf without an error
// operand), the set of tests on fields of `root` that every path to it must have passed.
func refusals(fn *ssa.Function, root ssa.Value, errIdx int) []map[refusalAtom]bool {
	var out []map[refusalAtom]bool
	isRootField := func(v ssa.Value) string {
		v = stripConv(v)
		for d := 0; d < 6; d++ {
			switch x := v.(type) {
			case *ssa.UnOp:
				if x.Op == token.MUL {
					v = stripConv(x.X)
					continue
				}
			case *ssa.FieldAddr:
				base := stripConv(x.X)
				if base == root {
					return structField(x.X.Type(), x.Field).Name()
				}
				if u, ok := base.(*ssa.UnOp); ok && u.Op == token.MUL {
					if al, ok := u.X.(*ssa.Alloc); ok {
						if sv := singleStore(al); sv != nil && stripConv(sv) == root {
							return structField(x.X.Type(), x.Field).Name()
						}
					}
				}
				// embedded struct: the outermost field is named
				v = base
				if fa2, ok := base.(*ssa.FieldAddr); ok {
					_ = fa2
					name := structField(x.X.Type(), x.Field).Name()
					if inner := stripConv(fa2.X); inner == root {
						return name
					}
				}
				continue
			case *ssa.Call:
				// len(x.F)
				if b, ok := x.Call.Value.(*ssa.Builtin); ok && b.Name() == "len" {
					v = stripConv(x.Call.Args[0])
					continue
				}
			}
			break
		}
		return ""
	}
	for _, rl := range returnLeaves(fn, errIdx) {
		call, _ := callOf(rl.v)
		if call == nil {
			continue
		}
		g := call.Call.StaticCallee()
		if g == nil || g.Pkg == nil {
			continue
		}
		fresh := false
		switch {
		case g.Pkg.Pkg.Path() == "errors" && g.Name() == "New":
			fresh = true
		case g.Pkg.Pkg.Path() == "fmt" && g.Name() == "Errorf":
			fresh = true
			for _, o := range sliceOriginsElems(call.Call.Args[len(call.Call.Args)-1]) {
				if isErrorType(stripConv(o).Type()) {
					fresh = false
				}
				if mi, ok := o.(*ssa.MakeInterface); ok && isErrorType(mi.X.Type()) {
					fresh = false
				}
			}
		}
		if !fresh {
			continue
		}
		atoms := map[refusalAtom]bool{}
		edges := mustEdges(rl.b)
		if rl.to != nil {
			if ifi := ifOf(rl.b); ifi != nil && rl.b.Succs[0] != rl.b.Succs[1] {
				k := 1
				if rl.b.Succs[0] == rl.to {
					k = 0
				}
				edges = append(edges, edge{rl.b, k})
			}
		}
		for _, me := range edges {
			for _, c := range impliedConds(ifOf(me.from), me.succ == 0) {
				if c.Op != token.EQL && c.Op != token.NEQ {
					continue
				}
				x, y := c.X, c.Y
				if _, isC := stripConv(x).(*ssa.Const); isC {
					x, y = y, x
				}
				cst, isC := stripConv(y).(*ssa.Const)
				if !isC {
					continue
				}
				f := isRootField(x)
				if f == "" {
					continue
				}
				test := ""
				switch {
				case cst.Value == nil || zeroConst(cst) || isZeroInt(cst):
					test = "empty"
				default:
					test = "= " + cst.Value.String()
				}
				if c.Op == token.NEQ {
					test = "not " + test
				}
				atoms[refusalAtom{f, test}] = true
			}
		}
		if len(atoms) > 0 {
			out = append(out, atoms)
		}
	}
	return out
}

func atomsString2(m map[refusalAtom]bool) string {
	var l []string
	for a := range m {
		l = append(l, a.field+" "+a.test)
	}
	sort.Strings(l)
	return strings.Join(l, " ∧ ")
}

func checkEncoderRefusals(r *Report, s *Sem, R string) {
	p := r.P
	n := 0
	for _, cp := range codecPairs(p) {
		if len(cp.Enc.Params) == 0 || len(cp.Dec.Params) < 2 {
			continue
		}
		encRef := refusals(cp.Enc, cp.Enc.Params[0], cp.Enc.Signature.Results().Len()-1)
		decRef := refusals(cp.Dec, cp.Dec.Params[1], cp.Dec.Signature.Results().Len()-1)
		// a refusal reached only after earlier refusals were passed: the passed tests can be dropped, since in the
		// complementary case the decoder refuses anyway
		for changed := true; changed; {
			changed = false
			for _, dr := range decRef {
				for a := range dr {
					if !strings.HasPrefix(a.test, "not ") {
						continue
					}
					pos := refusalAtom{a.field, strings.TrimPrefix(a.test, "not ")}
					for _, other := range decRef {
						if len(other) == 1 && other[pos] {
							delete(dr, a)
							changed = true
						}
					}
				}
			}
		}
		n++
		if len(encRef) == 0 {
			r.Trivial(R, "type "+cp.name+" / encoder makes no refusal of its own", p.pos(cp.Enc.Pos()), true, "")
			continue
		}
		seen := map[string]bool{}
		for _, er := range encRef {
			key := atomsString2(er)
			if seen[key] {
				continue
			}
			seen[key] = true
			ok := false
			for _, dr := range decRef {
				sub := len(dr) > 0
				for a := range dr {
					if !er[a] {
						sub = false
					}
				}
				if sub {
					ok = true
				}
			}
			r.Check(R, "type "+cp.name+" / encoder refuses {"+key+"} only if the decoder does", p.pos(cp.Enc.Pos()), ok,
				"no refusal of the decoder is implied by this condition: a value the decoder accepted cannot be encoded again")
		}
	}
	if n == 0 {
		r.Undecided(R, "encoder/decoder pairs", "-", "none found")
	}
}
