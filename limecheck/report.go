package main

import (
	"encoding/json"
	"fmt"
	"os"
	"path/filepath"
	"sort"
	"strings"
	"time"
)

// Obligation is one (rule, construct) pair decided by a run. Keys never contain line numbers.
type Obligation struct {
	Rule      string `json:"rule"`
	Construct string `json:"construct"`
	Pos       string `json:"pos"`
	Status    string `json:"status"` // discharged | violated | undecided | known-finding
	Detail    string `json:"detail,omitempty"`
	Guarded   bool   `json:"nontrivial"`
}

type RuleInfo struct {
	ID   string
	Text string
	Min  int // minimum number of instances confirmed by hand on the pinned tree
	n    int
}

type Report struct {
	Property string
	Tier     string
	P        *Prog
	rules    []*RuleInfo
	ruleIdx  map[string]*RuleInfo
	Obs      []*Obligation
	Notes    []string
	Assume   []string
	Trusted  []string
	Residue  string
	Extras   []extraResult
	start    time.Time
	seen     map[string]bool
}

func newReport(prop, tier string, p *Prog) *Report {
	return &Report{Property: prop, Tier: tier, P: p, ruleIdx: map[string]*RuleInfo{}, start: time.Now(), seen: map[string]bool{}, Notes: []string{}, Assume: []string{}}
}

// Rule declares a rule and its vacuity floor.
func (r *Report) Rule(id, text string, min int) string {
	full := r.Property + "." + id
	if _, ok := r.ruleIdx[full]; !ok {
		ri := &RuleInfo{ID: full, Text: text, Min: min}
		r.rules = append(r.rules, ri)
		r.ruleIdx[full] = ri
	}
	return full
}

func (r *Report) add(rule, construct, pos, status, detail string, nontrivial bool) {
	full := rule
	if !strings.HasPrefix(rule, r.Property+".") {
		full = r.Property + "." + rule
	}
	ri := r.ruleIdx[full]
	if ri == nil {
		panic("undeclared rule " + full)
	}
	key := full + "|" + construct
	if r.seen[key] {
		// keep the worst status for a repeated construct (e.g. the same key from two paths)
		for _, o := range r.Obs {
			if o.Rule == full && o.Construct == construct {
				if o.Status == "discharged" && status != "discharged" {
					o.Status, o.Detail, o.Pos = status, detail, pos
				}
				return
			}
		}
	}
	r.seen[key] = true
	ri.n++
	r.Obs = append(r.Obs, &Obligation{Rule: full, Construct: construct, Pos: pos, Status: status, Detail: detail, Guarded: nontrivial})
}

// Check records an obligation; ok=false means violated.
func (r *Report) Check(rule, construct, pos string, ok bool, detail string) bool {
	st := "discharged"
	if !ok {
		st = "violated"
	}
	r.add(rule, construct, pos, st, detail, true)
	return ok
}

// Trivial records an obligation discharged without needing any guard/path argument (counted, but not as non-trivial).
func (r *Report) Trivial(rule, construct, pos string, ok bool, detail string) bool {
	st := "discharged"
	if !ok {
		st = "violated"
	}
	r.add(rule, construct, pos, st, detail, false)
	return ok
}

func (r *Report) Undecided(rule, construct, pos, detail string) {
	r.add(rule, construct, pos, "undecided", detail, true)
}

func (r *Report) Note(format string, a ...interface{}) {
	r.Notes = append(r.Notes, fmt.Sprintf(format, a...))
}

type knownFinding struct {
	Property  string `json:"property"`
	Rule      string `json:"rule"`
	Construct string `json:"construct"`
	What      string `json:"what"`
	Demo      string `json:"demonstration,omitempty"`
}

type knownFile struct {
	Open  []knownFinding `json:"open"`
	Fixed []string       `json:"fixed"`
}

func loadKnown(path string) (*knownFile, error) {
	var k knownFile
	b, err := os.ReadFile(path)
	if err != nil {
		if os.IsNotExist(err) {
			return &k, nil
		}
		return nil, err
	}
	if err := json.Unmarshal(b, &k); err != nil {
		return nil, fmt.Errorf("%s: %v", path, err)
	}
	return &k, nil
}

// failing reports whether some obligation is violated/undecided and not covered by a listed known finding, or a rule
// matched fewer instances than its floor.
func (r *Report) failing(known *knownFile) bool {
	for _, ri := range r.rules {
		if ri.n < ri.Min {
			return true
		}
	}
	for _, o := range r.Obs {
		if o.Status == "discharged" {
			continue
		}
		listed := false
		for _, k := range known.Open {
			if k.Property == r.Property && k.Rule == o.Rule && k.Construct == o.Construct && o.Status == "violated" {
				listed = true
			}
		}
		if !listed {
			return true
		}
	}
	return false
}

// Finish prints the report, writes the evidence file and returns the exit code.
func (r *Report) Finish(evidenceDir string, known *knownFile, checkerCmd string, seed int, printOK bool) int {
	// vacuity floor
	for _, ri := range r.rules {
		if ri.n < ri.Min {
			r.Obs = append(r.Obs, &Obligation{Rule: ri.ID, Construct: "rule-instances", Pos: "-", Status: "undecided",
				Detail: fmt.Sprintf("rule matched %d instance(s), fewer than the %d confirmed by hand on the pinned tree: anchors no longer resolve, so a regression could hide", ri.n, ri.Min), Guarded: true})
		}
	}
	// known findings
	for _, o := range r.Obs {
		if o.Status != "violated" {
			continue
		}
		for _, k := range known.Open {
			if k.Property == r.Property && k.Rule == o.Rule && k.Construct == o.Construct {
				o.Status = "known-finding"
				o.Detail = k.What + " [" + o.Detail + "]"
			}
		}
	}
	sort.SliceStable(r.Obs, func(i, j int) bool {
		if r.Obs[i].Rule != r.Obs[j].Rule {
			return natLess(r.Obs[i].Rule, r.Obs[j].Rule)
		}
		return r.Obs[i].Construct < r.Obs[j].Construct
	})
	total, discharged, viol, nontriv := 0, 0, 0, 0
	distinct := map[string]bool{}
	perRule := map[string][3]int{}
	for _, o := range r.Obs {
		total++
		c := perRule[o.Rule]
		c[0]++
		switch o.Status {
		case "discharged":
			discharged++
			c[1]++
		case "known-finding":
			c[2]++
		default:
			viol++
			c[2]++
		}
		perRule[o.Rule] = c
		if o.Guarded && !distinct[o.Construct] {
			distinct[o.Construct] = true
			nontriv++
		}
	}
	if printOK {
		for _, ri := range r.rules {
			c := perRule[ri.ID]
			fmt.Printf("RULE %s instances=%d discharged=%d open=%d (min %d)\n", ri.ID, c[0], c[1], c[2], ri.Min)
		}
	}
	evPath := filepath.Join(evidenceDir, r.Property+".json")
	for _, o := range r.Obs {
		switch o.Status {
		case "known-finding":
			fmt.Printf("KNOWN-FINDING: property=%s %s %s — %s\n", r.Property, o.Rule, o.Construct, o.Detail)
		case "violated", "undecided":
			fmt.Printf("%s: %s %s: %s: %s\n", o.Pos, o.Rule, o.Construct, o.Status, o.Detail)
		}
	}
	if viol > 0 {
		fmt.Printf("VIOLATION property=%s replay=%s\n", r.Property, evPath)
	}

	// evidence
	var expl []string
	for _, ri := range r.rules {
		expl = append(expl, ri.ID+": "+ri.Text)
	}
	samples := []interface{}{}
	for _, o := range r.Obs {
		if o.Status != "discharged" {
			samples = append(samples, o)
		}
	}
	perRuleSample := map[string]int{}
	for _, o := range r.Obs {
		if o.Status == "discharged" && perRuleSample[o.Rule] < 4 {
			perRuleSample[o.Rule]++
			samples = append(samples, o)
		}
	}
	cov := map[string]interface{}{
		"explanation":         "Static analysis of the SSA form, CFG and VTA call graph of /repo's working tree (no lime-go code is executed). Rules: " + strings.Join(expl, " || ") + ". NOT decided by this check: " + r.Residue,
		"obligations":         total,
		"discharged":          discharged,
		"evaluations":         total,
		"distinct_nontrivial": nontriv,
		"rule":                "an obligation is one (rule, construct) pair resolved from the type-checked program; it is non-trivial when discharging it required a dominance/path/provenance/lock argument rather than mere presence; distinct = distinct constructs",
		"checker_cmd":         checkerCmd,
		"trusted_base":        append([]string{"go/types + go/ssa + VTA call graph of golang.org/x/tools v0.29.0", "Go memory model and channel semantics", "encoding/json, net, crypto/tls, gorilla/websocket behave as documented"}, r.Trusted...),
		"samples":             samples,
		"all_obligations":     r.Obs,
		"functions_analysed":  r.P.nFuncs,
		"instructions":        r.P.nInstrs,
		"packages":            len(r.P.Pkgs),
		"build_tags":          r.P.Tags,
		"root":                r.P.Root,
		"notes":               r.Notes,
		"exhaustive":          true,
	}
	if r.Extras != nil {
		cov["thorough_extras"] = r.Extras
		n := 0
		for _, e := range r.Extras {
			if e.OK {
				n++
			}
		}
		cov["thorough_extras_ok"] = n
		cov["programs"] = len(r.Extras)
	}
	ev := map[string]interface{}{
		"property_id": r.Property,
		"tier":        r.Tier,
		"seed":        seed,
		"level":       "other",
		"coverage":    cov,
		"assumptions": r.Assume,
		"wall_s":      time.Since(processStart).Seconds(),
		"violations":  viol,
	}
	if evidenceDir != "" {
		_ = os.MkdirAll(evidenceDir, 0o755)
		b, _ := json.MarshalIndent(ev, "", " ")
		if err := os.WriteFile(evPath, append(b, '\n'), 0o644); err != nil {
			fmt.Fprintf(os.Stderr, "limecheck: cannot write evidence: %v\n", err)
			return 2
		}
	}
	if viol > 0 {
		return 1
	}
	return 0
}

func natLess(a, b string) bool {
	// compare with numeric runs compared numerically
	i, j := 0, 0
	for i < len(a) && j < len(b) {
		if isDigit(a[i]) && isDigit(b[j]) {
			si := i
			for i < len(a) && isDigit(a[i]) {
				i++
			}
			sj := j
			for j < len(b) && isDigit(b[j]) {
				j++
			}
			na := strings.TrimLeft(a[si:i], "0")
			nb := strings.TrimLeft(b[sj:j], "0")
			if len(na) != len(nb) {
				return len(na) < len(nb)
			}
			if na != nb {
				return na < nb
			}
			continue
		}
		if a[i] != b[j] {
			return a[i] < b[j]
		}
		i++
		j++
	}
	return len(a)-i < len(b)-j
}

func isDigit(c byte) bool { return c >= '0' && c <= '9' }

// Import runs the rules of another property and takes over the obligations of one of its rules under a rule of this
// report: the same structural condition is a necessary condition of both properties. constructFilter (optional) keeps
// only the constructs containing one of the given substrings.
var importCache = map[string]*Report{}

func (r *Report) Import(s *Sem, fromProp, fromRule, asRule, text string, min int, constructFilter ...string) {
	if importing > 0 {
		return // imports do not nest
	}
	rule := r.Rule(asRule, text+" [same obligations as "+fromProp+"."+fromRule+"]", min)
	src := importCache[fromProp]
	if src == nil {
		src = newReport(fromProp, r.Tier, r.P)
		func() {
			defer func() {
				if e := recover(); e != nil {
					src.Rule("R0", "the checker itself must not crash", 0)
					src.Undecided("R0", "checker-panic", "-", fmt.Sprint(e))
				}
			}()
			importing++
			defer func() { importing-- }()
			registry[fromProp](src, s)
		}()
		importCache[fromProp] = src
	}
	full := fromProp + "." + fromRule
	n := 0
	for _, o := range src.Obs {
		if o.Rule != full && o.Rule != fromProp+".R0" {
			continue
		}
		keep := len(constructFilter) == 0 || o.Rule == fromProp+".R0"
		for _, f := range constructFilter {
			if strings.Contains(o.Construct, f) {
				keep = true
			}
		}
		if !keep {
			continue
		}
		n++
		r.add(rule, o.Construct, o.Pos, o.Status, o.Detail, o.Guarded)
	}
	// the source rule's own vacuity floor
	if ri := src.ruleIdx[full]; ri != nil && len(constructFilter) == 0 && ri.n < ri.Min {
		r.Undecided(rule, "rule-instances of "+full, "-", fmt.Sprintf("the imported rule matched %d instance(s), fewer than its floor %d", ri.n, ri.Min))
	}
	if n == 0 {
		r.Undecided(rule, "imported rule "+full, "-", "no obligation to import: the anchors of the source rule no longer resolve")
	}
}

// importing > 0 while a property's rules run on behalf of another property (imports do not nest).
var importing int
