package main

// Normalisation of helper extraction.
//
// Every rule of this checker reads the SSA form of lime-go's functions. "Extract method" and its inverse are the most
// common behaviour-preserving edits, and a rule that looks for a construct inside one function must not change its
// verdict when part of that function moves into a new private helper. Rather than teach every rule about helpers, the
// program is normalised once, right after the SSA build and before the call graph and every rule:
//
//   - a static call to a private function whose name is not one of the pinned tree's private functions (known.go; renames
//     of those are recognised by receiver and signature) is replaced by the callee's body (bottom-up, no recursion, no
//     recover; top-level defers of the callee run at its return points);
//   - an interface method call whose receiver is a MakeInterface of a concrete type becomes a static call;
//   - where an inlined helper returned constants (true/false, nil / a fresh value) that its caller tests at once, each
//     return edge is threaded to the branch it takes, with SSA repair for the other results.
//
// On the pinned tree no function qualifies, so nothing changes there (asserted by the self-test: zero inlined calls).
// The transformed functions are re-checked by go/ssa's own sanity checker.

import (
	"bytes"
	"fmt"
	"go/ast"
	"go/constant"
	"go/token"
	"go/types"
	"io"
	"os"
	"reflect"
	"sort"
	"strings"
	"unsafe"

	"golang.org/x/tools/go/ssa"
)

//go:linkname ssaBuildDomTree golang.org/x/tools/go/ssa.buildDomTree
func ssaBuildDomTree(f *ssa.Function)

//go:linkname ssaNumberRegisters golang.org/x/tools/go/ssa.numberRegisters
func ssaNumberRegisters(f *ssa.Function)

//go:linkname ssaSanityCheck golang.org/x/tools/go/ssa.sanityCheck
func ssaSanityCheck(fn *ssa.Function, reporter io.Writer) bool

// ---- access to unexported fields of go/ssa (x/tools v0.29.0 is pinned in go.mod)

func unexported(v reflect.Value, name string) unsafe.Pointer {
	f := v.FieldByName(name)
	if !f.IsValid() {
		panic("inline: no field " + name + " in " + v.Type().String())
	}
	return unsafe.Pointer(f.UnsafeAddr())
}

func setInstrBlock(in ssa.Instruction, b *ssa.BasicBlock) {
	*(**ssa.BasicBlock)(unexported(reflect.ValueOf(in).Elem(), "block")) = b
}

func setBlockParent(b *ssa.BasicBlock, fn *ssa.Function) {
	*(**ssa.Function)(unexported(reflect.ValueOf(b).Elem(), "parent")) = fn
}

func setRegType(v ssa.Value, t types.Type) {
	*(*types.Type)(unexported(reflect.ValueOf(v).Elem(), "typ")) = t
}

func setRegPos(v ssa.Value, pos token.Pos) {
	*(*token.Pos)(unexported(reflect.ValueOf(v).Elem(), "pos")) = pos
}

// cloneInstr makes a copy of in that shares no operand storage with it.
func cloneInstr(in ssa.Instruction) ssa.Instruction {
	ov := reflect.ValueOf(in).Elem()
	nv := reflect.New(ov.Type())
	nv.Elem().Set(ov)
	detach(nv.Elem())
	if f := nv.Elem().FieldByName("referrers"); f.IsValid() {
		*(*[]ssa.Instruction)(unsafe.Pointer(f.UnsafeAddr())) = nil
	}
	return nv.Interface().(ssa.Instruction)
}

var selectStatePtr = reflect.TypeOf((*ssa.SelectState)(nil))

// detach gives the struct its own copies of every slice (and of the select states) that Operands() hands out pointers into.
func detach(v reflect.Value) {
	for i := 0; i < v.NumField(); i++ {
		f := v.Field(i)
		name := v.Type().Field(i).Name
		if name == "referrers" || name == "block" {
			continue
		}
		switch f.Kind() {
		case reflect.Struct:
			if f.CanAddr() && v.Type().Field(i).IsExported() || v.Type().Field(i).Anonymous {
				detach(f)
			}
		case reflect.Slice:
			if f.IsNil() || !v.Type().Field(i).IsExported() {
				continue
			}
			ns := reflect.MakeSlice(f.Type(), f.Len(), f.Len())
			reflect.Copy(ns, f)
			if f.Type().Elem() == selectStatePtr {
				for k := 0; k < ns.Len(); k++ {
					st := *ns.Index(k).Interface().(*ssa.SelectState)
					ns.Index(k).Set(reflect.ValueOf(&st))
				}
			}
			f.Set(ns)
		}
	}
}

// ---- the inliner

type inliner struct {
	p          *Prog
	cand       map[*ssa.Function]bool
	state      map[*ssa.Function]int // 1 in progress, 2 done
	changed    map[*ssa.Function]bool
	contPhis   map[*ssa.Phi]bool // phis created for the results of an inlined call
	literals   []*ssa.Function   // function literals made from go/defer of a helper
	namedConds bool              // threading pass over every function: only edges carrying a boolean constant
	nNamed     int
	inlAllocs  map[*ssa.Alloc]bool // allocations that came with an inlined body
	inlined    map[*ssa.Function]int
	skipped    map[ssa.Instruction]bool
	Log        []string
	nCalls     int
	nDevirt    int
	nThread    int
	dead       map[*ssa.Function]bool
	errs       []string
}

func (p *Prog) inlineHelpers(pinned func(*ssa.Function) bool) *inliner {
	il := &inliner{p: p, cand: map[*ssa.Function]bool{}, state: map[*ssa.Function]int{}, changed: map[*ssa.Function]bool{},
		contPhis: map[*ssa.Phi]bool{}, inlAllocs: map[*ssa.Alloc]bool{}, inlined: map[*ssa.Function]int{}, skipped: map[ssa.Instruction]bool{}, dead: map[*ssa.Function]bool{}}
	var all []*ssa.Function
	var addAnon func(fn *ssa.Function)
	addAnon = func(fn *ssa.Function) {
		all = append(all, fn)
		for _, a := range fn.AnonFuncs {
			addAnon(a)
		}
	}
	for _, pk := range []*ssa.Package{p.Lime, p.Chat} {
		var names []string
		for n := range pk.Members {
			names = append(names, n)
		}
		sort.Strings(names)
		for _, n := range names {
			switch m := pk.Members[n].(type) {
			case *ssa.Function:
				addAnon(m)
			case *ssa.Type:
				if nt, ok := m.Type().(*types.Named); ok {
					for i := 0; i < nt.NumMethods(); i++ {
						if fn := p.SSA.FuncValue(nt.Method(i)); fn != nil {
							addAnon(fn)
						}
					}
				}
			}
		}
	}
	for _, fn := range all {
		if fn.Blocks == nil || fn.Synthetic != "" || fn.Parent() != nil || fn.TypeParams() != nil || len(fn.TypeArgs()) > 0 {
			continue
		}
		if token.IsExported(fn.Name()) || fn.Name() == "init" || fn.Name() == "main" || strings.HasPrefix(fn.Name(), "init#") {
			continue
		}
		if pinned(fn) {
			continue
		}
		il.cand[fn] = true
	}
	for _, fn := range all {
		if fn.Blocks != nil && fn.Synthetic == "" && len(il.cand) > 0 {
			il.process(fn)
		}
	}
	// named conditions: `x := a || b; if x { … }` is given the control flow of `if a || b { … }` everywhere (the phi of
	// constants that go/ssa builds for the variable is threaded edge by edge), so that naming a condition is not a change
	for _, fn := range append(append([]*ssa.Function{}, all...), il.literals...) {
		if fn.Blocks == nil || fn.Synthetic != "" || il.dead[fn] {
			continue
		}
		n := 0
		il.namedConds = true
		for il.threadOne(fn) {
			il.finish(fn)
			n++
			il.nNamed++
		}
		il.namedConds = false
		if n > 0 {
			for il.foldConstIf(fn) || il.fuseOne(fn) {
				il.finish(fn)
			}
			var buf bytes.Buffer
			if !ssaSanityCheck(fn, &buf) {
				il.errs = append(il.errs, fmt.Sprintf("%s: %s", fnName(fn), strings.TrimSpace(buf.String())))
			}
		}
	}
	if len(il.cand) == 0 {
		return il
	}
	// a helper every call of which was inlined, and that nothing else refers to, is no longer part of the program
	refs := map[*ssa.Function]int{}
	for _, fn := range all {
		if fn.Blocks == nil {
			continue
		}
		var rands []*ssa.Value
		for _, b := range fn.Blocks {
			for _, in := range b.Instrs {
				rands = in.Operands(rands[:0])
				for _, r := range rands {
					if f, ok := (*r).(*ssa.Function); ok && f != fn {
						refs[f]++
					}
				}
			}
		}
	}
	for fn := range il.inlined {
		if refs[fn] == 0 && !il.dynamicallyCallable(fn) {
			il.dead[fn] = true
		}
	}
	// references from dead helpers do not keep other helpers alive
	for changed := true; changed; {
		changed = false
		for fn := range il.inlined {
			if il.dead[fn] {
				continue
			}
			live := 0
			for _, g := range all {
				if g.Blocks == nil || il.dead[g] || g == fn {
					continue
				}
				if top := topLevel(g); top != g && il.dead[top] {
					continue
				}
				eachInstr(g, func(in ssa.Instruction) {
					var rands []*ssa.Value
					for _, r := range in.Operands(rands) {
						if *r == ssa.Value(fn) {
							live++
						}
					}
				})
			}
			if live == 0 && !il.dynamicallyCallable(fn) {
				il.dead[fn] = true
				changed = true
			}
		}
	}
	return il
}

// dynamicallyCallable: the method could be reached through an interface of the package (it has the name of a method of
// some in-package interface type), so it stays even with no static reference.
func (il *inliner) dynamicallyCallable(fn *ssa.Function) bool {
	if fn.Signature.Recv() == nil {
		return false
	}
	for _, pk := range []*ssa.Package{il.p.Lime, il.p.Chat} {
		for _, m := range pk.Members {
			t, ok := m.(*ssa.Type)
			if !ok {
				continue
			}
			it, ok := t.Type().Underlying().(*types.Interface)
			if !ok {
				continue
			}
			for i := 0; i < it.NumMethods(); i++ {
				if it.Method(i).Name() == fn.Name() {
					return true
				}
			}
		}
	}
	return false
}

func (il *inliner) inlinable(c *ssa.Function) bool {
	if !il.cand[c] || len(c.FreeVars) > 0 {
		return false
	}
	return il.bodyInlinable(c)
}

func (il *inliner) bodyInlinable(c *ssa.Function) bool {
	if len(c.Blocks) == 0 || len(c.Blocks[0].Preds) > 0 {
		return false
	}
	// defers: each must dominate every RunDefers and not sit in a cycle
	var defers, runs []ssa.Instruction
	eachInstr(c, func(in ssa.Instruction) {
		switch in.(type) {
		case *ssa.Defer:
			defers = append(defers, in)
		case *ssa.RunDefers:
			runs = append(runs, in)
		}
	})
	for _, d := range defers {
		if d.(*ssa.Defer).DeferStack != nil {
			return false
		}
		if dc := d.(*ssa.Defer).Call.StaticCallee(); dc != nil && callsRecover(dc) {
			return false
		}
		if blockInCycle(d.Block()) {
			return false
		}
		for _, r := range runs {
			// at each return the defer has either certainly run or certainly not
			if !d.Block().Dominates(r.Block()) && blockReaches(d.Block(), r.Block()) {
				return false
			}
		}
	}
	return true
}

func callsRecover(fn *ssa.Function) bool {
	found := false
	eachInstr(fn, func(in ssa.Instruction) {
		if c, ok := in.(ssa.CallInstruction); ok {
			if b, ok := c.Common().Value.(*ssa.Builtin); ok && b.Name() == "recover" {
				found = true
			}
		}
	})
	return found
}

func blockReaches(from, to *ssa.BasicBlock) bool {
	seen := map[*ssa.BasicBlock]bool{}
	st := []*ssa.BasicBlock{from}
	for len(st) > 0 {
		x := st[len(st)-1]
		st = st[:len(st)-1]
		if x == to {
			return true
		}
		if seen[x] {
			continue
		}
		seen[x] = true
		st = append(st, x.Succs...)
	}
	return false
}

func blockInCycle(b *ssa.BasicBlock) bool {
	seen := map[*ssa.BasicBlock]bool{}
	var st []*ssa.BasicBlock
	st = append(st, b.Succs...)
	for len(st) > 0 {
		x := st[len(st)-1]
		st = st[:len(st)-1]
		if x == b {
			return true
		}
		if seen[x] {
			continue
		}
		seen[x] = true
		st = append(st, x.Succs...)
	}
	return false
}

func (il *inliner) process(fn *ssa.Function) {
	if il.state[fn] != 0 {
		return
	}
	il.state[fn] = 1
	defer func() { il.state[fn] = 2 }()
	for round := 0; round < 400; round++ {
		var target *ssa.Call
		var callee *ssa.Function
	scan:
		for _, b := range fn.Blocks {
			for _, in := range b.Instrs {
				call, ok := in.(*ssa.Call)
				if !ok || il.skipped[in] {
					continue
				}
				c := call.Call.StaticCallee()
				if c == nil || !il.cand[c] {
					continue
				}
				if il.state[c] == 1 { // recursion
					il.skipped[in] = true
					continue
				}
				il.process(c)
				if !il.inlinable(c) {
					il.skipped[in] = true
					il.Log = append(il.Log, fmt.Sprintf("%s: call of %s kept (recover, conditional defer or closure variables)", fnName(fn), fnName(c)))
					continue
				}
				target, callee = call, c
				break scan
			}
		}
		if target == nil {
			if il.closureifyOne(fn) {
				il.changed[fn] = true
				continue
			}
		}
		if target != nil {
			il.inlineCall(fn, target, callee)
			il.inlined[callee]++
			il.nCalls++
			il.changed[fn] = true
			il.Log = append(il.Log, fmt.Sprintf("%s ← %s", fnName(fn), fnName(callee)))
			continue
		}
		if il.changed[fn] && il.devirtualize(fn) {
			continue
		}
		if il.changed[fn] && il.inlineLiteralCall(fn) {
			continue
		}
		break
	}
	if !il.changed[fn] {
		return
	}
	il.finish(fn)
	for il.liftAlloc(fn) {
		il.finish(fn)
	}
	for il.fuseOne(fn) {
		il.finish(fn)
	}
	for il.threadOne(fn) || il.foldConstIf(fn) || il.fuseOne(fn) {
		il.nThread++
		il.finish(fn)
	}
	for il.elideStructCopy(fn) {
		il.finish(fn)
	}
	for il.liftAlloc(fn) {
		il.finish(fn)
	}
	for il.threadOne(fn) || il.foldConstIf(fn) || il.fuseOne(fn) {
		il.nThread++
		il.finish(fn)
	}
	for il.splitReturn(fn) {
		il.finish(fn)
	}
	if d := os.Getenv("LIMECHECK_DUMPFN"); d != "" && strings.Contains(fn.String(), d) {
		fn.WriteTo(os.Stderr)
	}
	var buf bytes.Buffer
	if !ssaSanityCheck(fn, &buf) {
		il.errs = append(il.errs, fmt.Sprintf("%s: %s", fnName(fn), strings.TrimSpace(buf.String())))
	}
}

func newBlock(fn *ssa.Function, comment string) *ssa.BasicBlock {
	b := &ssa.BasicBlock{Comment: comment}
	setBlockParent(b, fn)
	inlBlocks[b] = true
	return b
}

// inlBlocks: blocks made by the normalisation (copies of a helper's blocks, continuations, threaded edges).
var inlBlocks = map[*ssa.BasicBlock]bool{}

// fuseOne merges a block made by the normalisation into its only predecessor when that predecessor only jumps to it.
func (il *inliner) fuseOne(fn *ssa.Function) bool {
	for _, a := range fn.Blocks {
		if len(a.Succs) != 1 || len(a.Instrs) == 0 {
			continue
		}
		b := a.Succs[0]
		if b == a || len(b.Preds) != 1 || b == fn.Recover || b == fn.Blocks[0] || !(inlBlocks[a] || inlBlocks[b]) {
			continue
		}
		if _, isJump := a.Instrs[len(a.Instrs)-1].(*ssa.Jump); !isJump {
			continue
		}
		if len(b.Instrs) > 0 {
			if _, isPhi := b.Instrs[0].(*ssa.Phi); isPhi {
				continue // finish() removes single-edge phis first
			}
		}
		a.Instrs = a.Instrs[:len(a.Instrs)-1]
		for _, in := range b.Instrs {
			appendInstr(a, in)
		}
		a.Succs = b.Succs
		for _, s := range a.Succs {
			replacePred(s, b, a)
		}
		if inlBlocks[b] {
			inlBlocks[a] = true
		}
		b.Instrs, b.Succs, b.Preds = nil, nil, nil
		var blocks []*ssa.BasicBlock
		for _, x := range fn.Blocks {
			if x != b {
				blocks = append(blocks, x)
			}
		}
		fn.Blocks = blocks
		return true
	}
	return false
}

func appendInstr(b *ssa.BasicBlock, in ssa.Instruction) {
	setInstrBlock(in, b)
	b.Instrs = append(b.Instrs, in)
}

func replacePred(s *ssa.BasicBlock, from, to *ssa.BasicBlock) {
	for i, pr := range s.Preds {
		if pr == from {
			s.Preds[i] = to
		}
	}
}

// replaceUses rewrites every operand of fn equal to from.
func replaceUses(fn *ssa.Function, from, to ssa.Value) {
	var rands []*ssa.Value
	for _, b := range fn.Blocks {
		for _, in := range b.Instrs {
			rands = in.Operands(rands[:0])
			for _, r := range rands {
				if *r == from {
					*r = to
				}
			}
		}
	}
	for _, a := range fn.AnonFuncs {
		_ = a // closures capture through MakeClosure bindings, which are operands of instructions of fn
	}
}

func (il *inliner) inlineCall(g *ssa.Function, call *ssa.Call, c *ssa.Function) {
	B := call.Block()
	idx := -1
	for i, in := range B.Instrs {
		if in == ssa.Instruction(call) {
			idx = i
		}
	}
	// continuation
	B2 := newBlock(g, "inl.cont:"+c.Name())
	for _, in := range B.Instrs[idx+1:] {
		appendInstr(B2, in)
	}
	B2.Succs = B.Succs
	for _, s := range B2.Succs {
		replacePred(s, B, B2)
	}
	B.Instrs = append([]ssa.Instruction(nil), B.Instrs[:idx]...)
	B.Succs = nil

	// clone the callee
	bm := map[*ssa.BasicBlock]*ssa.BasicBlock{}
	vm := map[ssa.Value]ssa.Value{}
	for i, prm := range c.Params {
		vm[prm] = call.Call.Args[i]
	}
	if mc, ok := call.Call.Value.(*ssa.MakeClosure); ok && mc.Fn == ssa.Value(c) {
		// a function literal called where it was made: its free variables are the bindings
		for i, fv := range c.FreeVars {
			vm[fv] = mc.Bindings[i]
		}
	}
	var clones []*ssa.BasicBlock
	var cblocks []*ssa.BasicBlock // the callee's blocks reachable from its entry (not its recover block)
	{
		seen := map[*ssa.BasicBlock]bool{}
		var walk func(b *ssa.BasicBlock)
		walk = func(b *ssa.BasicBlock) {
			if seen[b] {
				return
			}
			seen[b] = true
			for _, s := range b.Succs {
				walk(s)
			}
		}
		walk(c.Blocks[0])
		for _, b := range c.Blocks {
			if seen[b] {
				cblocks = append(cblocks, b)
			}
		}
	}
	for _, cb := range cblocks {
		nb := newBlock(g, cb.Comment+"·"+c.Name())
		bm[cb] = nb
		clones = append(clones, nb)
	}
	type ret struct {
		b   *ssa.BasicBlock
		res []ssa.Value
	}
	var rets []ret
	var defers []*ssa.Defer // clones, in program order
	deferBlock := map[*ssa.Defer]*ssa.BasicBlock{}
	for _, cb := range cblocks {
		nb := bm[cb]
		for _, in := range cb.Instrs {
			ni := cloneInstr(in)
			if v, ok := in.(ssa.Value); ok {
				vm[v] = ni.(ssa.Value)
			}
			if d, ok := ni.(*ssa.Defer); ok {
				defers = append(defers, d)
				deferBlock[d] = cb
				setInstrBlock(d, nb)
				continue
			}
			appendInstr(nb, ni)
			if a, ok := ni.(*ssa.Alloc); ok {
				il.inlAllocs[a] = true
				if !a.Heap {
					g.Locals = append(g.Locals, a)
				}
			}
		}
		for _, s := range cb.Succs {
			nb.Succs = append(nb.Succs, bm[s])
		}
		for _, pr := range cb.Preds {
			nb.Preds = append(nb.Preds, bm[pr])
		}
	}
	remap := func(in ssa.Instruction) {
		var rands []*ssa.Value
		for _, r := range in.Operands(rands) {
			if nv, ok := vm[*r]; ok {
				*r = nv
			}
		}
	}
	for _, nb := range clones {
		for _, in := range nb.Instrs {
			remap(in)
		}
	}
	for _, d := range defers {
		remap(d)
	}
	il.reparentLiterals(g, c, clones)
	for _, d := range defers {
		var rands []*ssa.Value
		for _, r := range d.Operands(rands) {
			if f, ok := (*r).(*ssa.Function); ok && f.Parent() == c {
				*r = il.cloneFn(g, f, false)
			}
		}
	}
	// deferred calls run where the callee ran its defers
	for _, cb := range cblocks {
		nb := bm[cb]
		var out []ssa.Instruction
		for _, in := range nb.Instrs {
			if _, ok := in.(*ssa.RunDefers); ok {
				for k := len(defers) - 1; k >= 0; k-- {
					d := defers[k]
					if !deferBlock[d].Dominates(cb) {
						continue
					}
					nc := &ssa.Call{Call: d.Call}
					nc.Call.Args = append([]ssa.Value(nil), d.Call.Args...)
					var rt types.Type = types.NewTuple()
					if sig, ok := d.Call.Value.Type().Underlying().(*types.Signature); ok && !d.Call.IsInvoke() {
						rt = resultType(sig)
					} else if d.Call.IsInvoke() {
						rt = resultType(d.Call.Method.Type().(*types.Signature))
					}
					setRegType(nc, rt)
					setRegPos(nc, d.Pos())
					setInstrBlock(nc, nb)
					out = append(out, nc)
				}
				continue
			}
			out = append(out, in)
		}
		nb.Instrs = out
	}
	// returns become jumps to the continuation
	for _, nb := range clones {
		if len(nb.Instrs) == 0 {
			continue
		}
		if r, ok := nb.Instrs[len(nb.Instrs)-1].(*ssa.Return); ok {
			rets = append(rets, ret{nb, r.Results})
			j := &ssa.Jump{}
			setInstrBlock(j, nb)
			nb.Instrs[len(nb.Instrs)-1] = j
			nb.Succs = []*ssa.BasicBlock{B2}
			B2.Preds = append(B2.Preds, nb)
		}
	}
	j := &ssa.Jump{}
	appendInstr(B, j)
	B.Succs = []*ssa.BasicBlock{clones[0]}
	clones[0].Preds = []*ssa.BasicBlock{B}

	// splice the blocks in after B
	var blocks []*ssa.BasicBlock
	for _, b := range g.Blocks {
		blocks = append(blocks, b)
		if b == B {
			blocks = append(blocks, clones...)
			blocks = append(blocks, B2)
		}
	}
	g.Blocks = blocks
	for i, b := range g.Blocks {
		b.Index = i
	}

	// results
	nres := c.Signature.Results().Len()
	var pending []ssa.Instruction
	memo := map[int]ssa.Value{}
	var result func(k int) ssa.Value
	result = func(k int) (out ssa.Value) {
		if v, ok := memo[k]; ok {
			return v
		}
		defer func() { memo[k] = out }()
		if len(rets) == 0 {
			return nil
		}
		if len(rets) == 1 {
			return rets[0].res[k]
		}
		same := true
		for _, r := range rets {
			if r.res[k] != rets[0].res[k] {
				same = false
			}
		}
		if same {
			if _, isInstr := rets[0].res[k].(ssa.Instruction); !isInstr {
				return rets[0].res[k]
			}
		}
		phi := &ssa.Phi{Comment: c.Name()}
		for _, r := range rets {
			phi.Edges = append(phi.Edges, r.res[k])
		}
		setRegType(phi, c.Signature.Results().At(k).Type())
		setRegPos(phi, call.Pos())
		setInstrBlock(phi, B2)
		pending = append(pending, phi)
		il.contPhis[phi] = true
		return phi
	}
	switch {
	case nres == 1:
		if v := result(0); v != nil {
			replaceUses(g, call, v)
		}
	case nres > 1:
		for _, b := range g.Blocks {
			var out []ssa.Instruction
			for _, in := range b.Instrs {
				if ex, ok := in.(*ssa.Extract); ok && ex.Tuple == ssa.Value(call) {
					if v := result(ex.Index); v != nil {
						replaceUses(g, ex, v)
						continue
					}
				}
				out = append(out, in)
			}
			b.Instrs = out
		}
	}
	if len(pending) > 0 {
		n := 0
		for n < len(B2.Instrs) {
			if _, ok := B2.Instrs[n].(*ssa.Phi); !ok {
				break
			}
			n++
		}
		B2.Instrs = append(B2.Instrs[:n:n], append(pending, B2.Instrs[n:]...)...)
	}
}

func resultType(sig *types.Signature) types.Type {
	switch sig.Results().Len() {
	case 0:
		return types.NewTuple()
	case 1:
		return sig.Results().At(0).Type()
	}
	return sig.Results()
}

// devirtualize turns x.m() into T.m(x') where x = MakeInterface(x' of concrete type T).
func (il *inliner) devirtualize(fn *ssa.Function) bool {
	did := false
	eachInstr(fn, func(in ssa.Instruction) {
		ci, ok := in.(ssa.CallInstruction)
		if !ok {
			return
		}
		cc := ci.Common()
		if !cc.IsInvoke() {
			return
		}
		mi, ok := cc.Value.(*ssa.MakeInterface)
		if !ok {
			return
		}
		T := mi.X.Type()
		m := il.p.SSA.LookupMethod(T, cc.Method.Pkg(), cc.Method.Name())
		if m == nil || m.Synthetic != "" || m.Blocks == nil {
			return
		}
		if len(m.Params) == 0 || !types.Identical(m.Params[0].Type(), T) {
			return
		}
		cc.Args = append([]ssa.Value{mi.X}, cc.Args...)
		cc.Value = m
		cc.Method = nil
		did = true
		il.nDevirt++
	})
	return did
}

// finish brings fn back to a consistent state: unreachable blocks and trivial phis removed, blocks renumbered,
// dominator tree, referrers and register numbers rebuilt.
func (il *inliner) finish(fn *ssa.Function) {
	for {
		reach := map[*ssa.BasicBlock]bool{}
		var walk func(b *ssa.BasicBlock)
		walk = func(b *ssa.BasicBlock) {
			if reach[b] {
				return
			}
			reach[b] = true
			for _, s := range b.Succs {
				walk(s)
			}
		}
		walk(fn.Blocks[0])
		if fn.Recover != nil {
			walk(fn.Recover)
		}
		var keep []*ssa.BasicBlock
		for _, b := range fn.Blocks {
			if reach[b] {
				keep = append(keep, b)
				continue
			}
			for _, s := range b.Succs {
				if reach[s] {
					removePredEdge(s, b)
				}
			}
		}
		fn.Blocks = keep
		// trivial phis
		again := false
		for _, b := range fn.Blocks {
			var out []ssa.Instruction
			for _, in := range b.Instrs {
				if phi, ok := in.(*ssa.Phi); ok {
					var only ssa.Value
					trivial := true
					for _, e := range phi.Edges {
						if e == ssa.Value(phi) {
							continue
						}
						if only == nil {
							only = e
						} else if only != e {
							trivial = false
						}
					}
					if trivial && only != nil {
						replaceUses(fn, phi, only)
						again = true
						continue
					}
				}
				out = append(out, in)
			}
			b.Instrs = out
		}
		if !again {
			break
		}
	}
	for i, b := range fn.Blocks {
		b.Index = i
	}
	// locals that disappeared with unreachable blocks
	var locals []*ssa.Alloc
	for _, l := range fn.Locals {
		if l.Block() != nil && l.Block().Index < len(fn.Blocks) && fn.Blocks[l.Block().Index] == l.Block() {
			present := false
			for _, in := range l.Block().Instrs {
				if in == ssa.Instruction(l) {
					present = true
				}
			}
			if present {
				locals = append(locals, l)
			}
		}
	}
	fn.Locals = locals
	ssaBuildDomTree(fn)
	// referrers
	clear := func(v ssa.Value) {
		if r := v.Referrers(); r != nil {
			*r = nil
		}
	}
	for _, prm := range fn.Params {
		clear(prm)
	}
	for _, fv := range fn.FreeVars {
		clear(fv)
	}
	for _, b := range fn.Blocks {
		for _, in := range b.Instrs {
			if v, ok := in.(ssa.Value); ok {
				clear(v)
			}
		}
	}
	var rands []*ssa.Value
	for _, b := range fn.Blocks {
		for _, in := range b.Instrs {
			rands = in.Operands(rands[:0])
			for _, r := range rands {
				if *r == nil {
					continue
				}
				if ref := (*r).Referrers(); ref != nil {
					*ref = append(*ref, in)
				}
			}
		}
	}
	ssaNumberRegisters(fn)
}

// removePredEdge removes every edge pred→s together with the matching phi operands.
func removePredEdge(s, pred *ssa.BasicBlock) {
	for i := 0; i < len(s.Preds); {
		if s.Preds[i] != pred {
			i++
			continue
		}
		s.Preds = append(s.Preds[:i:i], s.Preds[i+1:]...)
		for _, in := range s.Instrs {
			phi, ok := in.(*ssa.Phi)
			if !ok {
				break
			}
			phi.Edges = append(phi.Edges[:i:i], phi.Edges[i+1:]...)
		}
	}
}

// ---- threading of constant results

// knownNonNilValue: a value that cannot be nil whatever the inputs.
func knownNonNilValue(v ssa.Value) bool {
	switch v := v.(type) {
	case *ssa.Alloc, *ssa.MakeInterface, *ssa.MakeClosure, *ssa.MakeMap, *ssa.MakeChan, *ssa.MakeSlice, *ssa.FieldAddr, *ssa.IndexAddr, *ssa.Function, *ssa.Global:
		return true
	case *ssa.ChangeInterface:
		return knownNonNilValue(v.X)
	case *ssa.ChangeType:
		return knownNonNilValue(v.X)
	case *ssa.Call:
		if ctxErrAfterDone(v) {
			return true
		}
		// errors.New / fmt.Errorf never return nil
		if f := v.Call.StaticCallee(); f != nil && f.Pkg != nil {
			switch f.Pkg.Pkg.Path() + "." + f.Name() {
			case "errors.New", "fmt.Errorf":
				return true
			}
		}
	}
	return false
}

// ctxErrAfterDone: v is ctx.Err() evaluated on the arm `case <-ctx.Done():` of a select on the same context — non-nil by
// the contract of context.Context (Err returns a non-nil error once Done is closed).
func ctxErrAfterDone(v *ssa.Call) bool {
	if !v.Call.IsInvoke() || v.Call.Method.Name() != "Err" || v.Block() == nil {
		return false
	}
	ctx := v.Call.Value
	for x := v.Block(); x != nil; x = x.Idom() {
		d := x.Idom()
		if d == nil || len(x.Preds) != 1 || x.Preds[0] != d || len(d.Instrs) == 0 {
			continue
		}
		ifi, ok := d.Instrs[len(d.Instrs)-1].(*ssa.If)
		if !ok || d.Succs[0] != x || d.Succs[0] == d.Succs[1] {
			continue
		}
		bo, ok := ifi.Cond.(*ssa.BinOp)
		if !ok || bo.Op != token.EQL {
			continue
		}
		ex, ok := bo.X.(*ssa.Extract)
		if !ok || ex.Index != 0 {
			continue
		}
		sel, ok := ex.Tuple.(*ssa.Select)
		kc, ok2 := bo.Y.(*ssa.Const)
		if !ok || !ok2 || kc.Value == nil {
			continue
		}
		k, exact := constant.Int64Val(kc.Value)
		if !exact || int(k) >= len(sel.States) {
			continue
		}
		st := sel.States[k]
		if dc, ok := st.Chan.(*ssa.Call); ok && st.Dir == types.RecvOnly && dc.Call.IsInvoke() && dc.Call.Method.Name() == "Done" && dc.Call.Value == ctx {
			return true
		}
	}
	return false
}

// evalOnEdge evaluates a condition of block M for the values its phis take on edge i: 1 true, 0 false, -1 unknown.
// guardedNonNil: every path to the end of block P has passed the true edge of `v != nil` (or the false edge of `v == nil`).
func guardedNonNil(v ssa.Value, P *ssa.BasicBlock) bool {
	for x := P; x != nil; x = x.Idom() {
		d := x.Idom()
		if d == nil || len(x.Preds) != 1 || x.Preds[0] != d || len(d.Instrs) == 0 {
			continue
		}
		ifi, ok := d.Instrs[len(d.Instrs)-1].(*ssa.If)
		if !ok || d.Succs[0] == d.Succs[1] {
			continue
		}
		bo, ok := ifi.Cond.(*ssa.BinOp)
		if !ok {
			continue
		}
		var other ssa.Value
		if bo.X == v {
			other = bo.Y
		} else if bo.Y == v {
			other = bo.X
		} else {
			continue
		}
		if c, ok := other.(*ssa.Const); !ok || !c.IsNil() {
			continue
		}
		if bo.Op == token.NEQ && d.Succs[0] == x || bo.Op == token.EQL && d.Succs[1] == x {
			return true
		}
	}
	return false
}

func evalOnEdge(M *ssa.BasicBlock, v ssa.Value, i int) int {
	val := func(x ssa.Value) ssa.Value {
		if phi, ok := x.(*ssa.Phi); ok && phi.Block() == M {
			return phi.Edges[i]
		}
		return x
	}
	switch v := v.(type) {
	case *ssa.Phi:
		if v.Block() != M {
			return -1
		}
		if c, ok := v.Edges[i].(*ssa.Const); ok && c.Value != nil && c.Value.Kind() == constant.Bool {
			if constant.BoolVal(c.Value) {
				return 1
			}
			return 0
		}
	case *ssa.Const:
		if v.Value != nil && v.Value.Kind() == constant.Bool {
			if constant.BoolVal(v.Value) {
				return 1
			}
			return 0
		}
	case *ssa.UnOp:
		if v.Op == token.NOT && v.Block() == M {
			if r := evalOnEdge(M, v.X, i); r >= 0 {
				return 1 - r
			}
		}
	case *ssa.BinOp:
		if v.Block() != M || (v.Op != token.EQL && v.Op != token.NEQ) {
			return -1
		}
		x, y := val(v.X), val(v.Y)
		eq := -1
		cx, xc := x.(*ssa.Const)
		cy, yc := y.(*ssa.Const)
		switch {
		case xc && yc:
			if cx.IsNil() && cy.IsNil() {
				eq = 1
			} else if cx.Value != nil && cy.Value != nil {
				if constant.Compare(cx.Value, token.EQL, cy.Value) {
					eq = 1
				} else {
					eq = 0
				}
			}
		case yc && cy.IsNil() && (knownNonNilValue(x) || guardedNonNil(x, M.Preds[i])):
			eq = 0
		case xc && cx.IsNil() && (knownNonNilValue(y) || guardedNonNil(y, M.Preds[i])):
			eq = 0
		}
		if eq < 0 {
			return -1
		}
		if v.Op == token.NEQ {
			return 1 - eq
		}
		return eq
	}
	return -1
}

// threadOne finds one (merge block, incoming edge) whose branch outcome is decided by the constants an inlined helper
// returned on that edge, and redirects the edge to the branch target. Values of the merge block's phis that are used
// further on are re-established with freshly placed phis.
func (il *inliner) threadOne(fn *ssa.Function) bool {
	for _, M := range fn.Blocks {
		if len(M.Preds) < 2 || len(M.Instrs) == 0 {
			continue
		}
		ifi, ok := M.Instrs[len(M.Instrs)-1].(*ssa.If)
		if !ok {
			continue
		}
		var phis []*ssa.Phi
		pure := true
		hasCont := false
		for _, in := range M.Instrs[:len(M.Instrs)-1] {
			switch x := in.(type) {
			case *ssa.Phi:
				phis = append(phis, x)
				if il.contPhis[x] {
					hasCont = true
				}
			case *ssa.BinOp, *ssa.UnOp:
				v := in.(ssa.Value)
				if u, isU := in.(*ssa.UnOp); isU && u.Op != token.NOT {
					pure = false
				}
				for _, r := range *v.Referrers() {
					if r.Block() != M {
						pure = false
					}
				}
			default:
				pure = false
			}
		}
		if !pure || !(hasCont || inlBlocks[M] || il.namedConds) || len(phis) == 0 {
			continue
		}
		for i, P := range M.Preds {
			r := evalOnEdge(M, ifi.Cond, i)
			if r < 0 {
				continue
			}
			if il.namedConds && !(hasCont || inlBlocks[M]) {
				// outside inlined code only the short-circuit constants of a named condition are threaded
				allBool := true
				for _, ph := range phis {
					if b, ok := ph.Type().Underlying().(*types.Basic); !ok || b.Kind() != types.Bool {
						allBool = false
					}
				}
				if !allBool {
					continue
				}
			}
			T := M.Succs[0]
			if r == 0 {
				T = M.Succs[1]
			}
			if T == M || P == M {
				continue
			}
			nM := 0
			for _, sc := range P.Succs {
				if sc == M {
					nM++
				}
			}
			if nM != 1 {
				continue
			}
			il.thread(fn, M, i, P, T, phis)
			return true
		}
	}
	return false
}

func (il *inliner) thread(fn *ssa.Function, M *ssa.BasicBlock, i int, P, T *ssa.BasicBlock, phis []*ssa.Phi) {
	edgeVal := map[*ssa.Phi]ssa.Value{}
	for _, phi := range phis {
		edgeVal[phi] = phi.Edges[i]
	}
	Mi := newBlock(fn, "inl.thread")
	j := &ssa.Jump{}
	appendInstr(Mi, j)
	Mi.Preds = []*ssa.BasicBlock{P}
	Mi.Succs = []*ssa.BasicBlock{T}
	for k, s := range P.Succs {
		if s == M {
			P.Succs[k] = Mi
		}
	}
	// T gets the new predecessor; its phis take, on that edge, what they took from M
	mIdx := -1
	for k, pr := range T.Preds {
		if pr == M {
			mIdx = k
		}
	}
	T.Preds = append(T.Preds, Mi)
	for _, in := range T.Instrs {
		tp, ok := in.(*ssa.Phi)
		if !ok {
			break
		}
		v := tp.Edges[mIdx]
		if ph, ok := v.(*ssa.Phi); ok {
			if ev, ok := edgeVal[ph]; ok {
				v = ev
			}
		}
		tp.Edges = append(tp.Edges, v)
	}
	// M loses the edge
	M.Preds = append(M.Preds[:i:i], M.Preds[i+1:]...)
	for _, phi := range phis {
		phi.Edges = append(phi.Edges[:i:i], phi.Edges[i+1:]...)
	}
	var blocks []*ssa.BasicBlock
	for _, b := range fn.Blocks {
		blocks = append(blocks, b)
		if b == P {
			blocks = append(blocks, Mi)
		}
	}
	fn.Blocks = blocks
	for k, b := range fn.Blocks {
		b.Index = k
	}
	// SSA repair for the phis of M used outside M
	for _, phi := range phis {
		type use struct {
			in   ssa.Instruction
			rand *ssa.Value
			at   *ssa.BasicBlock // block whose end the value must reach
		}
		var uses []use
		for _, b := range fn.Blocks {
			if b == M {
				continue
			}
			for _, in := range b.Instrs {
				var rands []*ssa.Value
				rands = in.Operands(rands)
				for k, r := range rands {
					if *r != ssa.Value(phi) {
						continue
					}
					at := b
					if _, ok := in.(*ssa.Phi); ok {
						at = b.Preds[k]
					}
					uses = append(uses, use{in, r, at})
				}
			}
		}
		if len(uses) == 0 {
			continue
		}
		def := map[*ssa.BasicBlock]ssa.Value{Mi: edgeVal[phi]}
		if len(M.Preds) > 0 {
			def[M] = phi
		}
		repl := map[ssa.Value]ssa.Value{}
		resolve := func(v ssa.Value) ssa.Value {
			for {
				nv, ok := repl[v]
				if !ok {
					return v
				}
				v = nv
			}
		}
		var created []*ssa.Phi
		var read func(b *ssa.BasicBlock) ssa.Value
		read = func(b *ssa.BasicBlock) ssa.Value {
			if v, ok := def[b]; ok {
				return resolve(v)
			}
			switch len(b.Preds) {
			case 0:
				return phi // unreachable in well-formed code
			case 1:
				v := read(b.Preds[0])
				def[b] = v
				return v
			}
			np := &ssa.Phi{Comment: phi.Comment}
			setRegType(np, phi.Type())
			setRegPos(np, phi.Pos())
			setInstrBlock(np, b)
			def[b] = np
			created = append(created, np)
			il.contPhis[np] = true
			for _, pr := range b.Preds {
				np.Edges = append(np.Edges, read(pr))
			}
			var only ssa.Value
			trivial := true
			for _, e := range np.Edges {
				e = resolve(e)
				if e == ssa.Value(np) {
					continue
				}
				if only == nil {
					only = e
				} else if only != e {
					trivial = false
				}
			}
			if trivial && only != nil {
				repl[np] = only
				return only
			}
			return np
		}
		for _, u := range uses {
			// a use in block b (not a phi) is reached by what is live at the start of b: read the block itself unless the
			// block defines the value (it does not: M is excluded) — reading b walks to its predecessors
			var v ssa.Value
			if _, isPhi := u.in.(*ssa.Phi); isPhi {
				v = read(u.at)
			} else {
				v = read(u.at)
			}
			*u.rand = resolve(v)
		}
		for _, np := range created {
			if _, gone := repl[np]; gone {
				continue
			}
			for k := range np.Edges {
				np.Edges[k] = resolve(np.Edges[k])
			}
			b := np.Block()
			b.Instrs = append([]ssa.Instruction{np}, b.Instrs...)
		}
		// operands anywhere that still mention a replaced phi
		for old := range repl {
			replaceUses(fn, old, resolve(old))
		}
	}
}

// elideStructCopy: a helper that returned a struct it built (`return T{...}`) leaves, once inlined, a temporary that is
// filled field by field, loaded whole and stored whole into the caller's variable. The temporary is merged into that
// variable so that the caller reads as if it had built the value itself.
func (il *inliner) elideStructCopy(fn *ssa.Function) bool {
	for _, b := range fn.Blocks {
		for _, in := range b.Instrs {
			tmp, ok := in.(*ssa.Alloc)
			if !ok || !il.inlAllocs[tmp] {
				continue
			}
			if _, isStruct := tmp.Type().(*types.Pointer).Elem().Underlying().(*types.Struct); !isStruct {
				continue
			}
			var load *ssa.UnOp
			good := true
			for _, r := range *tmp.Referrers() {
				switch r := r.(type) {
				case *ssa.FieldAddr:
				case *ssa.UnOp:
					if r.Op != token.MUL || load != nil {
						good = false
					}
					load = r
				default:
					good = false
				}
			}
			if !good || load == nil || len(*load.Referrers()) != 1 {
				continue
			}
			st, ok := (*load.Referrers())[0].(*ssa.Store)
			if !ok || st.Val != ssa.Value(load) {
				continue
			}
			var dst ssa.Value
			var dstIn ssa.Instruction
			switch d := st.Addr.(type) {
			case *ssa.Alloc:
				dst, dstIn = d, d
			case *ssa.FieldAddr:
				// a field of a variable being built (`T{Embedded: helper()}`): take the field's address as soon as the
				// variable exists, so that it is available where the temporary was filled
				if len(*d.Referrers()) != 1 {
					continue
				}
				if !instrDominates(d, tmp) {
					base, isAlloc := d.X.(*ssa.Alloc)
					if !isAlloc || !instrDominates(base, tmp) {
						continue
					}
					moveAfter(d, base)
				}
				dst, dstIn = d, d
			default:
				continue
			}
			if dst == ssa.Value(tmp) || !instrDominates(dstIn, tmp) {
				continue
			}
			for _, r := range *dst.Referrers() {
				if r != ssa.Instruction(st) && !instrDominates(st, r) {
					good = false
				}
			}
			// every field write of the temporary happens before the copy
			for _, r := range *tmp.Referrers() {
				if r != ssa.Instruction(load) && !instrDominates(r, load) {
					good = false
				}
			}
			if !good {
				continue
			}
			replaceUses(fn, tmp, dst)
			if da, isAlloc := dst.(*ssa.Alloc); isAlloc {
				il.inlAllocs[da] = true // now holds what the helper built: a candidate for field-wise promotion
			}
			drop := map[ssa.Instruction]bool{tmp: true, load: true, st: true}
			for _, bb := range fn.Blocks {
				var out []ssa.Instruction
				for _, x := range bb.Instrs {
					if !drop[x] {
						out = append(out, x)
					}
				}
				bb.Instrs = out
			}
			return true
		}
	}
	return false
}

// splitReturn: `return helper(...)` leaves, once the helper is inlined, one return block fed by a phi over the helper's
// own returns. The block is duplicated into each of them, which gives back one return per outcome.
func (il *inliner) splitReturn(fn *ssa.Function) bool {
	for _, M := range fn.Blocks {
		if len(M.Preds) < 2 || len(M.Succs) != 0 || len(M.Instrs) == 0 {
			continue
		}
		if _, ok := M.Instrs[len(M.Instrs)-1].(*ssa.Return); !ok {
			continue
		}
		var phis []*ssa.Phi
		var body []ssa.Instruction
		ok, hasCont := true, false
		for _, in := range M.Instrs {
			switch x := in.(type) {
			case *ssa.Phi:
				phis = append(phis, x)
				if il.contPhis[x] {
					hasCont = true
				}
				continue
			case *ssa.BinOp, *ssa.ChangeInterface, *ssa.MakeInterface, *ssa.ChangeType, *ssa.Convert, *ssa.Extract, *ssa.FieldAddr, *ssa.RunDefers, *ssa.Return:
			case *ssa.UnOp:
				if x.Op == token.ARROW {
					ok = false
				}
			default:
				ok = false
			}
			body = append(body, in)
		}
		if !ok || !hasCont || len(body) > 8 {
			continue
		}
		did := false
		for i := len(M.Preds) - 1; i >= 0; i-- {
			P := M.Preds[i]
			if _, isJump := P.Instrs[len(P.Instrs)-1].(*ssa.Jump); !isJump || P == M {
				continue
			}
			vm := map[ssa.Value]ssa.Value{}
			for _, phi := range phis {
				vm[phi] = phi.Edges[i]
			}
			P.Instrs = P.Instrs[:len(P.Instrs)-1]
			for _, in := range body {
				ni := cloneInstr(in)
				var rands []*ssa.Value
				for _, r := range ni.Operands(rands) {
					if nv, ok := vm[*r]; ok {
						*r = nv
					}
				}
				if v, ok := in.(ssa.Value); ok {
					vm[v] = ni.(ssa.Value)
				}
				appendInstr(P, ni)
			}
			P.Succs = nil
			M.Preds = append(M.Preds[:i:i], M.Preds[i+1:]...)
			for _, phi := range phis {
				phi.Edges = append(phi.Edges[:i:i], phi.Edges[i+1:]...)
			}
			did = true
		}
		if did {
			return true
		}
	}
	return false
}

// foldConstIf: a branch whose condition became a constant (a helper's only remaining result was nil, say) is replaced by a jump.
func (il *inliner) foldConstIf(fn *ssa.Function) bool {
	for _, b := range fn.Blocks {
		if len(b.Instrs) == 0 {
			continue
		}
		ifi, ok := b.Instrs[len(b.Instrs)-1].(*ssa.If)
		if !ok || b.Succs[0] == b.Succs[1] {
			continue
		}
		r := evalConstCond(ifi.Cond)
		if r < 0 {
			continue
		}
		keep, drop := b.Succs[0], b.Succs[1]
		if r == 0 {
			keep, drop = drop, keep
		}
		removePredEdge(drop, b)
		j := &ssa.Jump{}
		setInstrBlock(j, b)
		b.Instrs[len(b.Instrs)-1] = j
		b.Succs = []*ssa.BasicBlock{keep}
		return true
	}
	return false
}

func evalConstCond(v ssa.Value) int {
	switch v := v.(type) {
	case *ssa.Const:
		if v.Value != nil && v.Value.Kind() == constant.Bool {
			if constant.BoolVal(v.Value) {
				return 1
			}
			return 0
		}
	case *ssa.UnOp:
		if v.Op == token.NOT {
			if r := evalConstCond(v.X); r >= 0 {
				return 1 - r
			}
		}
	case *ssa.BinOp:
		if v.Op != token.EQL && v.Op != token.NEQ {
			return -1
		}
		cx, xc := v.X.(*ssa.Const)
		cy, yc := v.Y.(*ssa.Const)
		eq := -1
		switch {
		case xc && yc:
			if cx.IsNil() && cy.IsNil() {
				eq = 1
			} else if cx.Value != nil && cy.Value != nil && cx.Value.Kind() == cy.Value.Kind() {
				if constant.Compare(cx.Value, token.EQL, cy.Value) {
					eq = 1
				} else {
					eq = 0
				}
			}
		case yc && cy.IsNil() && knownNonNilValue(v.X), xc && cx.IsNil() && knownNonNilValue(v.Y):
			eq = 0
		}
		if eq < 0 {
			return -1
		}
		if v.Op == token.NEQ {
			return 1 - eq
		}
		return eq
	}
	return -1
}

func zeroValue(t types.Type) ssa.Value {
	if b, ok := t.Underlying().(*types.Basic); ok {
		switch {
		case b.Info()&types.IsBoolean != 0:
			return ssa.NewConst(constant.MakeBool(false), t)
		case b.Info()&types.IsString != 0:
			return ssa.NewConst(constant.MakeString(""), t)
		case b.Info()&types.IsNumeric != 0:
			return ssa.NewConst(constant.MakeInt64(0), t)
		}
	}
	return ssa.NewConst(nil, t)
}

// liftAlloc promotes to registers a local that came with an inlined body and is only loaded and stored (go/ssa keeps the
// result variables of a function with defers in memory; once the helper's defers run as plain calls they are ordinary
// locals). The values are re-established with the usual on-demand phi placement.
func (il *inliner) liftAlloc(fn *ssa.Function) bool {
	for _, b0 := range fn.Blocks {
		for _, in0 := range b0.Instrs {
			a, ok := in0.(*ssa.Alloc)
			if !ok || !il.inlAllocs[a] {
				continue
			}
			if !a.Heap && il.liftScalar(fn, a) {
				return true
			}
			if il.liftStruct(fn, a) {
				return true
			}
		}
	}
	return false
}

func (il *inliner) liftScalar(fn *ssa.Function, a *ssa.Alloc) bool {
	stores := map[ssa.Instruction]ssa.Value{}
	loads := map[ssa.Instruction]bool{}
	for _, r := range *a.Referrers() {
		switch r := r.(type) {
		case *ssa.Store:
			if r.Addr != ssa.Value(a) || r.Val == ssa.Value(a) {
				return false
			}
			stores[r] = r.Val
		case *ssa.UnOp:
			if r.Op != token.MUL {
				return false
			}
			loads[r] = true
		default:
			return false
		}
	}
	il.promote(fn, a, a.Type().(*types.Pointer).Elem(), stores, loads, a.Comment)
	dropInstrs(fn, map[ssa.Instruction]bool{a: true})
	dropLocal(fn, a)
	return true
}

// liftStruct: a struct that came with an inlined body (a parameter object, a small state type introduced by a
// refactoring) and never escapes — it is only accessed field by field — is replaced by one register per field.
func (il *inliner) liftStruct(fn *ssa.Function, a *ssa.Alloc) bool {
	st, ok := a.Type().(*types.Pointer).Elem().Underlying().(*types.Struct)
	if !ok {
		return false
	}
	type fieldUse struct {
		stores map[ssa.Instruction]ssa.Value
		loads  map[ssa.Instruction]bool
	}
	fields := map[int]*fieldUse{}
	drop := map[ssa.Instruction]bool{a: true}
	for _, r := range *a.Referrers() {
		fa, ok := r.(*ssa.FieldAddr)
		if !ok || fa.X != ssa.Value(a) {
			return false
		}
		drop[fa] = true
		fu := fields[fa.Field]
		if fu == nil {
			fu = &fieldUse{map[ssa.Instruction]ssa.Value{}, map[ssa.Instruction]bool{}}
			fields[fa.Field] = fu
		}
		for _, r2 := range *fa.Referrers() {
			switch x := r2.(type) {
			case *ssa.Store:
				if x.Addr != ssa.Value(fa) || x.Val == ssa.Value(fa) {
					return false
				}
				fu.stores[x] = x.Val
			case *ssa.UnOp:
				if x.Op != token.MUL {
					return false
				}
				fu.loads[x] = true
			default:
				return false // address of a field taken, sub-field access, call on it: the struct is not a plain record here
			}
		}
	}
	if len(fields) == 0 {
		return false
	}
	for k, fu := range fields {
		il.promote(fn, a, st.Field(k).Type(), fu.stores, fu.loads, a.Comment+"."+st.Field(k).Name())
	}
	dropInstrs(fn, drop)
	dropLocal(fn, a)
	return true
}

func dropInstrs(fn *ssa.Function, drop map[ssa.Instruction]bool) {
	for _, bb := range fn.Blocks {
		var out []ssa.Instruction
		for _, x := range bb.Instrs {
			if !drop[x] {
				out = append(out, x)
			}
		}
		bb.Instrs = out
	}
}

func dropLocal(fn *ssa.Function, a *ssa.Alloc) {
	var locals []*ssa.Alloc
	for _, l := range fn.Locals {
		if l != a {
			locals = append(locals, l)
		}
	}
	fn.Locals = locals
}

// promote replaces one memory variable — zero at the allocation `at`, written by the instructions of stores, read by the
// instructions of loads — by SSA values (on-demand phi placement, Braun et al.); the loads and stores are removed.
func (il *inliner) promote(fn *ssa.Function, at ssa.Instruction, T types.Type, stores map[ssa.Instruction]ssa.Value, loads map[ssa.Instruction]bool, comment string) {
	repl := map[ssa.Value]ssa.Value{}
	resolve := func(v ssa.Value) ssa.Value {
		for {
			nv, ok := repl[v]
			if !ok {
				return v
			}
			v = nv
		}
	}
	defEnd := map[*ssa.BasicBlock]ssa.Value{}
	defStart := map[*ssa.BasicBlock]ssa.Value{}
	type pend struct {
		load ssa.Value
		b    *ssa.BasicBlock
	}
	var pending []pend
	drop := map[ssa.Instruction]bool{}
	for _, b := range fn.Blocks {
		var cur ssa.Value
		for _, in := range b.Instrs {
			if in == at {
				cur = zeroValue(T)
			}
			if v, isStore := stores[in]; isStore {
				cur = v
				drop[in] = true
			}
			if loads[in] {
				drop[in] = true
				if cur != nil {
					repl[in.(ssa.Value)] = cur
				} else {
					pending = append(pending, pend{in.(ssa.Value), b})
				}
			}
		}
		if cur != nil {
			defEnd[b] = cur
		}
	}
	var created []*ssa.Phi
	var readStart, readEnd func(b *ssa.BasicBlock) ssa.Value
	readEnd = func(b *ssa.BasicBlock) ssa.Value {
		if v, ok := defEnd[b]; ok {
			return resolve(v)
		}
		v := readStart(b)
		defEnd[b] = v
		return v
	}
	readStart = func(b *ssa.BasicBlock) ssa.Value {
		if v, ok := defStart[b]; ok {
			return resolve(v)
		}
		switch len(b.Preds) {
		case 0:
			v := zeroValue(T)
			defStart[b] = v
			return v
		case 1:
			v := readEnd(b.Preds[0])
			defStart[b] = v
			return v
		}
		np := &ssa.Phi{Comment: comment}
		setRegType(np, T)
		setRegPos(np, at.Pos())
		setInstrBlock(np, b)
		defStart[b] = np
		created = append(created, np)
		il.contPhis[np] = true
		for _, pr := range b.Preds {
			np.Edges = append(np.Edges, readEnd(pr))
		}
		var only ssa.Value
		trivial := true
		for _, e := range np.Edges {
			e = resolve(e)
			if e == ssa.Value(np) {
				continue
			}
			if only == nil {
				only = e
			} else if only != e {
				trivial = false
			}
		}
		if trivial && only != nil {
			repl[np] = only
			return only
		}
		return np
	}
	for _, pd := range pending {
		repl[pd.load] = readStart(pd.b)
	}
	for _, np := range created {
		if _, gone := repl[np]; gone {
			continue
		}
		for k := range np.Edges {
			np.Edges[k] = resolve(np.Edges[k])
		}
		np.Block().Instrs = append([]ssa.Instruction{np}, np.Block().Instrs...)
	}
	dropInstrs(fn, drop)
	var rands []*ssa.Value
	for _, bb := range fn.Blocks {
		for _, x := range bb.Instrs {
			rands = x.Operands(rands[:0])
			for _, r := range rands {
				if *r != nil {
					if nv := resolve(*r); nv != *r {
						*r = nv
					}
				}
			}
		}
	}
}

// closureifyOne: `go c.helper(x)` and `defer c.helper(x)` with an unknown private helper become `go func() { … }()` /
// `defer func() { … }()` over a copy of the helper whose parameters are captured variables — the shape the goroutine and
// deferred-block rules are written for. The copy is a function literal of fn and is normalised like any other.
func (il *inliner) closureifyOne(fn *ssa.Function) bool {
	for _, b := range fn.Blocks {
		for idx, in := range b.Instrs {
			var cc *ssa.CallCommon
			switch x := in.(type) {
			case *ssa.Go:
				cc = &x.Call
			case *ssa.Defer:
				cc = &x.Call
			default:
				continue
			}
			if il.skipped[in] {
				continue
			}
			c := cc.StaticCallee()
			if c == nil || !il.cand[c] || len(c.FreeVars) > 0 || len(c.Blocks) == 0 {
				continue
			}
			if _, isClosure := cc.Value.(*ssa.MakeClosure); isClosure {
				continue
			}
			if il.state[c] == 1 {
				il.skipped[in] = true
				continue
			}
			il.process(c)
			lit := il.cloneAsLiteral(fn, c)
			mc := &ssa.MakeClosure{Fn: lit, Bindings: append([]ssa.Value(nil), cc.Args...)}
			setRegType(mc, lit.Signature)
			setRegPos(mc, in.Pos())
			setInstrBlock(mc, b)
			b.Instrs = append(b.Instrs[:idx:idx], append([]ssa.Instruction{mc}, b.Instrs[idx:]...)...)
			cc.Value = mc
			cc.Args = nil
			cc.Method = nil
			il.inlined[c]++
			il.nCalls++
			il.Log = append(il.Log, fmt.Sprintf("%s: go/defer %s → function literal", fnName(fn), fnName(c)))
			il.finishLiteral(lit)
			return true
		}
	}
	return false
}

func setFnField(fn *ssa.Function, name string, set func(p unsafe.Pointer)) {
	set(unexported(reflect.ValueOf(fn).Elem(), name))
}

func (il *inliner) cloneAsLiteral(g, c *ssa.Function) *ssa.Function {
	return il.cloneFn(g, c, true)
}

// cloneFn copies src as a new function literal of parent. With paramsAsFreeVars its parameters become captured
// variables and its signature func(); otherwise parameters and free variables are kept. Literals nested in src are
// copied along, so that every function literal has the function it textually sits in (after normalisation) as parent.
func (il *inliner) cloneFn(g, c *ssa.Function, paramsAsFreeVars bool) *ssa.Function {
	lit := &ssa.Function{Signature: c.Signature, Pkg: g.Pkg, Prog: g.Prog}
	if paramsAsFreeVars {
		lit.Signature = types.NewSignatureType(nil, nil, nil, nil, nil, false)
	} else if c.Signature.Recv() != nil {
		lit.Signature = types.NewSignatureType(nil, nil, nil, c.Signature.Params(), c.Signature.Results(), c.Signature.Variadic())
	}
	setFnField(lit, "name", func(p unsafe.Pointer) { *(*string)(p) = fmt.Sprintf("%s$%d", g.Name(), len(g.AnonFuncs)+1) })
	setFnField(lit, "pos", func(p unsafe.Pointer) { *(*token.Pos)(p) = c.Pos() })
	setFnField(lit, "parent", func(p unsafe.Pointer) { *(**ssa.Function)(p) = g })
	setFnField(lit, "anonIdx", func(p unsafe.Pointer) { *(*int32)(p) = int32(len(g.AnonFuncs)) })
	if syn := c.Syntax(); syn != nil {
		setFnField(lit, "syntax", func(p unsafe.Pointer) { *(*ast.Node)(p) = syn })
	}
	g.AnonFuncs = append(g.AnonFuncs, lit)
	vm := map[ssa.Value]ssa.Value{}
	newFV := func(name string, t types.Type, pos token.Pos) *ssa.FreeVar {
		fv := &ssa.FreeVar{}
		v := reflect.ValueOf(fv).Elem()
		*(*string)(unexported(v, "name")) = name
		*(*types.Type)(unexported(v, "typ")) = t
		*(*token.Pos)(unexported(v, "pos")) = pos
		*(**ssa.Function)(unexported(v, "parent")) = lit
		lit.FreeVars = append(lit.FreeVars, fv)
		return fv
	}
	for _, prm := range c.Params {
		if paramsAsFreeVars {
			vm[prm] = newFV(prm.Name(), prm.Type(), prm.Pos())
			continue
		}
		np := &ssa.Parameter{}
		v := reflect.ValueOf(np).Elem()
		*(*string)(unexported(v, "name")) = prm.Name()
		*(**types.Var)(unexported(v, "object")) = prm.Object().(*types.Var)
		*(*types.Type)(unexported(v, "typ")) = prm.Type()
		*(**ssa.Function)(unexported(v, "parent")) = lit
		lit.Params = append(lit.Params, np)
		vm[prm] = np
	}
	for _, fv := range c.FreeVars {
		vm[fv] = newFV(fv.Name(), fv.Type(), fv.Pos())
	}
	bm := map[*ssa.BasicBlock]*ssa.BasicBlock{}
	for _, cb := range c.Blocks {
		nb := newBlock(lit, cb.Comment)
		nb.Index = cb.Index
		bm[cb] = nb
		lit.Blocks = append(lit.Blocks, nb)
	}
	for _, cb := range c.Blocks {
		nb := bm[cb]
		for _, in := range cb.Instrs {
			ni := cloneInstr(in)
			if v, ok := in.(ssa.Value); ok {
				vm[v] = ni.(ssa.Value)
			}
			appendInstr(nb, ni)
			if a, ok := ni.(*ssa.Alloc); ok && !a.Heap {
				lit.Locals = append(lit.Locals, a)
			}
		}
		for _, s := range cb.Succs {
			nb.Succs = append(nb.Succs, bm[s])
		}
		for _, pr := range cb.Preds {
			nb.Preds = append(nb.Preds, bm[pr])
		}
	}
	for _, nb := range lit.Blocks {
		for _, in := range nb.Instrs {
			var rands []*ssa.Value
			for _, r := range in.Operands(rands) {
				if nv, ok := vm[*r]; ok {
					*r = nv
				}
			}
		}
	}
	if c.Recover != nil {
		lit.Recover = bm[c.Recover]
	}
	il.reparentLiterals(lit, c, lit.Blocks)
	il.literals = append(il.literals, lit)
	il.finish(lit)
	return lit
}

// reparentLiterals: the instructions in blocks were copied from src into g; every function literal of src they
// mention gets its own copy under g.
func (il *inliner) reparentLiterals(g, src *ssa.Function, blocks []*ssa.BasicBlock) {
	copies := map[*ssa.Function]*ssa.Function{}
	for _, b := range blocks {
		for _, in := range b.Instrs {
			var rands []*ssa.Value
			for _, r := range in.Operands(rands) {
				f, ok := (*r).(*ssa.Function)
				if !ok || f.Parent() != src {
					continue
				}
				cp := copies[f]
				if cp == nil {
					cp = il.cloneFn(g, f, false)
					copies[f] = cp
				}
				*r = cp
			}
		}
	}
}

func (il *inliner) finishLiteral(lit *ssa.Function) {
	il.changed[lit] = true
	il.state[lit] = 0
	il.process(lit)
}

// isDead: fn, or a function it is nested in, was inlined everywhere and is referenced by nothing.
func (il *inliner) isDead(fn *ssa.Function) bool {
	for f := fn; f != nil; f = f.Parent() {
		if il.dead[f] {
			return true
		}
	}
	return false
}

// moveAfter moves the (pure) instruction in to the position right after anchor.
func moveAfter(in, anchor ssa.Instruction) {
	b := in.Block()
	var out []ssa.Instruction
	for _, x := range b.Instrs {
		if x != in {
			out = append(out, x)
		}
	}
	b.Instrs = out
	ab := anchor.Block()
	var res []ssa.Instruction
	for _, x := range ab.Instrs {
		res = append(res, x)
		if x == anchor {
			res = append(res, in)
		}
	}
	ab.Instrs = res
	setInstrBlock(in, ab)
}

// inlineLiteralCall: a function literal that reached, through an inlined higher-order helper, a call in the function that
// made it (`withX(func(){…})` → `lit(args)`), and is used nowhere else, is inlined like a helper.
func (il *inliner) inlineLiteralCall(fn *ssa.Function) bool {
	for _, b := range fn.Blocks {
		for _, in := range b.Instrs {
			call, ok := in.(*ssa.Call)
			if !ok || il.skipped[in] {
				continue
			}
			mc, ok := call.Call.Value.(*ssa.MakeClosure)
			if !ok || mc.Parent() != fn {
				continue
			}
			lit, ok := mc.Fn.(*ssa.Function)
			if !ok || lit.Parent() != fn || mc.Referrers() == nil {
				continue
			}
			uses := 0
			for _, b2 := range fn.Blocks {
				for _, in2 := range b2.Instrs {
					var rands []*ssa.Value
					for _, r := range in2.Operands(rands) {
						if *r == ssa.Value(mc) {
							uses++
						}
					}
				}
			}
			if uses != 1 || len(call.Call.Args) != len(lit.Params) {
				il.skipped[in] = true
				continue
			}
			if il.state[lit] == 1 {
				il.skipped[in] = true
				continue
			}
			il.process(lit)
			if !il.bodyInlinable(lit) || !literalDeferFree(lit) {
				il.skipped[in] = true
				continue
			}
			il.inlineCall(fn, call, lit)
			// the closure value is gone
			mb := mc.Block()
			var out []ssa.Instruction
			for _, x := range mb.Instrs {
				if x != ssa.Instruction(mc) {
					out = append(out, x)
				}
			}
			mb.Instrs = out
			var anon []*ssa.Function
			for _, a := range fn.AnonFuncs {
				if a != lit {
					anon = append(anon, a)
				}
			}
			fn.AnonFuncs = anon
			il.dead[lit] = true
			il.nCalls++
			il.Log = append(il.Log, fmt.Sprintf("%s ← %s (literal called in place)", fnName(fn), fnName(lit)))
			return true
		}
	}
	return false
}

// literalDeferFree: the literal neither defers nor recovers (its defers would otherwise have to run at the call site).
func literalDeferFree(lit *ssa.Function) bool {
	ok := true
	eachInstr(lit, func(in ssa.Instruction) {
		if _, isDefer := in.(*ssa.Defer); isDefer {
			ok = false
		}
	})
	return ok && !callsRecover(lit)
}
