package main

import (
	"fmt"
	"go/token"
	"go/types"
	"sort"
	"strings"

	"golang.org/x/tools/go/ssa"
)

// Sem is the repository-specific semantic layer: anchors resolved from the type-checked program, and the guard-fact
// language (A2) over channel state and transport connectivity.
type Sem struct {
	p *Prog

	channelT, serverChT, clientChT, transportT, sessionT, envelopeT *types.Named
	stateF, transportF, sessionIDF, localNodeF, remoteNodeF         *types.Var
	stateGetters                                                    map[*ssa.Function]bool
	stateSetters                                                    map[*ssa.Function]bool // functions that store channel.state (directly)
	nilCache                                                        map[*ssa.Function][]Atom
	nilBusy                                                         map[*ssa.Function]bool
	trueCache                                                       map[string][]Atom
	unresolved                                                      []string
	anch                                                            *Anchors
	relCache                                                        map[*ssa.Function][2]bool
	mutCache                                                        map[*ssa.Function]bool
}

// Atom is a guard fact. Param>=0 means Val must be substituted from the caller's argument.
type Atom struct {
	Kind  string // "state==", "state!=", "connected", "!connected", "nil:<path>", "nonnil:<path>"
	Val   string
	Param int
}

func (a Atom) String() string {
	if a.Param >= 0 {
		return fmt.Sprintf("%s$%d", a.Kind, a.Param)
	}
	return a.Kind + a.Val
}

func newSem(p *Prog) *Sem {
	s := &Sem{p: p, nilCache: map[*ssa.Function][]Atom{}, nilBusy: map[*ssa.Function]bool{}, trueCache: map[string][]Atom{},
		stateGetters: map[*ssa.Function]bool{}, stateSetters: map[*ssa.Function]bool{}, relCache: map[*ssa.Function][2]bool{}}
	need := func(n string) *types.Named {
		t := p.Type(n)
		if t == nil {
			s.unresolved = append(s.unresolved, "type "+n)
		}
		return t
	}
	s.channelT = need("channel")
	s.serverChT = need("ServerChannel")
	s.clientChT = need("ClientChannel")
	s.transportT = need("Transport")
	s.sessionT = need("Session")
	s.envelopeT = need("Envelope")
	needF := func(t, f string) *types.Var {
		v := p.Field(t, f)
		if v == nil {
			s.unresolved = append(s.unresolved, "field "+t+"."+f)
		}
		return v
	}
	s.stateF = needF("channel", "state")
	s.transportF = needF("channel", "transport")
	s.sessionIDF = needF("channel", "sessionID")
	s.localNodeF = needF("channel", "localNode")
	s.remoteNodeF = needF("channel", "remoteNode")
	if len(s.unresolved) > 0 {
		return s
	}
	// state getters: functions all of whose returns are reads of channel.state
	for _, fn := range p.LimeFuncs() {
		res := fn.Signature.Results()
		if res.Len() == 1 && typeIs(res.At(0).Type(), p.Type("SessionState")) && len(fn.Params) == 1 {
			all, n := true, 0
			eachInstr(fn, func(in ssa.Instruction) {
				if r, ok := in.(*ssa.Return); ok {
					for _, l := range leaves(r.Results[0]) {
						n++
						if !readsField(l, s.stateF) {
							all = false
						}
					}
				}
			})
			if all && n > 0 {
				s.stateGetters[fn] = true
			}
		}
		eachInstr(fn, func(in ssa.Instruction) {
			if st, ok := in.(*ssa.Store); ok {
				if fa, ok := st.Addr.(*ssa.FieldAddr); ok && structField(fa.X.Type(), fa.Field) == s.stateF {
					// composite-literal initialisation in the constructor is not a transition
					if _, isAlloc := fa.X.(*ssa.Alloc); !isAlloc {
						s.stateSetters[fn] = true
					}
				}
			}
		})
	}
	return s
}

// isStateRead: v is the current session state of a channel (field read or getter call).
func (s *Sem) isStateRead(v ssa.Value) bool {
	v = stripConv(v)
	if readsField(v, s.stateF) {
		return true
	}
	if c, _ := callOf(v); c != nil {
		if f := c.Call.StaticCallee(); f != nil && s.stateGetters[f] {
			return true
		}
	}
	return false
}

// isTransportCall: c is a dynamic call of Transport.<name> (on any transport-typed value).
func (s *Sem) isTransportCall(c ssa.CallInstruction, name string) bool {
	cc := c.Common()
	if !cc.IsInvoke() || cc.Method.Name() != name {
		return false
	}
	return typeIs(cc.Value.Type(), s.transportT) || invokeOn(c, s.transportT) == name
}

// stateConstName maps a constant string value to the SessionState constant identifier.
func (s *Sem) stateConstName(val string) string {
	sc := s.p.LimeT.Scope()
	for _, n := range sc.Names() {
		if c, ok := sc.Lookup(n).(*types.Const); ok && typeIs(c.Type(), s.p.Type("SessionState")) {
			if v, ok := constStringOfConst(c); ok && v == val {
				return n
			}
		}
	}
	return ""
}

func constStringOfConst(c *types.Const) (string, bool) {
	v := c.Val()
	if v.Kind().String() == "String" {
		return strings.Trim(v.ExactString(), `"`), true
	}
	return "", false
}

// atomsOfBool: facts implied when boolean value v has the given truth.
func (s *Sem) atomsOfBool(v ssa.Value, truth bool, depth int) []Atom {
	c := normCond(v, truth)
	var out []Atom
	switch c.Op {
	case token.EQL, token.NEQ:
		x, y := c.X, c.Y
		if s.isStateRead(y) {
			x, y = y, x
		}
		if s.isStateRead(x) {
			kind := "state=="
			if c.Op == token.NEQ {
				kind = "state!="
			}
			if cs, ok := constString(stripConv(y)); ok {
				out = append(out, Atom{Kind: kind, Val: cs, Param: -1})
			} else if pr, ok := stripConv(y).(*ssa.Parameter); ok {
				for i, q := range pr.Parent().Params {
					if q == pr {
						out = append(out, Atom{Kind: kind, Param: i})
					}
				}
			}
			return out
		}
		// err ==/!= nil on a wrapper's result
		var other ssa.Value
		if isNilConst(c.Y) {
			other = c.X
		} else if isNilConst(c.X) {
			other = c.Y
		}
		if other != nil {
			ls := phiInputs(other)
			if len(ls) == 1 {
				if call, idx := callOf(ls[0]); call != nil && c.Op == token.EQL {
					if f := call.Call.StaticCallee(); f != nil && (f.Pkg == s.p.Lime) && depth < 6 {
						res := f.Signature.Results()
						if res.Len() > 0 && (idx == res.Len()-1 || (idx == -1 && res.Len() == 1)) && isErrorType(res.At(res.Len()-1).Type()) {
							out = append(out, s.subst(s.nilFacts(f, depth+1), call)...)
						}
					}
				}
			}
			// nil / non-nil of an access path
			ap := pathOf(other)
			if len(ap.Fields) > 0 {
				k := "nonnil:"
				if c.Op == token.EQL {
					k = "nil:"
				}
				out = append(out, Atom{Kind: k, Val: strings.Join(ap.FieldNames(), "."), Param: -1})
			}
		}
		return out
	case token.ILLEGAL:
		bv := stripConv(c.Val)
		if ph, ok := bv.(*ssa.Phi); ok {
			// short-circuit boolean materialised as a phi: a && b true ⇒ both; handled by intersecting non-constant inputs
			return s.atomsOfPhi(ph, c.True, depth)
		}
		if call, _ := callOf(bv); call != nil {
			if s.isTransportCall(call, "Connected") {
				if c.True {
					return []Atom{{Kind: "connected", Param: -1}}
				}
				return []Atom{{Kind: "!connected", Param: -1}}
			}
			if f := call.Call.StaticCallee(); f != nil && f.Pkg == s.p.Lime && depth < 6 && isBool(f.Signature.Results()) {
				return s.subst(s.boolFacts(f, c.True, depth+1), call)
			}
			// promoted through embedded *channel: wrapper functions
			if f := call.Call.StaticCallee(); f != nil && f.Synthetic != "" && depth < 6 && isBool(f.Signature.Results()) {
				if tgt := s.unwrap(f); tgt != nil {
					return s.boolFacts(tgt, c.True, depth+1)
				}
			}
		}
	}
	return out
}

func isBool(res *types.Tuple) bool {
	if res.Len() != 1 {
		return false
	}
	b, ok := res.At(0).Type().Underlying().(*types.Basic)
	return ok && b.Kind() == types.Bool
}

func isErrorType(t types.Type) bool {
	return types.Identical(t, types.Universe.Lookup("error").Type())
}

// unwrap resolves a promoted-method wrapper to the declared method it forwards to.
func (s *Sem) unwrap(f *ssa.Function) *ssa.Function {
	if f.Synthetic == "" {
		return f
	}
	var tgt *ssa.Function
	eachCall(f, func(c ssa.CallInstruction) {
		if g := staticCallee(c); g != nil && g.Name() == f.Name() {
			tgt = g
		}
	})
	return tgt
}

// atomsOfPhi handles `a && b` / `a || b` lowered to a phi of constants and a final operand.
func (s *Sem) atomsOfPhi(ph *ssa.Phi, truth bool, depth int) []Atom {
	var sets [][]Atom
	for i, e := range ph.Edges {
		if cst, ok := e.(*ssa.Const); ok && cst.Value != nil {
			bv := cst.Value.String() == "true"
			if bv != truth {
				continue // this input cannot produce the truth value
			}
			sets = append(sets, s.atomsAt(ph.Block().Preds[i], depth))
			continue
		}
		a := s.atomsAt(ph.Block().Preds[i], depth)
		a = append(a, s.atomsOfBool(e, truth, depth)...)
		sets = append(sets, a)
	}
	return intersectAtoms(sets)
}

func intersectAtoms(sets [][]Atom) []Atom {
	if len(sets) == 0 {
		return nil
	}
	cnt := map[Atom]int{}
	for _, st := range sets {
		seen := map[Atom]bool{}
		for _, a := range st {
			if !seen[a] {
				seen[a] = true
				cnt[a]++
			}
		}
	}
	var out []Atom
	for a, n := range cnt {
		if n == len(sets) {
			out = append(out, a)
		}
	}
	sort.Slice(out, func(i, j int) bool { return out[i].String() < out[j].String() })
	return out
}

// atomsAt: facts that hold on every path reaching block b (from the guards crossed).
func (s *Sem) atomsAt(b *ssa.BasicBlock, depth int) []Atom {
	var out []Atom
	seen := map[Atom]bool{}
	for _, e := range mustEdges(b) {
		ifi := ifOf(e.from)
		for _, a := range s.atomsOfBool(ifi.Cond, e.succ == 0, depth) {
			if !seen[a] {
				seen[a] = true
				out = append(out, a)
			}
		}
	}
	return out
}

// AtomsAtInstr: exported form with depth 0.
func (s *Sem) AtomsAt(in ssa.Instruction) []Atom {
	return s.atomsAt(in.Block(), 0)
}

// subst rewrites parametric atoms of a callee into the caller's frame at call site.
func (s *Sem) subst(atoms []Atom, call *ssa.Call) []Atom {
	var out []Atom
	args := call.Call.Args
	for _, a := range atoms {
		if a.Param < 0 {
			out = append(out, a)
			continue
		}
		if a.Param >= len(args) {
			continue
		}
		arg := stripConv(args[a.Param])
		if cs, ok := constString(arg); ok {
			out = append(out, Atom{Kind: a.Kind, Val: cs, Param: -1})
		} else if pr, ok := arg.(*ssa.Parameter); ok {
			for i, q := range pr.Parent().Params {
				if q == pr {
					out = append(out, Atom{Kind: a.Kind, Param: i})
				}
			}
		}
	}
	return out
}

// nilFacts: facts that hold whenever fn returns a nil error (its last result).
func (s *Sem) nilFacts(fn *ssa.Function, depth int) []Atom {
	if a, ok := s.nilCache[fn]; ok {
		return a
	}
	if s.nilBusy[fn] || len(fn.Blocks) == 0 {
		return nil
	}
	s.nilBusy[fn] = true
	defer delete(s.nilBusy, fn)
	var sets [][]Atom
	eachInstr(fn, func(in ssa.Instruction) {
		r, ok := in.(*ssa.Return)
		if !ok || len(r.Results) == 0 {
			return
		}
		ev := r.Results[len(r.Results)-1]
		sets = append(sets, s.nilSets(ev, r.Block(), depth)...)
	})
	res := intersectAtoms(sets)
	if s.mayChangeState(fn) {
		// facts about the state checked on entry are stale once the function itself moved the state
		var keep []Atom
		for _, a := range res {
			if a.Kind != "state==" && a.Kind != "state!=" {
				keep = append(keep, a)
			}
		}
		res = keep
	}
	s.nilCache[fn] = res
	return res
}

// mayChangeState: fn transitively (static calls) reaches a function that stores channel.state.
func (s *Sem) mayChangeState(fn *ssa.Function) bool {
	if s.mutCache == nil {
		s.mutCache = map[*ssa.Function]bool{}
		for f := range s.stateSetters {
			s.mutCache[f] = true
		}
		for changed := true; changed; {
			changed = false
			for _, f := range s.p.LimeFuncs() {
				if s.mutCache[f] {
					continue
				}
				eachCall(f, func(c ssa.CallInstruction) {
					if _, isGo := c.(*ssa.Go); isGo {
						return
					}
					if g := staticCallee(c); g != nil && s.mutCache[g] && !s.mutCache[f] {
						s.mutCache[f] = true
						changed = true
					}
				})
			}
		}
	}
	return s.mutCache[fn]
}

// nilSets: one fact set per way value ev (an error) may be nil when control is in block b.
func (s *Sem) nilSets(ev ssa.Value, b *ssa.BasicBlock, depth int) [][]Atom {
	return s.nilSetsTo(ev, b, nil, depth)
}

func (s *Sem) nilSetsTo(ev ssa.Value, b, to *ssa.BasicBlock, depth int) [][]Atom {
	var sets [][]Atom
	if knownNonNilEdge(ev, b, to) {
		return nil // `if err != nil { return err }`: cannot be nil here
	}
	switch x := ev.(type) {
	case *ssa.Phi:
		for i, e := range x.Edges {
			sets = append(sets, s.nilSetsTo(e, x.Block().Preds[i], x.Block(), depth)...)
		}
		return sets
	case *ssa.Const:
		if x.Value == nil {
			return [][]Atom{s.atomsAt(b, depth)}
		}
		return nil
	case *ssa.MakeInterface:
		return nil // a concrete non-nil error value
	}
	if call, _ := callOf(ev); call != nil {
		if f := call.Call.StaticCallee(); f != nil {
			if f.Pkg != nil && (f.Pkg.Pkg.Path() == "fmt" && f.Name() == "Errorf" || f.Pkg.Pkg.Path() == "errors" && f.Name() == "New") {
				return nil
			}
			if f.Pkg == s.p.Lime && depth < 6 {
				a := s.atomsAt(b, depth)
				a = append(a, s.subst(s.nilFacts(f, depth+1), call)...)
				return [][]Atom{a}
			}
		}
	}
	// load from a local cell (named result or variable): consider every stored value
	if u, ok := ev.(*ssa.UnOp); ok && u.Op == token.MUL {
		if a, ok := u.X.(*ssa.Alloc); ok {
			for _, r := range *a.Referrers() {
				if st, ok := r.(*ssa.Store); ok && st.Addr == a {
					sets = append(sets, s.nilSets(st.Val, st.Block(), depth)...)
				}
			}
			if len(sets) > 0 {
				return sets
			}
		}
	}
	return [][]Atom{s.atomsAt(b, depth)}
}

// boolFacts: facts that hold whenever fn (returning bool) returns `truth`.
func (s *Sem) boolFacts(fn *ssa.Function, truth bool, depth int) []Atom {
	key := fmt.Sprintf("%p/%v", fn, truth)
	if a, ok := s.trueCache[key]; ok {
		return a
	}
	if len(fn.Blocks) == 0 {
		return nil
	}
	s.trueCache[key] = nil
	var sets [][]Atom
	for _, rl := range returnLeaves(fn, 0) {
		sets = append(sets, s.boolSets(rl.v, rl.b, truth, depth)...)
	}
	res := intersectAtoms(sets)
	s.trueCache[key] = res
	return res
}

func (s *Sem) boolSets(v ssa.Value, b *ssa.BasicBlock, truth bool, depth int) [][]Atom {
	switch x := v.(type) {
	case *ssa.Phi:
		var sets [][]Atom
		for i, e := range x.Edges {
			sets = append(sets, s.boolSets(e, x.Block().Preds[i], truth, depth)...)
		}
		return sets
	case *ssa.Const:
		if x.Value != nil && (x.Value.String() == "true") == truth {
			return [][]Atom{s.atomsAt(b, depth)}
		}
		return nil
	}
	a := s.atomsAt(b, depth)
	a = append(a, s.atomsOfBool(v, truth, depth)...)
	return [][]Atom{a}
}

func hasAtom(atoms []Atom, kind, val string) bool {
	for _, a := range atoms {
		if a.Kind == kind && a.Val == val && a.Param < 0 {
			return true
		}
	}
	return false
}

func atomsString(atoms []Atom) string {
	var s []string
	for _, a := range atoms {
		s = append(s, a.String())
	}
	sort.Strings(s)
	return "[" + strings.Join(s, " ") + "]"
}

// chanKind tells, for a function with a receiver, whether it belongs to the server, client or shared channel type.
func (s *Sem) recvKind(fn *ssa.Function) string {
	fn = topLevel(fn)
	if fn.Signature.Recv() == nil {
		return ""
	}
	n := namedOf(fn.Signature.Recv().Type())
	switch {
	case n == nil:
		return ""
	case n.Obj() == s.serverChT.Obj():
		return "server"
	case n.Obj() == s.clientChT.Obj():
		return "client"
	case n.Obj() == s.channelT.Obj():
		return "channel"
	}
	return n.Obj().Name()
}

// knownNonNilEdge: v flows along the CFG edge from→to; non-nil if from is guarded, or the edge itself is the v != nil branch.
func knownNonNilEdge(v ssa.Value, from, to *ssa.BasicBlock) bool {
	if knownNonNil(v, from) {
		return true
	}
	if from == nil || to == nil {
		return false
	}
	ifi := ifOf(from)
	if ifi == nil {
		return false
	}
	for k, sx := range from.Succs {
		if sx != to {
			continue
		}
		c := condOn(ifi, k == 0)
		if c.Op != token.NEQ {
			return false
		}
		x, y := c.X, c.Y
		if isNilConst(x) {
			x, y = y, x
		}
		if !isNilConst(y) || x != v {
			return false
		}
	}
	return true
}

// knownNonNil: block b is only reached through an edge on which v != nil.
func knownNonNil(v ssa.Value, b *ssa.BasicBlock) bool {
	if b == nil {
		return false
	}
	return guardedBy(b, func(ifi *ssa.If, br bool) bool {
		c := condOn(ifi, br)
		if c.Op != token.NEQ {
			return false
		}
		x, y := c.X, c.Y
		if isNilConst(x) {
			x, y = y, x
		}
		return isNilConst(y) && x == v
	})
}
