package main

import (
	"go/types"

	"golang.org/x/tools/go/ssa"
)

// checkTerminalThroughFullSetter: C13.R14.
func checkTerminalThroughFullSetter(r *Report, s *Sem, R string) {
	p := r.P
	a := s.anchors()
	if a.receiver == nil || len(a.setterLocked) == 0 {
		r.Undecided(R, "anchor-unresolved:receiver / lock-only setter", "-", "not found")
		return
	}
	inReceiver := p.reachable(a.receiver)
	n := 0
	for _, fn := range p.LimeFuncs() {
		if containsFn(a.setterFull, fn) || containsFn(a.setterLocked, fn) {
			continue
		}
		eachCall(fn, func(c ssa.CallInstruction) {
			g := staticCallee(c)
			if g == nil || !containsFn(a.setterLocked, g) {
				return
			}
			args := c.Common().Args
			cs, ok := stateConst(args[len(args)-1])
			recvSide := inReceiver[topLevel(fn)] || topLevel(fn) == a.receiver
			if !ok {
				// the peer's state folded by the receiver
				n++
				r.Check(R, "func "+fnName(fn)+" / lock-only setter with a non-constant state", p.instrPos(c), recvSide, "a state that may be terminal is set without stopping the receiver, outside the receiver goroutine")
				return
			}
			if cs != "finished" && cs != "failed" {
				return
			}
			n++
			r.Check(R, "func "+fnName(fn)+" / terminal state '"+cs+"' through the lock-only setter", p.instrPos(c), recvSide, "outside the receiver goroutine a terminal state must go through the setter that stops the receiver")
		})
	}
	if n == 0 {
		r.Trivial(R, "lock-only setter / no terminal use outside the state setter", "-", true, "never called with a terminal or peer-supplied state outside the full setter")
	}
}

// checkRepliesDecodable: C11.R8.
func checkRepliesDecodable(r *Report, s *Sem, R string) {
	p := r.P
	copied := map[string]bool{"ID": true, "From": true, "PP": true, "To": true}
	n := 0
	for _, cp := range codecPairs(p) {
		switch cp.name {
		case "Envelope", "Command", "ResponseCommand", "Notification":
		default:
			continue
		}
		if len(cp.Dec.Params) < 2 {
			continue
		}
		n++
		bad := ""
		for _, ref := range refusals(cp.Dec, cp.Dec.Params[1], cp.Dec.Signature.Results().Len()-1) {
			for at := range ref {
				if copied[at.field] {
					bad = "refuses on " + at.field + " " + at.test
				}
			}
		}
		r.Check(R, "type "+cp.name+" / decoder accepts whatever id and addresses a reply copies", p.pos(cp.Dec.Pos()), bad == "", bad)
	}
	if n == 0 {
		r.Undecided(R, "reply decoders", "-", "none found")
	}
}

// checkAuthDecodeFresh: C03.R8.
func checkAuthDecodeFresh(r *Report, s *Sem, R string) {
	p := r.P
	dec := p.Method("Session", "populate")
	authT := p.Type("Authentication")
	if dec == nil || authT == nil {
		r.Undecided(R, "anchor-unresolved:Session.populate / Authentication", "-", "not found")
		return
	}
	rawAuth := p.Field("rawEnvelope", "Authentication")
	n := 0
	eachCall(dec, func(c ssa.CallInstruction) {
		g := staticCallee(c)
		if g == nil || g.Pkg == nil || g.Pkg.Pkg.Path() != "encoding/json" || g.Name() != "Unmarshal" || len(c.Common().Args) != 2 {
			return
		}
		if rawAuth != nil && !(readsField(c.Common().Args[0], rawAuth) || readsFieldDeep(c.Common().Args[0], rawAuth)) {
			return
		}
		n++
		// the target: `&a` (a local holding the product) or the product itself
		tgt := c.Common().Args[1]
		var products []ssa.Value
		for _, l := range leaves(tgt) {
			l = stripConv(l)
			if mi, ok := l.(*ssa.MakeInterface); ok {
				l = stripConv(mi.X)
			}
			if al, ok := l.(*ssa.Alloc); ok {
				if _, isIface := al.Type().(*types.Pointer).Elem().Underlying().(*types.Interface); isIface {
					// the interface variable: what was stored into it
					for _, ref := range *al.Referrers() {
						if st, ok := ref.(*ssa.Store); ok && st.Addr == ssa.Value(al) {
							products = append(products, leaves(st.Val)...)
						}
					}
					continue
				}
			}
			products = append(products, l)
		}
		ok, why := len(products) > 0, ""
		for _, pr := range products {
			pr = stripConv(pr)
			if mi, isMI := pr.(*ssa.MakeInterface); isMI {
				pr = stripConv(mi.X)
			}
			if isNilConst(pr) {
				continue // the not-found leg of a factory switch: the decoder returns before unmarshalling
			}
			switch x := pr.(type) {
			case *ssa.Alloc:
				// allocated in the decoder
			case *ssa.Call:
				_ = x // a factory's product (C02.R5: factories return fresh values)
			default:
				if ex, isEx := pr.(*ssa.Extract); isEx {
					if _, isCall := ex.Tuple.(*ssa.Call); isCall {
						continue
					}
				}
				ok, why = false, "the credentials are unmarshalled into "+describe(pr)+", which is not created for this decode"
			}
		}
		r.Check(R, "func "+fnName(dec)+" / authentication decoded into a fresh value", p.instrPos(c), ok, why)
	})
	if n == 0 {
		r.Undecided(R, "func "+fnName(dec)+" / json.Unmarshal of the authentication member", p.pos(dec.Pos()), "not found")
	}
}
