package main

import (
	"bytes"
	"fmt"
	"os"
	"os/exec"
	"path/filepath"
	"sort"
	"strings"
)

// The thorough tier adds, to the quick rules:
//
//	(a) the same rules on two more build configurations (no build tags; GOARCH=386), in child processes;
//	(b) the checker self-test: every seeded mutant of the property (selftest/mutants/<id>/*.diff and the reverts of the
//	    fix commits listed in selftest/reverts.txt) must be reported, every behaviour-preserving refactor
//	    (selftest/refactors/<id>/*.diff) must stay silent. Variants are applied to scratch copies outside /repo and /verif,
//	    analysed statically, and removed.
type extraResult struct {
	Name   string `json:"name"`
	Kind   string `json:"kind"`
	Expect string `json:"expect"`
	Got    string `json:"got"`
	OK     bool   `json:"ok"`
	Out    string `json:"first_report,omitempty"`
}

func thoroughExtras(id, knownF string, noSelf bool) (results []extraResult, ok bool) {
	ok = true
	verif := verifDir()
	self, _ := os.Executable()
	run := func(args ...string) (int, string) {
		cmd := exec.Command(self, args...)
		var buf bytes.Buffer
		cmd.Stdout = &buf
		cmd.Stderr = &buf
		err := cmd.Run()
		code := 0
		if err != nil {
			if ee, isExit := err.(*exec.ExitError); isExit {
				code = ee.ExitCode()
			} else {
				code = 99
			}
		}
		return code, buf.String()
	}
	for _, cfg := range [][]string{{"-tags", ""}, {"-goarch", "386"}} {
		code, out := run(append([]string{"-property", id, "-tier", "quick", "-evidence", "none", "-known", knownF}, cfg...)...)
		res := extraResult{Name: strings.Join(cfg, "="), Kind: "build-configuration", Expect: "exit 0", Got: fmt.Sprintf("exit %d", code), OK: code == 0}
		if code != 0 {
			res.Out = firstLines(out, 3)
			ok = false
		}
		results = append(results, res)
	}
	if noSelf {
		return
	}
	variant := filepath.Join(verif, "tools", "variant.sh")
	type v struct{ what, name, kind string }
	var vs []v
	for _, kind := range []string{"mutants", "refactors"} {
		files, _ := filepath.Glob(filepath.Join(verif, "selftest", kind, id, "*.diff"))
		sort.Strings(files)
		for _, f := range files {
			vs = append(vs, v{f, strings.TrimSuffix(filepath.Base(f), ".diff"), kind})
		}
		if kind == "refactors" {
			// behaviour-preserving refactorings written by independent sub-agents: every property must stay silent on them
			shared, _ := filepath.Glob(filepath.Join(verif, "selftest", "refactors", "_all", "*.diff"))
			sort.Strings(shared)
			for _, f := range shared {
				vs = append(vs, v{f, "all/" + strings.TrimSuffix(filepath.Base(f), ".diff"), kind})
			}
		}
	}
	// breaking changes written by independent sub-agents for this property (seeded/<id>-*): each must be reported
	seeds, _ := filepath.Glob(filepath.Join(verif, "seeded", id+"-*", "patch.diff"))
	sort.Strings(seeds)
	for _, f := range seeds {
		if mb, err := os.ReadFile(filepath.Join(filepath.Dir(f), "meta.json")); err == nil && strings.Contains(string(mb), "\"neutralised_by_fix\"") {
			continue // exploited a defect that has since been repaired
		}
		vs = append(vs, v{f, "seeded/" + filepath.Base(filepath.Dir(f)), "mutants"})
	}
	if b, err := os.ReadFile(filepath.Join(verif, "selftest", "reverts.txt")); err == nil {
		for _, line := range strings.Split(string(b), "\n") {
			f := strings.Fields(line)
			if len(f) >= 2 && !strings.HasPrefix(line, "#") {
				for _, pid := range strings.Split(f[0], ",") {
					if pid == id {
						vs = append(vs, v{"revert:" + f[1], "revert-" + f[1], "mutants"})
					}
				}
			}
		}
	}
	for _, x := range vs {
		cmd := exec.Command(variant, x.what, id)
		cmd.Env = append(os.Environ(), "VERIF_DIR="+verif)
		var buf bytes.Buffer
		cmd.Stdout = &buf
		cmd.Stderr = &buf
		err := cmd.Run()
		code := 0
		if err != nil {
			if ee, isExit := err.(*exec.ExitError); isExit {
				code = ee.ExitCode()
			} else {
				code = 99
			}
		}
		want := 1
		if x.kind == "refactors" {
			want = 0
		}
		res := extraResult{Name: x.name, Kind: x.kind, Expect: fmt.Sprintf("exit %d", want), Got: fmt.Sprintf("exit %d", code), OK: code == want, Out: firstLines(buf.String(), 2)}
		if code == 3 {
			// the edit does not apply to (or build on) the current tree: nothing to learn from it, not a checker failure
			res.OK, res.Got = true, "skipped: does not apply to the current tree"
		}
		if !res.OK {
			ok = false
		}
		results = append(results, res)
	}
	return
}

func firstLines(s string, n int) string {
	lines := strings.Split(strings.TrimSpace(s), "\n")
	if len(lines) > n {
		lines = lines[:n]
	}
	return strings.Join(lines, " | ")
}
