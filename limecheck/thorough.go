package main

// thoroughExtras is filled in by selftest.go
func thoroughExtras(id, evDir, knownF string, noSelf bool, seed int) int { return 0 }
