package main

import (
	"fmt"
	"go/token"
	"go/types"
	"sort"
	"strings"

	"golang.org/x/tools/go/ssa"
)

// Rules about what the negotiation starts from and what a transport reports — shared by C09 and C10.

// checkConfiguredLists: the lists handed to the server's EstablishSession are fields of the server's configuration,
// and every store into such a field either installs the constructor's constant defaults (into a fresh struct) or
// replaces the list wholesale with the caller's — never derived from the previous content, never extended with a
// constant. (With accumulation, EncryptionOptions(TLS) keeps the default 'none' on offer.)
func checkConfiguredLists(r *Report, s *Sem, R string, kinds ...string) {
	p := r.P
	na, why := negotiationAnchors(s)
	if na == nil {
		r.Undecided(R, "anchor-unresolved:negotiation", "-", why)
		return
	}
	want := map[string]bool{}
	for _, k := range kinds {
		want[k] = true
	}
	// which parameters of serverEst are option lists
	type cfg struct {
		kind string
		idx  int
	}
	var cfgs []cfg
	for i, pr := range na.serverEst.Params {
		if sl, ok := pr.Type().Underlying().(*types.Slice); ok {
			if n := namedOf(sl.Elem()); n != nil && want[n.Obj().Name()] {
				cfgs = append(cfgs, cfg{n.Obj().Name(), i})
			}
		}
	}
	if len(cfgs) == 0 {
		r.Undecided(R, "anchor-unresolved:configured list parameters of "+fnName(na.serverEst), "-", "no []SessionCompression / []SessionEncryption parameter")
		return
	}
	fields := map[*types.Var]string{}
	for _, c := range p.callersOf(na.serverEst) {
		if c.Parent() == nil {
			continue
		}
		for _, cf := range cfgs {
			arg := c.Common().Args[cf.idx]
			f := pathOf(arg).Last()
			ok := f != nil
			if ok {
				if _, isLoad := stripConv(arg).(*ssa.UnOp); !isLoad {
					ok = false
				}
			}
			r.Check(R, "func "+fnName(c.Parent())+" / configured "+cf.kind+" list handed to the handshake is the configuration's field", p.instrPos(c), ok, "argument: "+describe(arg))
			if ok {
				fields[f] = cf.kind
			}
		}
	}
	var fs []*types.Var
	for f := range fields {
		fs = append(fs, f)
	}
	sort.Slice(fs, func(i, j int) bool { return fs[i].Name() < fs[j].Name() })
	for _, f := range fs {
		kind := fields[f]
		for _, st := range fieldStores(p.LimeFuncs(), f) {
			fn := st.Parent()
			base := "func " + fnName(fn) + " / store into " + f.Name()
			fresh := false
			if fa, ok := st.Addr.(*ssa.FieldAddr); ok {
				if _, isAlloc := stripConv(fa.X).(*ssa.Alloc); isAlloc {
					fresh = true
				}
			}
			origins := sliceOrigins(st.Val)
			nParam, nConst, bad := 0, 0, ""
			for _, o := range origins {
				switch x := stripConv(o).(type) {
				case *ssa.Parameter:
					nParam++
				case *ssa.Const:
					if x.Value != nil || !isNilConst(x) {
						nConst++
					}
				default:
					bad = describe(o)
				}
			}
			ok := bad == ""
			detail := ""
			switch {
			case bad != "":
				detail = "the " + kind + " list may contain elements of " + bad + " (a setter replaces the list, it does not derive it from the previous content)"
			case fresh:
				// constructor: constants or the caller's list
			case nConst > 0:
				ok = false
				detail = "a constant option is added to the caller's list"
			case nParam == 0:
				ok = false
				detail = "no caller-provided list"
			}
			r.Check(R, base, p.instrPos(st), ok, detail)
		}
	}
}

// isTLSPredicateFn: a niladic method whose result is exactly `recv.<TLS configuration field> != nil`.
func tlsFieldTest(c Cond) (tls bool, ok bool) {
	if c.Op != token.EQL && c.Op != token.NEQ {
		return false, false
	}
	x, y := c.X, c.Y
	if isNilConst(x) {
		x, y = y, x
	}
	if !isNilConst(y) {
		return false, false
	}
	f := pathOf(x).Last()
	if f == nil {
		return false, false
	}
	pt, isPtr := f.Type().Underlying().(*types.Pointer)
	if !isPtr {
		return false, false
	}
	n := namedOf(pt.Elem())
	if n == nil || n.Obj().Pkg() == nil || n.Obj().Pkg().Path() != "crypto/tls" || n.Obj().Name() != "Config" {
		return false, false
	}
	// a field of the listener (not a parameter)
	if _, isLoad := stripConv(x).(*ssa.UnOp); !isLoad {
		return false, false
	}
	return c.Op == token.NEQ, true
}

func tlsPredicateFn(f *ssa.Function) bool {
	if f == nil || len(f.Blocks) != 1 || len(f.Params) != 1 {
		return false
	}
	ret, ok := f.Blocks[0].Instrs[len(f.Blocks[0].Instrs)-1].(*ssa.Return)
	if !ok || len(ret.Results) != 1 {
		return false
	}
	tls, ok := tlsFieldTest(normCond(ret.Results[0], true))
	return ok && tls
}

// tlsEvidence: the condition proves (tls=true) or refutes (tls=false) that the connection is served/dialled over TLS:
// the listener's TLS configuration test (directly or through its predicate method), or a test of the dialled URL's
// scheme against "wss".
func tlsEvidence(c Cond) (tls bool, ok bool) {
	if t, ok := tlsFieldTest(c); ok {
		return t, true
	}
	if c.Op == token.ILLEGAL {
		if call, _ := callOf(c.Val); call != nil {
			f := call.Call.StaticCallee()
			if tlsPredicateFn(f) {
				return c.True, true
			}
			if f != nil && f.Pkg != nil && f.Pkg.Pkg.Path() == "strings" && f.Name() == "HasPrefix" {
				if cs, isC := constString(stripConv(call.Call.Args[1])); isC && strings.HasPrefix(cs, "wss") {
					return c.True, true
				}
			}
		}
		return false, false
	}
	if c.Op == token.EQL || c.Op == token.NEQ {
		x, y := c.X, c.Y
		if _, isC := stripConv(x).(*ssa.Const); isC {
			x, y = y, x
		}
		if cs, isC := constString(stripConv(y)); isC && (cs == "wss" || cs == "wss:" || cs == "wss://") {
			_ = x
			return c.Op == token.EQL, true
		}
	}
	return false, false
}

// checkReportedEncryption: a Transport whose Encryption() merely reports a field (the websocket transport: the TLS
// layer belongs to the HTTP server / dialer underneath) records 'tls' only on an edge that proves TLS is in use, and
// the listener serves plain HTTP only on the edge that refutes it.
func checkReportedEncryption(r *Report, s *Sem, R string) {
	p := r.P
	tcpT := p.Type("tcpTransport")
	nStores := 0
	for _, fn := range p.Implementations(s.transportT, "Encryption") {
		rt := recvType(fn)
		if tcpT != nil && typeIs(rt, tcpT) {
			continue // C09.R5: recorded after the handshake it performs itself
		}
		var field *types.Var
		eachInstr(fn, func(in ssa.Instruction) {
			ret, ok := in.(*ssa.Return)
			if !ok || len(ret.Results) != 1 {
				return
			}
			if f := pathOf(ret.Results[0]).Last(); f != nil {
				field = f
			}
		})
		if field == nil {
			continue // a constant
		}
		for _, st := range fieldStores(p.LimeFuncs(), field) {
			for _, site := range constSites(st.Val, st.Block(), 0) {
				if site.val != "tls" {
					if !site.isConst {
						r.Check(R, "func "+fnName(st.Parent())+" / encryption recorded by "+rt.String(), p.instrPos(st), false, "recorded value "+describe(st.Val)+" is not a constant decided by a TLS test")
					}
					continue
				}
				nStores++
				ok := condGuardEdge(site.blk, site.to, func(c Cond) bool {
					t, ok := tlsEvidence(c)
					return ok && t
				})
				r.Check(R, "func "+fnName(st.Parent())+" / 'tls' recorded only where TLS is in use", p.instrPos(st), ok, "the store must sit on the edge of the listener's TLS-configuration test or of the dialled URL's wss scheme test")
			}
		}
	}
	if nStores == 0 {
		r.Undecided(R, "reported encryption / stores of 'tls'", "-", "no reporting transport records 'tls'")
	}
	// the listener side: Serve vs ServeTLS
	n := 0
	for _, fn := range p.LimeFuncs() {
		eachCall(fn, func(c ssa.CallInstruction) {
			g := staticCallee(c)
			if g == nil || g.Pkg == nil || g.Pkg.Pkg.Path() != "net/http" || recvType(g) == nil {
				return
			}
			if nn := namedOf(recvType(g)); nn == nil || nn.Obj().Name() != "Server" {
				return
			}
			var wantTLS bool
			switch g.Name() {
			case "Serve", "ListenAndServe":
				wantTLS = false
			case "ServeTLS", "ListenAndServeTLS":
				wantTLS = true
			default:
				return
			}
			n++
			ok := condGuard(c.Block(), func(cd Cond) bool {
				t, ok := tlsEvidence(cd)
				return ok && t == wantTLS
			})
			r.Check(R, fmt.Sprintf("func %s / %s only when the listener's TLS configuration %s", fnName(fn), g.Name(), map[bool]string{true: "is set", false: "is absent"}[wantTLS]), p.instrPos(c), ok, "a listener configured for TLS must never fall back to plain HTTP (its transports report 'tls')")
		})
	}
	if n == 0 {
		r.Undecided(R, "websocket listener / Serve or ServeTLS", "-", "no call found")
	}
}

type constSite struct {
	val     string
	isConst bool
	blk, to *ssa.BasicBlock
}

// constSites: the constant strings a value may carry with, for each, the edge (or block) on which it is chosen.
func constSites(v ssa.Value, at *ssa.BasicBlock, d int) []constSite {
	v = stripConv(v)
	if cs, ok := constString(v); ok {
		return []constSite{{val: cs, isConst: true, blk: at}}
	}
	if ph, ok := v.(*ssa.Phi); ok && d < 6 {
		var out []constSite
		for i, e := range ph.Edges {
			if cs, ok := constString(stripConv(e)); ok {
				out = append(out, constSite{val: cs, isConst: true, blk: ph.Block().Preds[i], to: ph.Block()})
			} else {
				out = append(out, constSites(e, ph.Block().Preds[i], d+1)...)
			}
		}
		return out
	}
	return []constSite{{blk: at}}
}
