package main

import (
	"go/token"
	"go/types"
	"sort"
	"strings"

	"golang.org/x/tools/go/ssa"
)

// Anchors are the semantic handles shared by the channel/handshake rules, resolved from the program, never by
// private names.
type Anchors struct {
	transportSends []ssa.CallInstruction // every dynamic Transport.Send call in lime (outside transport implementations)
	transportRecvs []ssa.CallInstruction // every dynamic Transport.Receive call
	sessionSenders []*ssa.Function       // functions that hand a *Session parameter to Transport.Send
	dataSenders    []*ssa.Function       // functions that hand an envelope-interface parameter to Transport.Send
	sessionReaders []*ssa.Function       // functions returning (*Session, error) that call Transport.Receive
	receiver       *ssa.Function         // the receiver goroutine's function
	goSite         *ssa.Go               // the go statement spawning it
	startFn        *ssa.Function         // function containing that go statement
	stopFn         *ssa.Function         // function that cancels the receiver and waits for it
	setterLocked   []*ssa.Function       // functions storing channel.state directly
	setterFull     []*ssa.Function       // wrappers that call a locked setter and start/stop the receiver
	streams        []*types.Var          // chan-typed fields of channel that carry envelopes (4 data + session)
	doneField      *types.Var            // chan struct{} field closed by the receiver
	sendMu         *types.Var
	listenFn       *ssa.Function // the dispatch loop
}

func (s *Sem) anchors() *Anchors {
	if s.anch != nil {
		return s.anch
	}
	p := s.p
	a := &Anchors{}
	s.anch = a
	transportImpl := map[*ssa.Function]bool{}
	for _, m := range []string{"Send", "Receive", "Close", "SetEncryption", "SetCompression"} {
		for _, f := range p.Implementations(s.transportT, m) {
			transportImpl[f] = true
		}
	}
	var envIface types.Object
	if et := p.Type("envelope"); et != nil {
		envIface = et.Obj()
	}
	for _, fn := range p.LimeFuncs() {
		if transportImpl[topLevel(fn)] {
			continue
		}
		eachCall(fn, func(c ssa.CallInstruction) {
			if s.isTransportCall(c, "Send") {
				a.transportSends = append(a.transportSends, c)
				arg := c.Common().Args[len(c.Common().Args)-1]
				for _, l := range leaves(arg) {
					if pr, ok := stripConv(l).(*ssa.Parameter); ok && pr.Parent() == fn {
						if typeIs(pr.Type(), s.sessionT) {
							a.sessionSenders = appendFn(a.sessionSenders, fn)
						} else if envIface != nil && types.Identical(pr.Type(), envIface.Type()) {
							a.dataSenders = appendFn(a.dataSenders, fn)
						}
					}
				}
			}
			if s.isTransportCall(c, "Receive") {
				a.transportRecvs = append(a.transportRecvs, c)
				res := fn.Signature.Results()
				if res.Len() == 2 && typeIs(res.At(0).Type(), s.sessionT) {
					a.sessionReaders = appendFn(a.sessionReaders, fn)
				}
			}
		})
	}
	// receiver goroutine
	for _, fn := range p.LimeFuncs() {
		eachInstr(fn, func(in ssa.Instruction) {
			g, ok := in.(*ssa.Go)
			if !ok {
				return
			}
			for _, callee := range p.calleesAt(g) {
				calls := false
				eachCall(callee, func(c ssa.CallInstruction) {
					if s.isTransportCall(c, "Receive") {
						calls = true
					}
				})
				if calls {
					a.receiver, a.goSite, a.startFn = callee, g, fn
				}
			}
		})
	}
	// channel-typed fields
	if st, ok := s.channelT.Underlying().(*types.Struct); ok {
		// the fields of the channel struct, including those of plain struct-typed fields declared in the package
		var flat []*types.Var
		var collect func(st *types.Struct, d int)
		collect = func(st *types.Struct, d int) {
			for i := 0; i < st.NumFields(); i++ {
				f := st.Field(i)
				flat = append(flat, f)
				if n := namedOf(f.Type()); n != nil && d < 2 && n.Obj().Pkg() == p.LimeT {
					if _, isPtr := f.Type().(*types.Pointer); isPtr {
						continue
					}
					if sub, ok := n.Underlying().(*types.Struct); ok {
						collect(sub, d+1)
					}
				}
			}
		}
		collect(st, 0)
		for _, f := range flat {
			ch, ok := f.Type().Underlying().(*types.Chan)
			if !ok {
				continue
			}
			if _, isPtr := ch.Elem().Underlying().(*types.Pointer); isPtr {
				a.streams = append(a.streams, f)
			} else if _, isStruct := ch.Elem().Underlying().(*types.Struct); isStruct {
				a.doneField = f
			}
		}
		for _, f := range flat {
			if f.Type().String() == "sync.Mutex" {
				// the send mutex is the one held around Transport.Send in the data sender
				for _, c := range a.transportSends {
					hl := heldLocks(c.Parent())[c]
					for k := range hl {
						if k == "W:"+f.Name() || strings.HasSuffix(k, "."+f.Name()) && strings.HasPrefix(k, "W:") {
							a.sendMu = f
						}
					}
				}
			}
		}
	}
	// setters
	for fn := range s.stateSetters {
		a.setterLocked = appendFn(a.setterLocked, fn)
	}
	sort.Slice(a.setterLocked, func(i, j int) bool { return a.setterLocked[i].Pos() < a.setterLocked[j].Pos() })
	for _, fn := range p.LimeFuncs() {
		if s.stateSetters[fn] {
			continue
		}
		callsSetter := false
		eachCall(fn, func(c ssa.CallInstruction) {
			if g := staticCallee(c); g != nil && s.stateSetters[g] {
				// forwards its own parameter
				args := c.Common().Args
				if pr, ok := stripConv(args[len(args)-1]).(*ssa.Parameter); ok && pr.Parent() == fn {
					callsSetter = true
				}
			}
		})
		if callsSetter {
			a.setterFull = appendFn(a.setterFull, fn)
		}
	}
	// stop routine: in-package function that receives from the done field and calls a CancelFunc field
	for _, fn := range p.LimeFuncs() {
		if fn.Parent() != nil || a.doneField == nil {
			continue
		}
		waits, cancels := false, false
		eachInstr(fn, func(in ssa.Instruction) {
			if u, ok := in.(*ssa.UnOp); ok && u.Op == token.ARROW && readsField(u.X, a.doneField) {
				waits = true
			}
			if c, ok := in.(ssa.CallInstruction); ok && !c.Common().IsInvoke() && staticCallee(c) == nil {
				if n := namedOf(c.Common().Value.Type()); n != nil && n.Obj().Name() == "CancelFunc" {
					cancels = true
				}
			}
		})
		if waits && cancels && typeIs(recvType(fn), s.channelT) {
			a.stopFn = fn
		}
	}
	// dispatch loop: function with a *channel parameter whose select receives from the stream accessors
	for _, fn := range p.LimeFuncs() {
		if fn.Parent() != nil {
			continue
		}
		hasChanParam := false
		for _, pr := range fn.Params {
			if typeIs(pr.Type(), s.channelT) && pr != fn.Params[0] {
				hasChanParam = true
			}
		}
		if !hasChanParam {
			continue
		}
		eachInstr(fn, func(in ssa.Instruction) {
			if sel, ok := in.(*ssa.Select); ok && len(sel.States) >= 5 {
				a.listenFn = fn
			}
		})
	}
	return a
}

func recvType(fn *ssa.Function) types.Type {
	if fn.Signature.Recv() == nil {
		return types.Typ[types.Invalid]
	}
	return fn.Signature.Recv().Type()
}

func appendFn(l []*ssa.Function, f *ssa.Function) []*ssa.Function {
	for _, x := range l {
		if x == f {
			return l
		}
	}
	return append(l, f)
}

func containsFn(l []*ssa.Function, f *ssa.Function) bool {
	for _, x := range l {
		if x == f {
			return true
		}
	}
	return false
}

// boundRefs lists the places where method fn is turned into a bound-method closure (c.fn as a value) or called directly.
func (p *Prog) methodRefs(fn *ssa.Function) []ssa.Instruction {
	var out []ssa.Instruction
	for _, f := range p.LimeFuncs() {
		eachInstr(f, func(in ssa.Instruction) {
			switch x := in.(type) {
			case *ssa.MakeClosure:
				if g, ok := x.Fn.(*ssa.Function); ok && g.Synthetic != "" && g.Object() == fn.Object() && fn.Object() != nil {
					out = append(out, in)
				}
				// fn is itself a function literal: the place where it is made is its (only) reference
				if g, ok := x.Fn.(*ssa.Function); ok && g == fn {
					out = append(out, in)
				}
			case ssa.CallInstruction:
				if staticCallee(x) == fn {
					out = append(out, in)
				}
			}
		})
	}
	return out
}

// closeSites / sendSites on channel-typed struct fields.
type chanSite struct {
	in    ssa.Instruction
	field *types.Var
	fn    *ssa.Function
}

func (p *Prog) chanCloseSites(fns []*ssa.Function) []chanSite {
	var out []chanSite
	for _, fn := range fns {
		eachCall(fn, func(c ssa.CallInstruction) {
			if b, ok := c.Common().Value.(*ssa.Builtin); ok && b.Name() == "close" {
				ap := pathOf(c.Common().Args[0])
				out = append(out, chanSite{c, ap.Last(), fn})
			}
		})
	}
	return out
}

func (p *Prog) chanSendSites(fns []*ssa.Function) []chanSite {
	var out []chanSite
	for _, fn := range fns {
		eachInstr(fn, func(in ssa.Instruction) {
			switch x := in.(type) {
			case *ssa.Send:
				out = append(out, chanSite{in, pathOf(x.Chan).Last(), fn})
			case *ssa.Select:
				for _, st := range x.States {
					if st.Dir == types.SendOnly {
						out = append(out, chanSite{in, pathOf(st.Chan).Last(), fn})
					}
				}
			}
		})
	}
	return out
}

// chanOfAccessor resolves a value that is a channel obtained from a field or from an accessor method returning a field.
func (s *Sem) chanField(v ssa.Value) *types.Var {
	v = stripConv(v)
	if f := pathOf(v).Last(); f != nil {
		if _, ok := f.Type().Underlying().(*types.Chan); ok {
			return f
		}
	}
	if call, _ := callOf(v); call != nil {
		if g := call.Call.StaticCallee(); g != nil && g.Pkg == s.p.Lime {
			var res *types.Var
			n := 0
			for _, rl := range returnLeaves(g, 0) {
				n++
				if f := pathOf(rl.v).Last(); f != nil {
					res = f
				}
			}
			if n == 1 {
				return res
			}
		}
	}
	return nil
}
