package main

import (
	"go/token"
	"go/types"
	"regexp"
	"sort"
	"strings"

	"golang.org/x/tools/go/ssa"
)

// privateKey names a private function of lime-go by receiver type and name ("channel.sendSession", "intersect").
func privateKey(fn *ssa.Function) string {
	if r := fn.Signature.Recv(); r != nil {
		t := r.Type()
		if pt, ok := t.(*types.Pointer); ok {
			t = pt.Elem()
		}
		if n, ok := t.(*types.Named); ok {
			return n.Obj().Name() + "." + fn.Name()
		}
	}
	return fn.Name()
}

func fnSigString(fn *ssa.Function) string {
	q := func(p *types.Package) string { return "" }
	var sb strings.Builder
	sb.WriteString("func(")
	sig := fn.Signature
	for i := 0; i < sig.Params().Len(); i++ {
		if i > 0 {
			sb.WriteString(", ")
		}
		if sig.Variadic() && i == sig.Params().Len()-1 {
			sb.WriteString("...")
		}
		sb.WriteString(types.TypeString(sig.Params().At(i).Type(), q))
	}
	sb.WriteString(")")
	for i := 0; i < sig.Results().Len(); i++ {
		sb.WriteString(" " + types.TypeString(sig.Results().At(i).Type(), q))
	}
	return sb.String()
}

// privateFuncs lists the named private functions and methods (no literals) of lime and chat.
func (p *Prog) privateFuncs() []*ssa.Function {
	var out []*ssa.Function
	add := func(fn *ssa.Function) {
		if fn == nil || fn.Blocks == nil || fn.Synthetic != "" || token.IsExported(fn.Name()) || fn.Name() == "init" || strings.HasPrefix(fn.Name(), "init#") || fn.Name() == "main" {
			return
		}
		out = append(out, fn)
	}
	for _, pk := range []*ssa.Package{p.Lime, p.Chat} {
		for _, m := range pk.Members {
			switch m := m.(type) {
			case *ssa.Function:
				add(m)
			case *ssa.Type:
				if nt, ok := m.Type().(*types.Named); ok {
					for i := 0; i < nt.NumMethods(); i++ {
						add(p.SSA.FuncValue(nt.Method(i)))
					}
				}
			}
		}
	}
	sort.Slice(out, func(i, j int) bool { return privateKey(out[i]) < privateKey(out[j]) })
	return out
}

// pinnedPredicate: the private functions the rules were written against keep their call boundary. They are the entries of
// knownPrivate (the private functions of the pinned tree), looked up through the alias table; an entry whose name is gone
// is matched to the single private function with the same receiver and signature that is not itself an entry (a rename).
func (p *Prog) pinnedPredicate() func(*ssa.Function) bool {
	cur := map[string]*ssa.Function{}
	for _, fn := range p.privateFuncs() {
		if fn.Pkg == p.Lime {
			cur[privateKey(fn)] = fn
		}
	}
	// role names → current names, for types and methods
	typeNow := func(t string) string {
		if al := p.aliasOf("type", t); al != "" {
			return al
		}
		return t
	}
	pinned := map[*ssa.Function]bool{}
	taken := map[string]bool{}
	var missing []string
	for k := range knownPrivate {
		ck := k
		if i := strings.IndexByte(k, '.'); i >= 0 {
			t, m := k[:i], k[i+1:]
			if al := p.aliasOf("method", k); al != "" {
				m = al
			}
			ck = typeNow(t) + "." + m
		} else if al := p.aliasOf("func", k); al != "" {
			ck = al
		}
		if fn := cur[ck]; fn != nil {
			pinned[fn] = true
			taken[ck] = true
		} else {
			missing = append(missing, k)
		}
	}
	sort.Strings(missing)
	// normalise current type names back to role names inside signatures
	var repl []*regexp.Regexp
	var replTo []string
	for role, now := range p.alias {
		if strings.HasPrefix(role, "type:") && now != role[5:] {
			repl = append(repl, regexp.MustCompile(`\b`+regexp.QuoteMeta(now)+`\b`))
			replTo = append(replTo, role[5:])
		}
	}
	norm := func(s string) string {
		for i, re := range repl {
			s = re.ReplaceAllString(s, replTo[i])
		}
		return s
	}
	for _, k := range missing {
		recv := ""
		if i := strings.IndexByte(k, '.'); i >= 0 {
			recv = typeNow(k[:i])
		}
		var cands []*ssa.Function
		for ck, fn := range cur {
			if taken[ck] || pinned[fn] {
				continue
			}
			r := ""
			if i := strings.IndexByte(ck, '.'); i >= 0 {
				r = ck[:i]
			}
			if r == recv && norm(fnSigString(fn)) == knownPrivate[k] {
				cands = append(cands, fn)
			}
		}
		if len(cands) == 1 {
			pinned[cands[0]] = true
			taken[privateKey(cands[0])] = true
			continue
		}
		// a method that became a function or a function that became a method: same bare name, declared once
		bare := k
		if i := strings.IndexByte(k, '.'); i >= 0 {
			bare = k[i+1:]
		}
		var same []*ssa.Function
		for ck, fn := range cur {
			if taken[ck] || pinned[fn] {
				continue
			}
			if fn.Name() == bare {
				same = append(same, fn)
			}
		}
		if len(same) == 1 {
			pinned[same[0]] = true
			taken[privateKey(same[0])] = true
		}
	}
	return func(fn *ssa.Function) bool {
		if fn.Pkg != p.Lime {
			return true // package chat has no private helpers the rules care about; leave it alone
		}
		return pinned[fn]
	}
}

// knownPrivate: the private functions and methods of package lime on the pinned tree (generated with
// `limecheck -noinline -dumpknown`), with their signatures. It decides only where the helper normalisation keeps a call
// boundary; it is never compared with the code to reach a verdict.
var knownPrivate = map[string]string{
	"Client.buildChannel":                              "func(Context) *ClientChannel error",
	"Client.channelOK":                                 "func() bool",
	"Client.getOrBuildChannel":                         "func(Context) *ClientChannel error",
	"Client.startListener":                             "func()",
	"Client.stopListener":                              "func()",
	"ClientChannel.authenticateSession":                "func(Context, Identity, Authentication, string) *Session error",
	"ClientChannel.negotiateSession":                   "func(Context, SessionCompression, SessionEncryption) *Session error",
	"ClientChannel.receiveSessionFromServer":           "func(Context) *Session error",
	"ClientChannel.sendFinishingSession":               "func(Context) error",
	"ClientChannel.startNewSession":                    "func(Context) *Session error",
	"Command.populate":                                 "func(*rawEnvelope) error",
	"Command.toRawEnvelope":                            "func() *rawEnvelope error",
	"DocumentCollection.populate":                      "func(*rawDocumentCollection) error",
	"DocumentCollection.raw":                           "func() *rawDocumentCollection error",
	"DocumentContainer.populate":                       "func(*rawDocumentContainer) error",
	"DocumentContainer.raw":                            "func() *rawDocumentContainer error",
	"Envelope.populate":                                "func(*rawEnvelope) error",
	"Envelope.toRawEnvelope":                           "func() *rawEnvelope error",
	"EnvelopeMux.handleMessage":                        "func(Context, *Message, Sender) error",
	"EnvelopeMux.handleNotification":                   "func(Context, *Notification) error",
	"EnvelopeMux.handleRequestCommand":                 "func(Context, *RequestCommand, Sender) error",
	"EnvelopeMux.handleResponseCommand":                "func(Context, *ResponseCommand, Sender) error",
	"EnvelopeMux.listen":                               "func(Context, *channel) error",
	"Message.populate":                                 "func(*rawEnvelope) error",
	"Message.toRawEnvelope":                            "func() *rawEnvelope error",
	"Notification.populate":                            "func(*rawEnvelope) error",
	"Notification.toRawEnvelope":                       "func() *rawEnvelope error",
	"RequestCommand.populate":                          "func(*rawEnvelope) error",
	"RequestCommand.toRawEnvelope":                     "func() *rawEnvelope error",
	"ResponseCommand.populate":                         "func(*rawEnvelope) error",
	"ResponseCommand.toRawEnvelope":                    "func() *rawEnvelope error",
	"Server.consumeTransports":                         "func(Context)",
	"Server.handleChannel":                             "func(Context, *ServerChannel)",
	"ServerChannel.authenticateSession":                "func(Context, []AuthenticationScheme, func(Context, Identity, Authentication) (*AuthenticationResult, error), func(Context, Node, *ServerChannel) (Node, error)) error",
	"ServerChannel.negotiateSession":                   "func(Context, []SessionCompression, []SessionEncryption) error",
	"ServerChannel.receiveNewSession":                  "func(Context) *Session error",
	"ServerChannel.sendAuthenticatingRoundTripSession": "func(Context, Authentication) *Session error",
	"ServerChannel.sendAuthenticatingSession":          "func(Context, []AuthenticationScheme) *Session error",
	"ServerChannel.sendEstablishedSession":             "func(Context, Node) error",
	"ServerChannel.sendNegotiatingConfirmationSession": "func(Context, SessionCompression, SessionEncryption) error",
	"ServerChannel.sendNegotiatingOptionsSession":      "func(Context, []SessionCompression, []SessionEncryption) *Session error",
	"Session.populate":                                 "func(*rawEnvelope) error",
	"Session.toRawEnvelope":                            "func() *rawEnvelope error",
	"acceptTransports":                                 "func(Context, TransportListener, chan<- Transport) error",
	"buildAuthenticate":                                "func(PlainAuthenticator, KeyAuthenticator, ExternalAuthenticator) func(ctx Context, identity Identity, authentication Authentication) (*AuthenticationResult, error)",
	"channel.ensureEstablished":                        "func(string) error",
	"channel.ensureState":                              "func(SessionState, string) error",
	"channel.ensureTransportOK":                        "func(string) error",
	"channel.processCommand":                           "func(Context, RequestCommandSender, *RequestCommand) *ResponseCommand error",
	"channel.receiveSession":                           "func(Context) *Session error",
	"channel.sendSession":                              "func(Context, *Session) error",
	"channel.sendToTransport":                          "func(Context, envelope, string) error",
	"channel.setState":                                 "func(SessionState)",
	"channel.setStateWLock":                            "func(SessionState)",
	"channel.startReceiver":                            "func()",
	"channel.stopReceiver":                             "func()",
	"channel.trySubmitCommandResult":                   "func(*ResponseCommand) bool",
	"contains":                                         "func(interface{}, interface{}) bool",
	"inProcessTransportListener.listening":             "func() bool",
	"inProcessTransportListener.newClient":             "func(InProcessAddr, int) *inProcessTransport",
	"intersect":                                        "func(interface{}, interface{}) []interface{}",
	"newChannel":                                       "func(Transport, int) *channel",
	"newInProcessTransport":                            "func(InProcessAddr, int) *inProcessTransport",
	"newInProcessTransportPair":                        "func(InProcessAddr, int) *inProcessTransport *inProcessTransport",
	"rawEnvelope.envelopeType":                         "func() string error",
	"rawEnvelope.toEnvelope":                           "func() envelope error",
	"receiveFromTransport":                             "func(Context, *channel, chan<- struct{})",
	"sessionContext":                                   "func(Context, *channel) Context",
	"tcpTransport.ensureOpen":                          "func() error",
	"tcpTransport.setConn":                             "func(Conn)",
	"tcpTransportListener.ensureStarted":               "func() error",
	"tcpTransportListener.serve":                       "func(Listener)",
	"websocketTransport.ensureOpen":                    "func() error",
	"websocketTransportListener.ensureStarted":         "func() error",
	"websocketTransportListener.tls":                   "func() bool",
}
