package main

import (
	"go/token"
	"go/types"
	"regexp"
	"sort"
	"strings"

	"golang.org/x/tools/go/ssa"
)

// privateKey names a private function of lime-go by receiver type and name ("channel.sendSession", "intersect").
func privateKey(fn *ssa.Function) string {
	if r := fn.Signature.Recv(); r != nil {
		t := r.Type()
		if pt, ok := t.(*types.Pointer); ok {
			t = pt.Elem()
		}
		if n, ok := t.(*types.Named); ok {
			return n.Obj().Name() + "." + fn.Name()
		}
	}
	return fn.Name()
}

func fnSigString(fn *ssa.Function) string {
	sig := fn.Signature
	s := types.TypeString(types.NewSignatureType(nil, nil, nil, sig.Params(), sig.Results(), sig.Variadic()), func(p *types.Package) string { return "" })
	return s
}

// privateFuncs lists the named private functions and methods (no literals) of lime and chat.
func (p *Prog) privateFuncs() []*ssa.Function {
	var out []*ssa.Function
	add := func(fn *ssa.Function) {
		if fn == nil || fn.Blocks == nil || fn.Synthetic != "" || token.IsExported(fn.Name()) || fn.Name() == "init" || strings.HasPrefix(fn.Name(), "init#") || fn.Name() == "main" {
			return
		}
		out = append(out, fn)
	}
	for _, pk := range []*ssa.Package{p.Lime, p.Chat} {
		for _, m := range pk.Members {
			switch m := m.(type) {
			case *ssa.Function:
				add(m)
			case *ssa.Type:
				if nt, ok := m.Type().(*types.Named); ok {
					for i := 0; i < nt.NumMethods(); i++ {
						add(p.SSA.FuncValue(nt.Method(i)))
					}
				}
			}
		}
	}
	sort.Slice(out, func(i, j int) bool { return privateKey(out[i]) < privateKey(out[j]) })
	return out
}

// pinnedPredicate: the private functions the rules were written against keep their call boundary. They are the entries of
// knownPrivate (the private functions of the pinned tree), looked up through the alias table; an entry whose name is gone
// is matched to the single private function with the same receiver and signature that is not itself an entry (a rename).
func (p *Prog) pinnedPredicate() func(*ssa.Function) bool {
	cur := map[string]*ssa.Function{}
	for _, fn := range p.privateFuncs() {
		if fn.Pkg == p.Lime {
			cur[privateKey(fn)] = fn
		}
	}
	// role names → current names, for types and methods
	typeNow := func(t string) string {
		if al := p.aliasOf("type", t); al != "" {
			return al
		}
		return t
	}
	pinned := map[*ssa.Function]bool{}
	taken := map[string]bool{}
	var missing []string
	for k := range knownPrivate {
		ck := k
		if i := strings.IndexByte(k, '.'); i >= 0 {
			t, m := k[:i], k[i+1:]
			if al := p.aliasOf("method", k); al != "" {
				m = al
			}
			ck = typeNow(t) + "." + m
		} else if al := p.aliasOf("func", k); al != "" {
			ck = al
		}
		if fn := cur[ck]; fn != nil {
			pinned[fn] = true
			taken[ck] = true
		} else {
			missing = append(missing, k)
		}
	}
	sort.Strings(missing)
	// normalise current type names back to role names inside signatures
	var repl []*regexp.Regexp
	var replTo []string
	for role, now := range p.alias {
		if strings.HasPrefix(role, "type:") && now != role[5:] {
			repl = append(repl, regexp.MustCompile(`\b`+regexp.QuoteMeta(now)+`\b`))
			replTo = append(replTo, role[5:])
		}
	}
	norm := func(s string) string {
		for i, re := range repl {
			s = re.ReplaceAllString(s, replTo[i])
		}
		return s
	}
	for _, k := range missing {
		recv := ""
		if i := strings.IndexByte(k, '.'); i >= 0 {
			recv = typeNow(k[:i])
		}
		var cands []*ssa.Function
		for ck, fn := range cur {
			if taken[ck] || pinned[fn] {
				continue
			}
			r := ""
			if i := strings.IndexByte(ck, '.'); i >= 0 {
				r = ck[:i]
			}
			if r == recv && norm(fnSigString(fn)) == knownPrivate[k] {
				cands = append(cands, fn)
			}
		}
		if len(cands) == 1 {
			pinned[cands[0]] = true
			taken[privateKey(cands[0])] = true
		}
	}
	return func(fn *ssa.Function) bool {
		if fn.Pkg != p.Lime {
			return true // package chat has no private helpers the rules care about; leave it alone
		}
		return pinned[fn]
	}
}

// knownPrivate: the private functions and methods of package lime on the pinned tree (generated with
// `limecheck -noinline -dumpknown`), with their signatures. It decides only where the helper normalisation keeps a call
// boundary; it is never compared with the code to reach a verdict.
var knownPrivate = map[string]string{
	"Client.buildChannel":                              "func(ctx Context) (*ClientChannel, error)",
	"Client.channelOK":                                 "func() bool",
	"Client.getOrBuildChannel":                         "func(ctx Context) (*ClientChannel, error)",
	"Client.startListener":                             "func()",
	"Client.stopListener":                              "func()",
	"ClientChannel.authenticateSession":                "func(ctx Context, identity Identity, auth Authentication, instance string) (*Session, error)",
	"ClientChannel.negotiateSession":                   "func(ctx Context, comp SessionCompression, encrypt SessionEncryption) (*Session, error)",
	"ClientChannel.receiveSessionFromServer":           "func(ctx Context) (*Session, error)",
	"ClientChannel.sendFinishingSession":               "func(ctx Context) error",
	"ClientChannel.startNewSession":                    "func(ctx Context) (*Session, error)",
	"Command.populate":                                 "func(raw *rawEnvelope) error",
	"Command.toRawEnvelope":                            "func() (*rawEnvelope, error)",
	"DocumentCollection.populate":                      "func(raw *rawDocumentCollection) error",
	"DocumentCollection.raw":                           "func() (*rawDocumentCollection, error)",
	"DocumentContainer.populate":                       "func(raw *rawDocumentContainer) error",
	"DocumentContainer.raw":                            "func() (*rawDocumentContainer, error)",
	"Envelope.populate":                                "func(raw *rawEnvelope) error",
	"Envelope.toRawEnvelope":                           "func() (*rawEnvelope, error)",
	"EnvelopeMux.handleMessage":                        "func(ctx Context, msg *Message, s Sender) error",
	"EnvelopeMux.handleNotification":                   "func(ctx Context, not *Notification) error",
	"EnvelopeMux.handleRequestCommand":                 "func(ctx Context, cmd *RequestCommand, s Sender) error",
	"EnvelopeMux.handleResponseCommand":                "func(ctx Context, cmd *ResponseCommand, s Sender) error",
	"EnvelopeMux.listen":                               "func(ctx Context, c *channel) error",
	"Message.populate":                                 "func(raw *rawEnvelope) error",
	"Message.toRawEnvelope":                            "func() (*rawEnvelope, error)",
	"Notification.populate":                            "func(raw *rawEnvelope) error",
	"Notification.toRawEnvelope":                       "func() (*rawEnvelope, error)",
	"RequestCommand.populate":                          "func(raw *rawEnvelope) error",
	"RequestCommand.toRawEnvelope":                     "func() (*rawEnvelope, error)",
	"ResponseCommand.populate":                         "func(raw *rawEnvelope) error",
	"ResponseCommand.toRawEnvelope":                    "func() (*rawEnvelope, error)",
	"Server.consumeTransports":                         "func(ctx Context)",
	"Server.handleChannel":                             "func(ctx Context, c *ServerChannel)",
	"ServerChannel.authenticateSession":                "func(ctx Context, schemeOpts []AuthenticationScheme, authenticate func(Context, Identity, Authentication) (*AuthenticationResult, error), register func(Context, Node, *ServerChannel) (Node, error)) error",
	"ServerChannel.negotiateSession":                   "func(ctx Context, compOpts []SessionCompression, encryptOpts []SessionEncryption) error",
	"ServerChannel.receiveNewSession":                  "func(ctx Context) (*Session, error)",
	"ServerChannel.sendAuthenticatingRoundTripSession": "func(ctx Context, roundTrip Authentication) (*Session, error)",
	"ServerChannel.sendAuthenticatingSession":          "func(ctx Context, schemeOpts []AuthenticationScheme) (*Session, error)",
	"ServerChannel.sendEstablishedSession":             "func(ctx Context, node Node) error",
	"ServerChannel.sendNegotiatingConfirmationSession": "func(ctx Context, comp SessionCompression, encrypt SessionEncryption) error",
	"ServerChannel.sendNegotiatingOptionsSession":      "func(ctx Context, compOptions []SessionCompression, encryptOptions []SessionEncryption) (*Session, error)",
	"Session.populate":                                 "func(raw *rawEnvelope) error",
	"Session.toRawEnvelope":                            "func() (*rawEnvelope, error)",
	"acceptTransports":                                 "func(ctx Context, listener TransportListener, c chan<- Transport) error",
	"buildAuthenticate":                                "func(plainAuth PlainAuthenticator, keyAuth KeyAuthenticator, externalAuth ExternalAuthenticator) func(ctx Context, identity Identity, authentication Authentication) (*AuthenticationResult, error)",
	"channel.ensureEstablished":                        "func(action string) error",
	"channel.ensureState":                              "func(state SessionState, action string) error",
	"channel.ensureTransportOK":                        "func(action string) error",
	"channel.processCommand":                           "func(ctx Context, sender RequestCommandSender, reqCmd *RequestCommand) (*ResponseCommand, error)",
	"channel.receiveSession":                           "func(ctx Context) (*Session, error)",
	"channel.sendSession":                              "func(ctx Context, ses *Session) error",
	"channel.sendToTransport":                          "func(ctx Context, e envelope, action string) error",
	"channel.setState":                                 "func(state SessionState)",
	"channel.setStateWLock":                            "func(state SessionState)",
	"channel.startReceiver":                            "func()",
	"channel.stopReceiver":                             "func()",
	"channel.trySubmitCommandResult":                   "func(respCmd *ResponseCommand) bool",
	"contains":                                         "func(a interface{}, e interface{}) bool",
	"inProcessTransportListener.listening":             "func() bool",
	"inProcessTransportListener.newClient":             "func(addr InProcessAddr, bufferSize int) *inProcessTransport",
	"intersect":                                        "func(a interface{}, b interface{}) []interface{}",
	"newChannel":                                       "func(t Transport, bufferSize int) *channel",
	"newInProcessTransport":                            "func(addr InProcessAddr, bufferSize int) *inProcessTransport",
	"newInProcessTransportPair":                        "func(addr InProcessAddr, bufferSize int) (client *inProcessTransport, server *inProcessTransport)",
	"rawEnvelope.envelopeType":                         "func() (string, error)",
	"rawEnvelope.toEnvelope":                           "func() (envelope, error)",
	"receiveFromTransport":                             "func(ctx Context, c *channel, done chan<- struct{})",
	"sessionContext":                                   "func(ctx Context, c *channel) Context",
	"tcpTransport.ensureOpen":                          "func() error",
	"tcpTransport.setConn":                             "func(conn Conn)",
	"tcpTransportListener.ensureStarted":               "func() error",
	"tcpTransportListener.serve":                       "func(listener Listener)",
	"websocketTransport.ensureOpen":                    "func() error",
	"websocketTransportListener.ensureStarted":         "func() error",
	"websocketTransportListener.tls":                   "func() bool",
}
