package main

import (
	"fmt"
	"go/token"
	"go/types"

	"golang.org/x/tools/go/ssa"
)

func init() {
	register("C09", "that two live endpoints actually agree at run time and what bytes are on the wire after the upgrade (crypto/tls behaviour); client selector callbacks", c09)
	register("C10", "what crypto/tls actually does after SetEncryption; run-time encryption state at the moment credentials cross; clients that refuse negotiation get a failed session by the C07/C09 rules", c10)
}

// sliceOrigins follows a slice value backwards through append / phi / varargs / range-element loads and returns the
// values its elements may originate from (whole containers such as parameters or call results).
func sliceOrigins(v ssa.Value) []ssa.Value {
	var out []ssa.Value
	seen := map[ssa.Value]bool{}
	var elem func(v ssa.Value, d int)
	var sl func(v ssa.Value, d int)
	elem = func(v ssa.Value, d int) {
		v = stripConv(v)
		if seen[v] || d > 40 {
			return
		}
		seen[v] = true
		switch x := v.(type) {
		case *ssa.TypeAssert:
			elem(x.X, d+1)
		case *ssa.Phi:
			for _, e := range x.Edges {
				elem(e, d+1)
			}
		case *ssa.UnOp:
			if x.Op == token.MUL {
				if ia, ok := x.X.(*ssa.IndexAddr); ok {
					sl(ia.X, d+1)
					return
				}
			}
			out = append(out, v)
		case *ssa.Call:
			// reflect pass-through facts: Value.Index(i).Interface() preserves element provenance of ValueOf(x)
			if f := x.Call.StaticCallee(); f != nil && f.Pkg != nil && f.Pkg.Pkg.Path() == "reflect" {
				switch f.Name() {
				case "Interface", "Index":
					elem(x.Call.Args[0], d+1)
					return
				case "ValueOf":
					sl(x.Call.Args[0], d+1)
					return
				}
			}
			out = append(out, v)
		default:
			out = append(out, v)
		}
	}
	sl = func(v ssa.Value, d int) {
		v = stripConv(v)
		if seen[v] || d > 40 {
			return
		}
		seen[v] = true
		switch x := v.(type) {
		case *ssa.Phi:
			for _, e := range x.Edges {
				sl(e, d+1)
			}
		case *ssa.Call:
			if b, ok := x.Call.Value.(*ssa.Builtin); ok && b.Name() == "append" {
				sl(x.Call.Args[0], d+1)
				if len(x.Call.Args) > 1 {
					sl(x.Call.Args[1], d+1)
				}
				return
			}
			if f := x.Call.StaticCallee(); f != nil && f.Pkg == nil && f.Origin() != nil {
				f = f.Origin()
				if f.Pkg != nil && f.Pkg.Pkg.Path() == "slices" && (f.Name() == "Clone" || f.Name() == "Clip" || f.Name() == "Compact") {
					sl(x.Call.Args[0], d+1)
					return
				}
			}
			if f := x.Call.StaticCallee(); f != nil && f.Pkg != nil && f.Pkg.Pkg.Path() == "slices" && (f.Name() == "Clone" || f.Name() == "Clip" || f.Name() == "Compact") {
				sl(x.Call.Args[0], d+1)
				return
			}
			out = append(out, v)
		case *ssa.Slice:
			// slice of a local array: its element stores
			if al, ok := x.X.(*ssa.Alloc); ok {
				n := 0
				for _, ref := range *al.Referrers() {
					if ia, ok := ref.(*ssa.IndexAddr); ok {
						for _, r2 := range *ia.Referrers() {
							if st, ok := r2.(*ssa.Store); ok && st.Addr == ia {
								n++
								elem(st.Val, d+1)
							}
						}
					}
				}
				_ = n
				return
			}
			sl(x.X, d+1)
		case *ssa.MakeSlice:
			// filled by copy(dst, src)
			for _, ref := range *x.Referrers() {
				if c, ok := ref.(*ssa.Call); ok {
					if b, ok := c.Call.Value.(*ssa.Builtin); ok && b.Name() == "copy" && stripConv(c.Call.Args[0]) == ssa.Value(x) {
						sl(c.Call.Args[1], d+1)
					}
				}
			}
		case *ssa.UnOp:
			if x.Op == token.MUL {
				if al, ok := x.X.(*ssa.Alloc); ok {
					for _, ref := range *al.Referrers() {
						if st, ok := ref.(*ssa.Store); ok && st.Addr == al {
							sl(st.Val, d+1)
						}
					}
					return
				}
			}
			out = append(out, v)
		default:
			out = append(out, v)
		}
	}
	sl(v, 0)
	return out
}

// negotiation anchors
type negAnchors struct {
	serverEst   *ssa.Function // ServerChannel.EstablishSession
	negDriver   *ssa.Function // server function emitting the confirmation
	negCall     *ssa.Call     // call of negDriver in serverEst
	authCall    *ssa.Call     // call of the authentication driver in serverEst
	optionsEmit emissionSite  // emission carrying option lists
	confirmEmit emissionSite  // emission carrying the confirmed pair
	confirmFn   *ssa.Function
}

func negotiationAnchors(s *Sem) (*negAnchors, string) {
	p := s.p
	na := &negAnchors{serverEst: p.Method("ServerChannel", "EstablishSession")}
	if na.serverEst == nil {
		return nil, "ServerChannel.EstablishSession not found"
	}
	for _, e := range sessionEmissions(s, "server") {
		if e.alloc == nil {
			continue
		}
		if len(storesInto(e.alloc, "EncryptionOptions")) > 0 {
			na.optionsEmit = e
		}
		if len(storesInto(e.alloc, "Encryption")) > 0 && len(storesInto(e.alloc, "Compression")) > 0 {
			na.confirmEmit = e
			na.confirmFn = e.fn
		}
	}
	if na.optionsEmit.fn == nil || na.confirmFn == nil {
		return nil, "emission of negotiation options / confirmation not found"
	}
	// the negotiation driver: the server function calling both emitters
	for _, fn := range p.LimeFuncs() {
		if s.recvKind(fn) != "server" {
			continue
		}
		a, b := false, false
		eachCall(fn, func(c ssa.CallInstruction) {
			if staticCallee(c) == na.optionsEmit.fn {
				a = true
			}
			if staticCallee(c) == na.confirmFn {
				b = true
			}
		})
		if a && b {
			na.negDriver = fn
		}
	}
	if na.negDriver == nil {
		return nil, "negotiation driver not found"
	}
	authCalls := callbackCalls(p.LimeFuncs(), authSig)
	if len(authCalls) != 1 {
		return nil, "authentication callback call not found"
	}
	authDriver := authCalls[0].Parent()
	eachInstr(na.serverEst, func(in ssa.Instruction) {
		if c, ok := in.(*ssa.Call); ok {
			switch c.Call.StaticCallee() {
			case na.negDriver:
				na.negCall = c
			case authDriver:
				na.authCall = c
			}
		}
	})
	if na.negCall == nil || na.authCall == nil {
		return nil, "EstablishSession does not call the negotiation and authentication drivers"
	}
	return na, ""
}

func c09(r *Report, s *Sem) {
	p := r.P
	defer r.Import(s, "C12", "R4", "R10", "the upgrade really switches the byte path: the JSON encoder/decoder of a TCP transport are rebuilt over the wrapper of the current connection after a successful TLS handshake (never kept from the plain connection)", 8)
	R1 := r.Rule("R1", "offer = configured ∩ supported: the option lists of the emitted negotiating envelope come only from the intersection helper applied to (configured list, Transport.Supported*()), and that helper (or the same loop written in place) only keeps elements of its first operand that pass a membership test in the second", 3)
	R2 := r.Rule("R2", "membership gate: the confirmation is sent only on the ok edges of lookups of the peer's compression and encryption in sets built only from the offered lists, for a peer envelope in state negotiating carrying the session id; the confirmed pair is the peer's selection", 6)
	R3 := r.Rule("R3", "the server applies what it confirmed: every success path from the confirmation to the driver's return passes SetCompression/SetEncryption with the confirmed value unless it crossed the edge 'already equal'; their errors are returned; authentication starts only on the negotiation's err == nil edge", 4)
	R4 := r.Rule("R4", "the client applies the confirmed value (a field of the server's reply, not its own request) before its next read, and aborts on an upgrade error", 4)
	R5 := r.Rule("R5", "TCP upgrade: encryption is recorded as non-'none' only after a successful TLS Handshake, and a request for 'none' while encrypted returns an error (no downgrade)", 2)
	R6 := r.Rule("R6", "the decision to skip negotiation takes the current compression into account whenever a single compression option remains (symmetrical to C10 for compression)", 1)

	na, why := negotiationAnchors(s)
	if na == nil {
		r.Undecided(R1, "anchor-unresolved:negotiation", "-", why)
		return
	}
	// ---- R1
	inter := p.Func("intersect")
	checkOffer := func(field string, supported string, cfgParamType string) {
		base := "func " + fnName(na.optionsEmit.fn) + " / offered " + field
		// the emitted list comes from the emitter's parameter
		sts := storesInto(na.optionsEmit.alloc, field)
		var param *ssa.Parameter
		for _, st := range sts {
			for _, l := range leaves(st.Val) {
				if pr, ok := stripConv(l).(*ssa.Parameter); ok {
					param = pr
				} else {
					r.Check(R1, base, p.instrPos(st), false, "emitted list is "+describe(l)+", not the list handed in")
					return
				}
			}
		}
		if param == nil {
			r.Check(R1, base, p.pos(na.optionsEmit.fn.Pos()), false, "no store of the option list")
			return
		}
		// follow the parameter up through the negotiation driver to EstablishSession
		idx := paramIndex(param)
		var arg ssa.Value
		eachCall(na.negDriver, func(c ssa.CallInstruction) {
			if staticCallee(c) == na.optionsEmit.fn {
				arg = c.Common().Args[idx]
			}
		})
		pr2, ok := stripConv(arg).(*ssa.Parameter)
		if !ok {
			r.Check(R1, base, p.pos(na.negDriver.Pos()), false, "the negotiation driver does not forward its own parameter")
			return
		}
		top := na.negCall.Call.Args[paramIndex(pr2)]
		origins := sliceOrigins(top)
		okAll := len(origins) > 0
		detail := ""
		for _, o := range origins {
			call, _ := callOf(o)
			if call == nil || call.Call.StaticCallee() == nil || !sameFuncOrInstance(call.Call.StaticCallee(), inter) || inter == nil {
				elemType := "SessionCompression"
				if field == "EncryptionOptions" {
					elemType = "SessionEncryption"
				}
				if pr, isParam := stripConv(o).(*ssa.Parameter); isParam && pr.Parent() == na.serverEst {
					if okIn, why := inlineIntersection(s, na, elemType, supported); okIn {
						detail = why
						continue
					}
				}
				okAll = false
				detail = "an offered element may come from " + describe(o) + " (not from the intersection of configured and supported)"
				continue
			}
			// operands: configured parameter, Transport.Supported*()
			a0, a1 := sliceOrigins(call.Call.Args[0]), sliceOrigins(call.Call.Args[1])
			cfgOK := len(a0) > 0
			for _, x := range a0 {
				if pr, ok := stripConv(x).(*ssa.Parameter); !ok || pr.Parent() != na.serverEst {
					if _, isAlloc := stripConv(x).(*ssa.Alloc); isAlloc {
						continue // the empty-slice literal that replaces a nil list
					}
					cfgOK = false
				}
			}
			supOK := len(a1) > 0
			for _, x := range a1 {
				c2, _ := callOf(x)
				if c2 == nil || !s.isTransportCall(c2, supported) {
					supOK = false
				}
			}
			if !cfgOK || !supOK {
				okAll = false
				detail = fmt.Sprintf("intersection operands: configured ok=%v, %s() ok=%v", cfgOK, supported, supOK)
			}
		}
		r.Check(R1, base+" = configured ∩ "+supported+"()", p.instrPos(na.negCall), okAll, detail)
	}
	checkOffer("CompressionOptions", "SupportedCompression", "")
	checkOffer("EncryptionOptions", "SupportedEncryption", "")
	checkIntersectExact(r, s, R1)

	// ---- R2
	confirmCallInDriver := func() *ssa.Call {
		var out *ssa.Call
		eachInstr(na.negDriver, func(in ssa.Instruction) {
			if c, ok := in.(*ssa.Call); ok && c.Call.StaticCallee() == na.confirmFn {
				out = c
			}
		})
		return out
	}()
	if confirmCallInDriver == nil {
		r.Undecided(R2, "anchor-unresolved:confirmation call", "-", "not found in the negotiation driver")
		return
	}
	C := confirmCallInDriver
	base := "func " + fnName(na.negDriver)
	// the peer's reply: result #0 of the options emitter
	var ses ssa.Value
	eachInstr(na.negDriver, func(in ssa.Instruction) {
		if c, ok := in.(*ssa.Call); ok && c.Call.StaticCallee() == na.optionsEmit.fn {
			for _, ref := range *c.Referrers() {
				if ex, ok := ref.(*ssa.Extract); ok && ex.Index == 0 {
					ses = ex
				}
			}
		}
	})
	if ses == nil {
		r.Undecided(R2, base+" / peer reply", p.pos(na.negDriver.Pos()), "reply of the options envelope not found")
		return
	}
	lookupGuard := func(field string, _ *types.Named) bool {
		return offeredSetLookupGuard(C.Block(), na.negDriver, ses, field)
	}
	r.Check(R2, base+" / confirmation guarded by compression ∈ offer", p.instrPos(C), lookupGuard("Compression", nil), "ok edge of a lookup of ses.Compression in a set built only from the offered list")
	r.Check(R2, base+" / confirmation guarded by encryption ∈ offer", p.instrPos(C), lookupGuard("Encryption", nil), "ok edge of a lookup of ses.Encryption in a set built only from the offered list")
	stGuard := condGuard(C.Block(), func(cd Cond) bool {
		if cd.Op != token.EQL {
			return false
		}
		x, y := cd.X, cd.Y
		if _, isC := stripConv(x).(*ssa.Const); isC {
			x, y = y, x
		}
		cs, ok := constString(stripConv(y))
		return ok && cs == "negotiating" && fieldOf(x, ses, "State")
	})
	r.Check(R2, base+" / peer state == negotiating", p.instrPos(C), stGuard, "")
	idGuard := condGuard(C.Block(), func(cd Cond) bool {
		if cd.Op != token.EQL {
			return false
		}
		x, y := cd.X, cd.Y
		if !fieldOf(x, ses, "ID") {
			x, y = y, x
		}
		return fieldOf(x, ses, "ID") && pathOf(y).Last() == s.sessionIDF
	})
	r.Check(R2, base+" / peer echoed the session id", p.instrPos(C), idGuard, "")
	pairOK := fieldOf(C.Call.Args[len(C.Call.Args)-2], ses, "Compression") && fieldOf(C.Call.Args[len(C.Call.Args)-1], ses, "Encryption")
	r.Check(R2, base+" / confirmed pair is the peer's selection", p.instrPos(C), pairOK, "arguments: "+describe(C.Call.Args[len(C.Call.Args)-2])+", "+describe(C.Call.Args[len(C.Call.Args)-1]))
	// the confirmation emitter puts its parameters into the envelope
	okEmit := true
	for _, f := range []string{"Compression", "Encryption"} {
		for _, st := range storesInto(na.confirmEmit.alloc, f) {
			if _, isParam := stripConv(st.Val).(*ssa.Parameter); !isParam {
				okEmit = false
			}
		}
	}
	r.Check(R2, "func "+fnName(na.confirmFn)+" / emits the pair it was given", p.pos(na.confirmFn.Pos()), okEmit, "")

	// ---- R3
	for _, opt := range []struct{ field, cur, set string }{{"Compression", "Compression", "SetCompression"}, {"Encryption", "Encryption", "SetEncryption"}} {
		var setCall ssa.CallInstruction
		exits := walkFrom(na.negDriver, C, walkOpts{
			barrier: func(in ssa.Instruction) bool {
				c, ok := in.(ssa.CallInstruction)
				if ok && s.isTransportCall(c, opt.set) && fieldOf(c.Common().Args[len(c.Common().Args)-1], ses, opt.field) {
					setCall = c
					return true
				}
				return false
			},
			cutEdge: func(from *ssa.BasicBlock, k int) bool {
				ifi := ifOf(from)
				if ifi == nil {
					return false
				}
				if isNil, ok := errTestOf(ifi, k == 0, C); ok && !isNil {
					return true // confirmation failed: error path
				}
				cd := condOn(ifi, k == 0)
				if cd.Op == token.EQL {
					x, y := cd.X, cd.Y
					if !fieldOf(x, ses, opt.field) {
						x, y = y, x
					}
					if call, _ := callOf(y); call != nil && s.isTransportCall(call, opt.cur) && fieldOf(x, ses, opt.field) {
						return true // already in force
					}
				}
				return false
			}})
		bad := 0
		for _, e := range exits {
			if ret, ok := e.(*ssa.Return); ok && retMayBeNil(ret) {
				bad++
			}
		}
		r.Check(R3, base+" / applies confirmed "+opt.field, p.instrPos(C), bad == 0 && setCall != nil, fmt.Sprintf("%d success exit(s) reachable from the confirmation without %s(confirmed) and without the edge 'already equal'", bad, opt.set))
		if setCall != nil {
			// its error is returned: on the err != nil edge every exit returns non-nil
			v, _ := setCall.(*ssa.Call)
			okErr := v != nil
			if v != nil {
				ex := walkFrom(na.negDriver, v, walkOpts{cutEdge: func(from *ssa.BasicBlock, k int) bool {
					ifi := ifOf(from)
					if ifi == nil {
						return false
					}
					isNil, ok := errTestOf(ifi, k == 0, v)
					return ok && isNil
				}})
				tested := false
				for _, ref := range *v.Referrers() {
					_ = ref
					tested = true
				}
				for _, e := range ex {
					if ret, ok := e.(*ssa.Return); ok && retMayBeNilExcept(ret, v) {
						okErr = false
					}
				}
				okErr = okErr && tested
			}
			r.Check(R3, base+" / "+opt.set+" error is returned", p.instrPos(setCall), okErr, "an upgrade error must abort the handshake")
		}
	}
	authGuard := true
	// every path from the negotiation call to the authentication call crosses the err == nil edge
	authGuard = !reachesWithout(na.negCall, na.authCall, func(from *ssa.BasicBlock, k int) bool {
		ifi := ifOf(from)
		if ifi == nil {
			return false
		}
		isNil, ok := errTestOf(ifi, k == 0, na.negCall)
		return ok && isNil
	})
	r.Check(R3, "func "+fnName(na.serverEst)+" / authentication only after successful negotiation", p.instrPos(na.authCall), authGuard, "on the negotiation arm the authentication driver must be reached through the negotiation's err == nil edge")

	// ---- R4
	c09Client(r, s, R4)

	// ---- R5
	c09TCP(r, s, R5)

	// ---- R6 (compression half of the skip decision)
	ok6, why6 := skipDecision(s, na, "Compression", 2)
	r.Check(R6, "func "+fnName(na.serverEst)+" / skipping negotiation compares current compression with the single offered option", p.instrPos(na.authCall), ok6, why6)

	R7 := r.Rule("R7", "what is negotiable is what was configured: the lists handed to the server's EstablishSession are the configuration's fields, whose only writers install the constructor's constant defaults or replace the list wholesale with the caller's (never derived from the previous content, never extended by a constant)", 6)
	checkConfiguredLists(r, s, R7, "SessionCompression", "SessionEncryption")
	R9 := r.Rule("R9", "any other choice is answered with a failed session: a selection outside the known option names must reach the membership gate, so the option types decode without validation — no UnmarshalText/UnmarshalJSON on SessionCompression/SessionEncryption that can return an error (a decode error drops the connection without the failed envelope)", 2)
	for _, tn := range []string{"SessionCompression", "SessionEncryption"} {
		nt := p.Type(tn)
		if nt == nil {
			r.Undecided(R9, "anchor-unresolved:"+tn, "-", "type not found")
			continue
		}
		bad := ""
		for _, mn := range []string{"UnmarshalText", "UnmarshalJSON"} {
			sel := types.NewMethodSet(types.NewPointer(nt)).Lookup(p.LimeT, mn)
			if sel == nil {
				continue
			}
			m := p.SSA.MethodValue(sel)
			if m == nil || m.Blocks == nil {
				continue
			}
			idx := m.Signature.Results().Len() - 1
			if idx < 0 {
				continue
			}
			for _, rl := range returnLeaves(m, idx) {
				if !isNilConst(rl.v) {
					bad = mn + " can return " + describe(rl.v)
				}
			}
		}
		r.Check(R9, "type "+tn+" / decodes any option name", p.pos(nt.Obj().Pos()), bad == "", bad)
	}
	R11 := r.Rule("R11", "the selection judged is the selection received: on the server nothing stores into the compression/encryption members of a session envelope other than the literals it builds itself — an omitted option stays omitted (and is refused by the membership gate) instead of being filled in from the transport", 1)
	{
		nFns := 0
		for _, fn := range p.LimeFuncs() {
			if s.recvKind(topLevel(fn)) != "server" {
				continue
			}
			nFns++
			eachInstr(fn, func(in ssa.Instruction) {
				st, ok := in.(*ssa.Store)
				if !ok {
					return
				}
				f := pathOf(st.Addr).Last()
				if f == nil || (f.Name() != "Compression" && f.Name() != "Encryption") {
					return
				}
				fa, ok := st.Addr.(*ssa.FieldAddr)
				if !ok || !typeIs(fa.X.Type(), s.sessionT) {
					return
				}
				_, fresh := stripConv(fa.X).(*ssa.Alloc)
				r.Check(R11, "func "+fnName(fn)+" / store into Session."+f.Name(), p.instrPos(st), fresh, "the member of a session envelope that was not built here is overwritten with "+describe(st.Val))
			})
		}
		r.Trivial(R11, "server-role functions inspected for stores into a received selection", "-", nFns > 0, fmt.Sprintf("%d functions", nFns))
	}
	R8 := r.Rule("R8", "a transport that merely reports its encryption (websocket: TLS belongs to the HTTP layer underneath) records 'tls' only on an edge proving TLS is in use — the listener's TLS-configuration test or the dialled URL's wss scheme — and the listener serves plain HTTP only where that test fails", 4)
	checkReportedEncryption(r, s, R8)
}

func paramIndex(pr *ssa.Parameter) int {
	for i, q := range pr.Parent().Params {
		if q == pr {
			return i
		}
	}
	return -1
}

// sliceOriginsElems returns the individual element values stored into a varargs slice.
func sliceOriginsElems(v ssa.Value) []ssa.Value {
	var out []ssa.Value
	if sl, ok := stripConv(v).(*ssa.Slice); ok {
		if al, ok := sl.X.(*ssa.Alloc); ok {
			for _, ref := range *al.Referrers() {
				if ia, ok := ref.(*ssa.IndexAddr); ok {
					for _, r2 := range *ia.Referrers() {
						if st, ok := r2.(*ssa.Store); ok && st.Addr == ia {
							out = append(out, st.Val)
						}
					}
				}
			}
		}
	}
	return out
}

func retMayBeNil(ret *ssa.Return) bool {
	return retMayBeNilExcept(ret, nil)
}

// retMayBeNilVia: like retMayBeNil, but when the returned value is a phi of the return's own block only the input
// arriving from predecessor pred is considered (path sensitivity of one step).
func retMayBeNilVia(ret *ssa.Return, pred *ssa.BasicBlock) bool {
	return retMayBeNilX(ret, nil, pred)
}

// retMayBeNilExcept: may the error returned be nil, treating value `nonNil` as known non-nil?
func retMayBeNilExcept(ret *ssa.Return, nonNil ssa.Value) bool {
	return retMayBeNilX(ret, nonNil, nil)
}

func retMayBeNilX(ret *ssa.Return, nonNil ssa.Value, pred *ssa.BasicBlock) bool {
	fn := ret.Parent()
	n := len(ret.Results)
	if n == 0 {
		return true
	}
	// the returned value itself (a phi over several calls, say) was tested non-nil on every path to this return
	if guardedNonNil(stripConv(ret.Results[n-1]), ret.Block()) || knownNonNil(stripConv(ret.Results[n-1]), ret.Block()) {
		return false
	}
	for _, rl := range returnLeaves(fn, n-1) {
		if rl.in != ret {
			continue
		}
		if pred != nil && rl.to == ret.Block() && rl.b != pred {
			continue // this phi input does not arrive on the path taken
		}
		if isNilConst(rl.v) {
			return true
		}
		if nonNil != nil {
			if call, _ := callOf(rl.v); call != nil && ssa.Value(call) == nonNil {
				continue
			}
		}
		if knownNonNilEdge(rl.v, rl.b, rl.to) {
			continue
		}
		if _, isMI := rl.v.(*ssa.MakeInterface); isMI {
			continue
		}
		if call, _ := callOf(rl.v); call != nil {
			if f := call.Call.StaticCallee(); f != nil && f.Pkg != nil && (f.Pkg.Pkg.Path() == "fmt" || f.Pkg.Pkg.Path() == "errors") {
				continue
			}
		}
		return true
	}
	return false
}

// reachesWithout: is `to` reachable from right after `from` without crossing any edge accepted by `must`?
func reachesWithout(from, to ssa.Instruction, must func(b *ssa.BasicBlock, k int) bool) bool {
	found := false
	walkFrom(from.Parent(), from, walkOpts{
		barrier: func(in ssa.Instruction) bool {
			if in == to {
				found = true
				return true
			}
			return false
		},
		cutEdge: must,
	})
	return found
}

func c09Client(r *Report, s *Sem, R4 string) {
	p := r.P
	est := p.Method("ClientChannel", "EstablishSession")
	if est == nil {
		r.Undecided(R4, "anchor-unresolved:ClientChannel.EstablishSession", "-", "not found")
		return
	}
	a := s.anchors()
	for _, opt := range []struct{ field, set string }{{"Compression", "SetCompression"}, {"Encryption", "SetEncryption"}} {
		var setCall *ssa.Call
		eachInstr(est, func(in ssa.Instruction) {
			if c, ok := in.(*ssa.Call); ok && s.isTransportCall(c, opt.set) {
				setCall = c
			}
		})
		base := "func " + fnName(est) + " / " + opt.set
		if setCall == nil {
			r.Check(R4, base, p.pos(est.Pos()), false, "the client never applies the negotiated "+opt.field)
			continue
		}
		arg := setCall.Call.Args[len(setCall.Call.Args)-1]
		ap := pathOf(arg)
		// the root must be the reply of the client's selection: result #0 of a client method that sends then reads
		okProv := false
		detail := "argument " + describe(arg)
		if ap.Last() != nil && ap.Last().Name() == opt.field {
			for _, l := range leaves(ap.Root) {
				call, idx := callOf(l)
				if call != nil && idx == 0 {
					if g := call.Call.StaticCallee(); g != nil && s.recvKind(g) == "client" && clientSendsSelection(s, g, opt.field) {
						okProv = true
					} else {
						okProv = false
						detail += "; comes from " + describe(l)
						break
					}
				} else {
					okProv = false
					detail += "; comes from " + describe(l)
					break
				}
			}
		}
		r.Check(R4, base+" argument is the server's confirmed value", p.instrPos(setCall), okProv, detail+" — the client must switch to what the server confirmed, not to what it asked for")
		// before the next read: no client read wrapper / transport receive is reachable from the reply without passing the
		// set call or the edges `== current` / `== ""`
		// error aborts
		ex := walkFrom(est, setCall, walkOpts{cutEdge: func(from *ssa.BasicBlock, k int) bool {
			ifi := ifOf(from)
			if ifi == nil {
				return false
			}
			isNil, ok := errTestOf(ifi, k == 0, setCall)
			return ok && isNil
		}})
		okErr := len(*setCall.Referrers()) > 0
		for _, e := range ex {
			if ret, ok := e.(*ssa.Return); ok && retMayBeNilExcept(ret, setCall) {
				okErr = false
			}
		}
		// applied before the next read of the peer
		var reply *ssa.Call
		for _, l := range leaves(ap.Root) {
			if call, _ := callOf(l); call != nil {
				reply = call
			}
		}
		if reply != nil {
			var ses ssa.Value
			for _, ref := range *reply.Referrers() {
				if ex, ok := ref.(*ssa.Extract); ok && ex.Index == 0 {
					ses = ex
				}
			}
			leak := false
			walkFrom(est, reply, walkOpts{
				barrier: func(in ssa.Instruction) bool {
					if in == ssa.Instruction(setCall) {
						return true
					}
					if c, ok := in.(*ssa.Call); ok && c != reply {
						if g := c.Call.StaticCallee(); g != nil && s.recvKind(g) == "client" {
							for f := range p.reachableAny(g, 3) {
								if containsFn(a.sessionReaders, f) {
									leak = true
									return true
								}
							}
						}
					}
					return false
				},
				cutEdge: func(from *ssa.BasicBlock, k int) bool {
					ifi := ifOf(from)
					if ifi == nil {
						return false
					}
					if isNil, ok := errTestOf(ifi, k == 0, reply); ok && !isNil {
						return true
					}
					cd := condOn(ifi, k == 0)
					x, y := cd.X, cd.Y
					if ses == nil || x == nil || y == nil {
						return false
					}
					if !fieldOf(x, ses, opt.field) && !fieldOf(x, ses, "State") {
						x, y = y, x
					}
					if cd.Op == token.EQL && fieldOf(x, ses, opt.field) {
						if cs, ok := constString(stripConv(y)); ok && cs == "" {
							return true // nothing confirmed
						}
						if call, _ := callOf(y); call != nil && s.isTransportCall(call, opt.field) {
							return true // already in force
						}
					}
					if cd.Op == token.NEQ && fieldOf(x, ses, "State") {
						if cs, ok := constString(stripConv(y)); ok && cs == "negotiating" {
							return true // not a confirmation
						}
					}
					return false
				}})
			r.Check(R4, base+" applied before the next read", p.instrPos(setCall), !leak, "a path from the server's confirmation reaches the next handshake read without applying the confirmed "+opt.field)
		}
		r.Check(R4, base+" error aborts establishment", p.instrPos(setCall), okErr, "a failed upgrade must end EstablishSession with an error")
	}
	_ = a
}

// clientSendsSelection: g is a ClientChannel method that emits a session carrying the given option field from its parameter
// and then returns what the read wrapper returned.
func clientSendsSelection(s *Sem, g *ssa.Function, field string) bool {
	emits := false
	for _, e := range sessionEmissions(s, "client") {
		if e.fn == g && e.alloc != nil && len(storesInto(e.alloc, field)) > 0 {
			emits = true
		}
	}
	return emits
}

func c09TCP(r *Report, s *Sem, R5 string) {
	p := r.P
	var setEnc *ssa.Function
	for _, f := range p.Implementations(s.transportT, "SetEncryption") {
		calls := false
		eachCall(f, func(c ssa.CallInstruction) {
			if g := staticCallee(c); g != nil && g.Name() == "Handshake" {
				calls = true
			}
		})
		if calls {
			setEnc = f
		}
	}
	if setEnc == nil {
		r.Undecided(R5, "anchor-unresolved:TLS upgrade", "-", "no SetEncryption implementation performs a TLS handshake")
		return
	}
	encF := p.Field("tcpTransport", "encryption")
	var hs *ssa.Call
	eachInstr(setEnc, func(in ssa.Instruction) {
		if c, ok := in.(*ssa.Call); ok {
			if g := c.Call.StaticCallee(); g != nil && g.Name() == "Handshake" {
				hs = c
			}
		}
	})
	okStore, n := true, 0
	for _, st := range fieldStores([]*ssa.Function{setEnc}, encF) {
		n++
		if !(instrDominates(hs, st) && errNilGuard(st.Block(), hs)) {
			okStore = false
		}
		if cs, ok := constString(stripConv(st.Val)); !ok || cs != "tls" {
			okStore = false
		}
	}
	r.Check(R5, "func "+fnName(setEnc)+" / encryption recorded after a successful handshake", p.pos(setEnc.Pos()), okStore && n == 1, fmt.Sprintf("%d store(s) to the encryption field", n))
	// what was read ahead in plaintext is dropped: on the success path a new JSON decoder is built over the TLS connection
	// (the old decoder may hold bytes a peer pipelined before the handshake; decoding them afterwards would treat
	// plaintext as if it had travelled under the negotiated encryption)
	var hsConn ssa.Value
	if hs != nil && len(hs.Call.Args) > 0 {
		hsConn = stripConv(hs.Call.Args[0])
	}
	buildsDecoderOver := func(g *ssa.Function, argIdx int) bool {
		// g (or a callee, bounded) calls json.NewDecoder on a reader derived from its parameter argIdx
		found := false
		var rec func(f *ssa.Function, prm ssa.Value, d int)
		rec = func(f *ssa.Function, prm ssa.Value, d int) {
			if d > 3 || found {
				return
			}
			derives := func(v ssa.Value) bool {
				seen := map[ssa.Value]bool{}
				var dv func(v ssa.Value, k int) bool
				dv = func(v ssa.Value, k int) bool {
					if k > 12 || seen[v] {
						return false
					}
					seen[v] = true
					for _, l := range leaves(v) {
						l = stripConv(l)
						if l == prm {
							return true
						}
						switch x := l.(type) {
						case *ssa.Alloc:
							for _, ref := range *x.Referrers() {
								if st, ok := ref.(*ssa.Store); ok && dv(st.Val, k+1) {
									return true
								}
								if fa, ok := ref.(*ssa.FieldAddr); ok {
									for _, r2 := range *fa.Referrers() {
										if st, ok := r2.(*ssa.Store); ok && st.Addr == ssa.Value(fa) && dv(st.Val, k+1) {
											return true
										}
									}
								}
							}
						case *ssa.Call:
							for _, a := range x.Call.Args {
								if dv(a, k+1) {
									return true
								}
							}
						case *ssa.FieldAddr:
							// &t.field: what was stored into that field in this function
							for _, st := range fieldStores([]*ssa.Function{f}, structField(x.X.Type(), x.Field)) {
								if dv(st.Val, k+1) {
									return true
								}
							}
						case *ssa.UnOp:
							if dv(x.X, k+1) {
								return true
							}
						}
					}
					return false
				}
				return dv(v, 0)
			}
			eachCall(f, func(c ssa.CallInstruction) {
				g2 := staticCallee(c)
				if g2 == nil {
					return
				}
				if g2.Name() == "NewDecoder" && g2.Pkg != nil && g2.Pkg.Pkg.Path() == "encoding/json" {
					if derives(c.Common().Args[0]) {
						found = true
					}
					return
				}
				if g2.Pkg == p.Lime {
					for i, a := range c.Common().Args {
						if i < len(g2.Params) && derives(a) {
							rec(g2, g2.Params[i], d+1)
						}
					}
				}
			})
		}
		rec(g, g.Params[argIdx], 0)
		return found
	}
	fresh := false
	if hs != nil && hsConn != nil {
		leak := false
		walkFrom(setEnc, hs, walkOpts{
			cutEdge: func(from *ssa.BasicBlock, k int) bool {
				ifi := ifOf(from)
				if ifi == nil {
					return false
				}
				isNil, ok := errTestOf(ifi, k == 0, hs)
				return ok && !isNil
			},
			barrier: func(in ssa.Instruction) bool {
				c, ok := in.(*ssa.Call)
				if !ok {
					return false
				}
				g := c.Call.StaticCallee()
				if g == nil || g.Pkg != p.Lime {
					return false
				}
				sameValue := func(a, b ssa.Value) bool {
					if stripConv(a) == stripConv(b) {
						return true
					}
					// a variable captured by a function literal lives in a cell: compare what the two loads can yield
					la, lb := leaves(a), leaves(b)
					if len(la) == 0 || len(la) != len(lb) {
						return false
					}
					for _, x := range la {
						found := false
						for _, y := range lb {
							if stripConv(x) == stripConv(y) {
								found = true
							}
						}
						if !found {
							return false
						}
					}
					return true
				}
				for i, a := range c.Call.Args {
					if sameValue(a, hsConn) && i < len(g.Params) && buildsDecoderOver(g, i) {
						fresh = true
						return true
					}
				}
				return false
			},
			onExit: func(e ssa.Instruction, pred *ssa.BasicBlock) { leak = true }})
		fresh = fresh && !leak
	}
	r.Check(R5, "func "+fnName(setEnc)+" / a new decoder is built over the TLS connection", p.pos(setEnc.Pos()), fresh, "every success path after the handshake must pass the TLS connection to the function that builds the JSON decoder: bytes read ahead in plaintext must not be decoded as if they had been encrypted")
	// none requested while different ⇒ error
	okDown := false
	for _, rl := range returnLeaves(setEnc, 0) {
		if isNilConst(rl.v) {
			continue
		}
		if condGuard(rl.b, func(cd Cond) bool {
			if cd.Op != token.EQL {
				return false
			}
			x, y := stripConv(cd.X), stripConv(cd.Y)
			if _, isC := x.(*ssa.Const); isC {
				x, y = y, x
			}
			cs, ok := constString(y)
			_, isParam := x.(*ssa.Parameter)
			return ok && cs == "none" && isParam
		}) {
			okDown = true
		}
	}
	r.Check(R5, "func "+fnName(setEnc)+" / downgrade refused", p.pos(setEnc.Pos()), okDown, "a request for 'none' on a transport in another mode must return an error")
}

// skipDecision decides, for option kind "Encryption" or "Compression", that every path of the server's EstablishSession
// reaching the authentication driver without the negotiation driver — for a non-empty negotiable set — crosses an edge
// on which the (single) negotiable option was compared equal with the transport's current setting. The comparison may
// sit in an in-package boolean helper that receives the negotiable list (one level).
func skipDecision(s *Sem, na *negAnchors, kind string, argFromEnd int) (bool, string) {
	fn := na.serverEst
	var neg ssa.Value
	for _, arg := range na.negCall.Call.Args {
		if sl, ok := arg.Type().Underlying().(*types.Slice); ok {
			if n := namedOf(sl.Elem()); n != nil && n.Obj().Name() == "Session"+kind {
				neg = arg
			}
		}
	}
	if neg == nil {
		return false, "negotiable " + kind + " list not found among the negotiation driver's arguments"
	}
	for _, L := range []int64{1, 2} {
		reached := false
		lenWalk(s, fn, neg, kind, L, func(in ssa.Instruction) bool {
			if in == ssa.Instruction(na.negCall) {
				return true // negotiated: exempt
			}
			if in == ssa.Instruction(na.authCall) {
				reached = true
				return true
			}
			return false
		}, 0)
		if reached {
			return false, fmt.Sprintf("with %d negotiable %s option(s) the authentication driver is reachable without negotiation and without comparing the option with Transport.%s()", L, kind, kind)
		}
	}
	return true, ""
}

// lenWalk explores fn's CFG assuming len(neg) == L (L == 2 stands for "two or more"), never crossing an edge on which an
// element of neg was found equal to the transport's current setting; stop(in) ends a path.
var lenWalkProbe *struct {
	v     ssa.Value
	truth bool
	out   *bool
}

func probeFrame(s *Sem, fn *ssa.Function, neg ssa.Value, kind string, L int64, depth int, v ssa.Value, truth bool, out *bool) {
	lenWalkProbe = &struct {
		v     ssa.Value
		truth bool
		out   *bool
	}{v, truth, out}
	lenWalk(s, fn, neg, kind, L, func(ssa.Instruction) bool { return true }, depth)
	lenWalkProbe = nil
}

func lenWalk(s *Sem, fn *ssa.Function, neg ssa.Value, kind string, L int64, stop func(ssa.Instruction) bool, depth int) (reachedBlocks map[*ssa.BasicBlock]bool) {
	isLen := func(v ssa.Value) bool {
		call, _ := callOf(v)
		if call == nil {
			return false
		}
		b, ok := call.Call.Value.(*ssa.Builtin)
		return ok && b.Name() == "len" && call.Call.Args[0] == neg
	}
	eqCurrent := func(cd Cond) bool {
		if cd.Op != token.EQL {
			return false
		}
		isElem := func(v ssa.Value) bool {
			u, ok := stripConv(v).(*ssa.UnOp)
			if !ok || u.Op != token.MUL {
				return false
			}
			ia, ok := u.X.(*ssa.IndexAddr)
			return ok && ia.X == neg
		}
		isCur := func(v ssa.Value) bool {
			call, _ := callOf(v)
			return call != nil && s.isTransportCall(call, kind)
		}
		return (isElem(cd.X) && isCur(cd.Y)) || (isElem(cd.Y) && isCur(cd.X))
	}
	evalLen := func(cd Cond) (known bool, val bool) {
		x, y := cd.X, cd.Y
		op := cd.Op
		if y != nil && isLen(y) {
			x, y = y, x
			switch op {
			case token.LSS:
				op = token.GTR
			case token.GTR:
				op = token.LSS
			case token.LEQ:
				op = token.GEQ
			case token.GEQ:
				op = token.LEQ
			}
		}
		if x == nil || !isLen(x) {
			return false, false
		}
		k, ok := constInt(stripConv(y))
		if !ok {
			return false, false
		}
		if L >= 2 {
			// "two or more": only comparisons against constants below 2 are decided
			switch op {
			case token.EQL:
				if k < 2 {
					return true, false
				}
			case token.NEQ:
				if k < 2 {
					return true, true
				}
			case token.GTR:
				if k < 2 {
					return true, true
				}
			case token.GEQ:
				if k <= 2 {
					return true, true
				}
			case token.LSS:
				if k <= 2 {
					return true, false
				}
			case token.LEQ:
				if k < 2 {
					return true, false
				}
			}
			return false, false
		}
		switch op {
		case token.EQL:
			return true, L == k
		case token.NEQ:
			return true, L != k
		case token.GTR:
			return true, L > k
		case token.GEQ:
			return true, L >= k
		case token.LSS:
			return true, L < k
		case token.LEQ:
			return true, L <= k
		}
		return false, false
	}
	var protectedVal func(v ssa.Value, truth bool, d int) bool
	// helperProtects: "helper H returned rv" implies the option was compared with the current setting and found equal
	// (or is impossible for this length)
	helperProtects := func(call *ssa.Call, rv bool) bool {
		if depth > 0 {
			return false
		}
		H := call.Call.StaticCallee()
		if H == nil || H.Pkg != s.p.Lime || !isBool(H.Signature.Results()) {
			return false
		}
		var hp ssa.Value
		for i, a := range call.Call.Args {
			if a == neg && i < len(H.Params) {
				hp = H.Params[i]
			}
		}
		if hp == nil {
			return false
		}
		return helperReturnsProtected(s, H, hp, kind, L, rv, depth+1)
	}
	protectedVal = func(v ssa.Value, truth bool, d int) bool {
		if d > 8 {
			return false
		}
		cd := normCond(v, truth)
		if cd.Op != token.ILLEGAL {
			if known, val := evalLen(cd); known && !val {
				return true
			}
			return eqCurrent(cd)
		}
		if ph, ok := cd.Val.(*ssa.Phi); ok {
			for i, e := range ph.Edges {
				if cst, isC := e.(*ssa.Const); isC && cst.Value != nil && (cst.Value.String() == "true") != cd.True {
					continue // this input cannot produce the value
				}
				okI := false
				for _, me := range mustEdges(ph.Block().Preds[i]) {
					if protectedVal(ifOf(me.from).Cond, me.succ == 0, d+1) {
						okI = true
					}
				}
				// the edge pred→phi block itself, when pred ends in an If
				if pi := ifOf(ph.Block().Preds[i]); pi != nil {
					for k, sx := range ph.Block().Preds[i].Succs {
						if sx == ph.Block() && protectedVal(pi.Cond, k == 0, d+1) {
							okI = true
						}
					}
				}
				if _, isC := e.(*ssa.Const); !isC && protectedVal(e, cd.True, d+1) {
					okI = true
				}
				if !okI {
					return false
				}
			}
			return true
		}
		if call, _ := callOf(cd.Val); call != nil {
			return helperProtects(call, cd.True)
		}
		return false
	}
	if pr := lenWalkProbe; pr != nil {
		lenWalkProbe = nil
		*pr.out = protectedVal(pr.v, pr.truth, 0)
		return nil
	}
	reachedBlocks = map[*ssa.BasicBlock]bool{}
	var walk func(b *ssa.BasicBlock)
	walk = func(b *ssa.BasicBlock) {
		if reachedBlocks[b] {
			return
		}
		reachedBlocks[b] = true
		for _, in := range b.Instrs {
			if stop(in) {
				return
			}
		}
		ifi := ifOf(b)
		for k, sx := range b.Succs {
			if ifi != nil && protectedVal(ifi.Cond, k == 0, 0) {
				continue
			}
			walk(sx)
		}
	}
	if len(fn.Blocks) > 0 {
		walk(fn.Blocks[0])
	}
	return reachedBlocks
}

// helperReturnsProtected: every way H can return rv (with len(hp) == L) implies the comparison with the current setting.
func helperReturnsProtected(s *Sem, H *ssa.Function, hp ssa.Value, kind string, L int64, rv bool, depth int) bool {
	ok := true
	var pv func(v ssa.Value, truth bool) bool
	reach := lenWalkPV(s, H, hp, kind, L, depth, &pv)
	eachInstr(H, func(in ssa.Instruction) {
		ret, isRet := in.(*ssa.Return)
		if !isRet || !reach[ret.Block()] || len(ret.Results) != 1 {
			return
		}
		if c, isC := ret.Results[0].(*ssa.Const); isC {
			if c.Value != nil && (c.Value.String() == "true") == rv {
				ok = false
			}
			return
		}
		if !pv(ret.Results[0], rv) {
			ok = false
		}
	})
	return ok
}

// lenWalkPV runs lenWalk on H and hands back its edge-protection predicate.
func lenWalkPV(s *Sem, H *ssa.Function, hp ssa.Value, kind string, L int64, depth int, pv *func(v ssa.Value, truth bool) bool) map[*ssa.BasicBlock]bool {
	*pv = func(v ssa.Value, truth bool) bool {
		// evaluate with a throw-away walker bound to H's frame
		res := false
		probeFrame(s, H, hp, kind, L, depth, v, truth, &res)
		return res
	}
	return lenWalk(s, H, hp, kind, L, func(ssa.Instruction) bool { return false }, depth)
}

// evalLenFor evaluates a comparison of len(neg) with a constant under len == L (L == 2 meaning "two or more").
func evalLenFor(cd Cond, neg ssa.Value, L int64) (bool, bool) {
	isLen := func(v ssa.Value) bool {
		if v == nil {
			return false
		}
		call, _ := callOf(v)
		if call == nil {
			return false
		}
		b, ok := call.Call.Value.(*ssa.Builtin)
		return ok && b.Name() == "len" && call.Call.Args[0] == neg
	}
	x, y := cd.X, cd.Y
	op := cd.Op
	if isLen(y) {
		x, y = y, x
		switch op {
		case token.LSS:
			op = token.GTR
		case token.GTR:
			op = token.LSS
		case token.LEQ:
			op = token.GEQ
		case token.GEQ:
			op = token.LEQ
		}
	}
	if !isLen(x) {
		return false, false
	}
	k, ok := constInt(stripConv(y))
	if !ok {
		return false, false
	}
	if L >= 2 && k >= 2 {
		return false, false
	}
	switch op {
	case token.EQL:
		return true, L == k
	case token.NEQ:
		return true, L != k
	case token.GTR:
		return true, L > k
	case token.GEQ:
		return true, L >= k
	case token.LSS:
		return true, L < k
	case token.LEQ:
		return true, L <= k
	}
	return false, false
}

func c10(r *Report, s *Sem) {
	p := r.P
	defer r.Import(s, "C09", "R3", "R8", "credentials only after the upgrade really happened: every success path from the confirmation passes SetEncryption (and SetCompression) with the confirmed value unless already in force, and their errors abort the handshake — an upgrade skipped when the compression also changed, or whose error is swallowed, leaves authentication on the cleartext socket", 4)
	defer r.Import(s, "C09", "R5", "R9", "the TCP transport reports 'tls' only after a successful handshake (recorded before it, a failed or aborted upgrade leaves a cleartext connection that claims to be encrypted)", 2)
	defer r.Import(s, "C12", "R4", "R6", "what is negotiated is what carries the bytes: the JSON encoder/decoder of a TCP transport are rebuilt over the wrapper of the *current* connection at construction and after a successful TLS handshake (streams cached from the plain connection would keep credentials in cleartext while Encryption() reports tls)", 8)
	R1 := r.Rule("R1", "skipping negotiation is control-dependent on the current encryption: in the server's EstablishSession, for a non-empty negotiable encryption set, every path that reaches the authentication driver without passing the negotiation driver crosses an edge on which the single negotiable option was compared equal to Transport.Encryption() (abstract interpretation over len ∈ {1, ≥2})", 1)
	R2 := r.Rule("R2", "the negotiable encryption set handed to the negotiation driver is the intersection of the configured list with the transport's capabilities (so a configured list without 'none' never yields 'none'), and negotiation results come from that set (C09.R2)", 1)
	na, why := negotiationAnchors(s)
	if na == nil {
		r.Undecided(R1, "anchor-unresolved:negotiation", "-", why)
		return
	}
	ok, w := skipDecision(s, na, "Encryption", 1)
	r.Check(R1, "func "+fnName(na.serverEst)+" / path to authentication that skips negotiation", p.instrPos(na.authCall), ok, w+" — with EncryptionOptions(TLS) on a TLS-capable TCP listener (offer [tls], connection at 'none') credentials would be requested and accepted in cleartext")
	// R2: origins of the negotiable encryption list
	var neg ssa.Value
	for _, arg := range na.negCall.Call.Args {
		if sl, ok := arg.Type().Underlying().(*types.Slice); ok {
			if n := namedOf(sl.Elem()); n != nil && n.Obj().Name() == "SessionEncryption" {
				neg = arg
			}
		}
	}
	inter := p.Func("intersect")
	ok2 := neg != nil
	detail := ""
	if ok2 {
		for _, o := range sliceOrigins(neg) {
			call, _ := callOf(o)
			if call == nil || !sameFuncOrInstance(call.Call.StaticCallee(), inter) {
				if pr, isParam := stripConv(o).(*ssa.Parameter); isParam && pr.Parent() == na.serverEst {
					if okIn, why := inlineIntersection(s, na, "SessionEncryption", "SupportedEncryption"); okIn {
						detail = why
						continue
					}
				}
				ok2 = false
				detail = "an element may come from " + describe(o)
				continue
			}
			sup := false
			for _, x := range sliceOrigins(call.Call.Args[1]) {
				if c2, _ := callOf(x); c2 != nil && s.isTransportCall(c2, "SupportedEncryption") {
					sup = true
				}
			}
			cfg := false
			for _, x := range sliceOrigins(call.Call.Args[0]) {
				if pr, ok := stripConv(x).(*ssa.Parameter); ok && pr.Parent() == na.serverEst {
					cfg = true
				}
			}
			if !sup || !cfg {
				ok2 = false
				detail = fmt.Sprintf("intersection operands: configured=%v supported=%v", cfg, sup)
			}
		}
	}
	r.Check(R2, "func "+fnName(na.serverEst)+" / negotiable encryption = configured ∩ supported", p.instrPos(na.negCall), ok2, detail)
	checkIntersectExact(r, s, R2)
	R3 := r.Rule("R3", "when negotiation runs, its result is from the offer: the confirmation (and the upgrade) sit on the ok edges of lookups of the peer's selection in sets built from the offered lists — an omitted or merely supported encryption is refused", 3)
	checkNegotiationGate(r, s, R3)
	R7 := r.Rule("R7", "the transport reports as supported what it can apply: every return of the TCP transport's SupportedEncryption that lacks 'tls' sits on the edge 'no TLS configuration', the only condition under which SetEncryption(tls) refuses — a stricter test (e.g. on how the certificate is supplied) empties the intersection with a TLS-only configuration, the negotiation is skipped and credentials cross in cleartext on a connection that could have been upgraded", 1)
	if sup := p.Method("tcpTransport", "SupportedEncryption"); sup != nil {
		nRet := 0
		for _, rl := range returnLeaves(sup, 0) {
			nRet++
			hasTLS := false
			for _, e := range sliceOriginsElems(rl.v) {
				if cs, ok := constString(stripConv(e)); ok && cs == "tls" {
					hasTLS = true
				}
			}
			if hasTLS {
				r.Trivial(R7, fmt.Sprintf("func %s / return #%d lists tls", fnName(sup), nRet), p.instrPos(rl.in), true, "")
				continue
			}
			noCfg := condGuardEdge(rl.b, rl.to, func(cd Cond) bool {
				t, ok := tlsFieldTest(cd)
				return ok && !t
			})
			r.Check(R7, fmt.Sprintf("func %s / return #%d without tls only when no TLS configuration exists", fnName(sup), nRet), p.instrPos(rl.in), noCfg, "SetEncryption(tls) needs nothing but a TLS configuration: the supported list must not be stricter")
		}
		if nRet == 0 {
			r.Undecided(R7, "func "+fnName(sup)+" / returns", p.pos(sup.Pos()), "none")
		}
	} else {
		r.Undecided(R7, "anchor-unresolved:tcpTransport.SupportedEncryption", "-", "not found")
	}
	R4 := r.Rule("R4", "a configured encryption list replaces the default: the list handed to EstablishSession is the configuration's field, whose only writers install the constructor's defaults or the caller's list wholesale — with accumulation EncryptionOptions(TLS) would keep 'none' negotiable", 3)
	checkConfiguredLists(r, s, R4, "SessionEncryption")
	R5 := r.Rule("R5", "a websocket listener configured with TLS never serves plain HTTP, and its transports report 'tls' only on the TLS-configuration edge (the skip decision of R1 trusts Transport.Encryption())", 4)
	checkReportedEncryption(r, s, R5)
}

// checkIntersectExact: the helper computing "configured ∩ supported" returns exactly the elements of its first operand
// that are members of the second — none added (C09: nothing is offered that was not configured and supported) and none
// dropped (C10: an option that is both configured and supported must not vanish from the negotiable set, or a required
// negotiation is skipped).
func checkIntersectExact(r *Report, s *Sem, R1 string) {
	p := r.P
	inter := p.Func("intersect")
	if inter == nil {
		// no helper: the intersection may be written in place in the handshake
		if na, _ := negotiationAnchors(s); na != nil {
			okC, whyC := inlineIntersection(s, na, "SessionCompression", "SupportedCompression")
			okE, whyE := inlineIntersection(s, na, "SessionEncryption", "SupportedEncryption")
			if okC && okE {
				r.Check(R1, "func "+fnName(na.serverEst)+" / in-place intersection keeps only configured elements found among the supported ones", p.instrPos(na.negCall), true, whyC+"; "+whyE)
				return
			}
			r.Undecided(R1, "anchor-unresolved:intersect", "-", "no intersection helper, and the lists are not built in place in the recognised form: "+whyC+" / "+whyE)
			return
		}
		r.Undecided(R1, "anchor-unresolved:intersect", "-", "intersection helper not found")
	} else {
		contains := p.Func("contains")
		usedMembership := false
		okApp, nApp := true, 0
		eachInstr(inter, func(in ssa.Instruction) {
			c, ok := in.(*ssa.Call)
			if !ok {
				return
			}
			if b, ok := c.Call.Value.(*ssa.Builtin); !ok || b.Name() != "append" {
				return
			}
			nApp++
			// appended element
			var el ssa.Value
			for _, o := range sliceOriginsElems(c.Call.Args[1]) {
				el = o
			}
			guard := condGuard(c.Block(), func(cd Cond) bool {
				if cd.Op != token.ILLEGAL || !cd.True {
					return false
				}
				call, _ := callOf(cd.Val)
				list, elem, isMember := membershipCall(p, call)
				if !isMember {
					return false
				}
				usedMembership = true
				return stripConv(list) == ssa.Value(inter.Params[1]) && el != nil && stripConv(elem) == stripConv(el)
			})
			// the element is taken from the first operand
			fromFirst := false
			for _, o := range sliceOrigins(c.Call.Args[1]) {
				if stripConv(o) == ssa.Value(inter.Params[0]) {
					fromFirst = true
				}
			}
			if !guard || !fromFirst {
				okApp = false
			}
		})
		r.Check(R1, "func intersect / keeps only elements of operand 1 that are members of operand 2", p.pos(inter.Pos()), okApp && nApp == 1, fmt.Sprintf("%d append site(s)", nApp))
		if contains != nil {
			okC := true
			for _, rl := range returnLeaves(contains, 0) {
				c, isC := rl.v.(*ssa.Const)
				if !isC {
					okC = false
					continue
				}
				if c.Value.String() == "true" {
					eq := condGuard(rl.b, func(cd Cond) bool {
						return cd.Op == token.EQL && (stripConv(cd.X) == ssa.Value(contains.Params[1]) || stripConv(cd.Y) == ssa.Value(contains.Params[1]))
					})
					if !eq {
						okC = false
					}
				}
			}
			r.Check(R1, "func contains / true only on an equality edge with the element", p.pos(contains.Pos()), okC, "membership helper must not report members that are not there")
		} else if !usedMembership {
			r.Undecided(R1, "anchor-unresolved:contains", "-", "membership helper not found")
		} else {
			r.Trivial(R1, "membership test / standard slices.Contains", p.pos(inter.Pos()), true, "the standard library's membership test is trusted")
		}
	}

}

// sameFuncOrInstance: f is g or an instantiation of the generic function g.
func sameFuncOrInstance(f, g *ssa.Function) bool {
	return f != nil && g != nil && (f == g || f.Origin() == g)
}

// membershipCall: call tests whether elem is an element of list — the library's own membership helper (checked by
// checkIntersectExact) or the standard slices.Contains.
func membershipCall(p *Prog, call *ssa.Call) (list, elem ssa.Value, ok bool) {
	if call == nil || len(call.Call.Args) != 2 {
		return nil, nil, false
	}
	f := call.Call.StaticCallee()
	if f == nil {
		return nil, nil, false
	}
	if c := p.Func("contains"); c != nil && sameFuncOrInstance(f, c) {
		return call.Call.Args[0], call.Call.Args[1], true
	}
	if f.Pkg == nil {
		if o := f.Origin(); o != nil && o.Pkg != nil && o.Pkg.Pkg.Path() == "slices" && o.Name() == "Contains" {
			return call.Call.Args[0], call.Call.Args[1], true
		}
	}
	if f.Pkg != nil && f.Pkg.Pkg.Path() == "slices" && f.Name() == "Contains" {
		return call.Call.Args[0], call.Call.Args[1], true
	}
	return nil, nil, false
}

// inlineIntersection: the negotiable list of the given element type handed to the negotiation driver is built in place
// (the intersection helper folded into the handshake): it starts empty, and every append adds one element configured[i]
// (i = 0,1,2,…) on the edge where that same value was found equal to supported[j] (j = 0,1,2,…; or by a membership call),
// with supported = Transport.<supported>().
func inlineIntersection(s *Sem, na *negAnchors, elemType, supported string) (bool, string) {
	p := s.p
	var list ssa.Value
	for _, arg := range na.negCall.Call.Args {
		if sl, ok := arg.Type().Underlying().(*types.Slice); ok {
			if n := namedOf(sl.Elem()); n != nil && n.Obj().Name() == elemType {
				list = arg
			}
		}
	}
	if list == nil {
		return false, "no " + elemType + " list handed to the negotiation driver"
	}
	var appends []*ssa.Call
	seen := map[ssa.Value]bool{}
	okBase := true
	var walk func(v ssa.Value, d int)
	walk = func(v ssa.Value, d int) {
		v = stripConv(v)
		if seen[v] || d > 30 {
			return
		}
		seen[v] = true
		switch x := v.(type) {
		case *ssa.Phi:
			for _, e := range x.Edges {
				walk(e, d+1)
			}
		case *ssa.Call:
			if b, ok := x.Call.Value.(*ssa.Builtin); ok && b.Name() == "append" {
				appends = append(appends, x)
				walk(x.Call.Args[0], d+1)
				return
			}
			okBase = false
		case *ssa.Slice:
			// a zero-length literal
			if al, ok := x.X.(*ssa.Alloc); ok {
				if arr, ok := al.Type().(*types.Pointer).Elem().Underlying().(*types.Array); ok && arr.Len() == 0 {
					return
				}
			}
			okBase = false
		case *ssa.MakeSlice:
			if k, ok := constInt(x.Len); !ok || k != 0 {
				okBase = false
			}
		case *ssa.Const:
		default:
			okBase = false
		}
	}
	walk(list, 0)
	if !okBase || len(appends) == 0 {
		return false, "the list is not built from an empty slice by appends in the handshake"
	}
	isSupportedElem := func(v ssa.Value) bool {
		u, ok := stripConv(v).(*ssa.UnOp)
		if !ok || u.Op != token.MUL {
			return false
		}
		ia, ok := u.X.(*ssa.IndexAddr)
		if !ok || !ascendingFromZero(ia.Index) {
			return false
		}
		n := 0
		for _, l := range leaves(ia.X) {
			n++
			if c2, _ := callOf(l); c2 == nil || !s.isTransportCall(c2, supported) {
				return false
			}
		}
		return n > 0
	}
	for _, ap := range appends {
		els := sliceOriginsElems(ap.Call.Args[1])
		if len(els) != 1 {
			return false, "an append adds more than one element at " + p.instrPos(ap)
		}
		el := stripConv(els[0])
		u, ok := el.(*ssa.UnOp)
		if !ok || u.Op != token.MUL {
			return false, "appended element " + describe(el) + " is not an element of the configured list"
		}
		ia, ok := u.X.(*ssa.IndexAddr)
		if !ok {
			return false, "appended element " + describe(el) + " is not an element of the configured list"
		}
		pr, isParam := stripConv(ia.X).(*ssa.Parameter)
		if !isParam || pr.Parent() != na.serverEst || !ascendingFromZero(ia.Index) {
			return false, "appended element is not configured[i] with i = 0,1,2,…"
		}
		guard := condGuard(ap.Block(), func(cd Cond) bool {
			if cd.Op == token.EQL {
				x, y := stripConv(cd.X), stripConv(cd.Y)
				if x == el && isSupportedElem(y) {
					return true
				}
				if y == el && isSupportedElem(x) {
					return true
				}
				return false
			}
			if cd.Op == token.ILLEGAL && cd.True {
				if call, _ := callOf(cd.Val); call != nil {
					if l, e, isMember := membershipCall(p, call); isMember && stripConv(e) == el {
						for _, o := range leaves(l) {
							if c2, _ := callOf(o); c2 == nil || !s.isTransportCall(c2, supported) {
								return false
							}
						}
						return true
					}
				}
			}
			return false
		})
		if !guard {
			return false, "the append at " + p.instrPos(ap) + " is not on the edge where the configured element was found among Transport." + supported + "()"
		}
	}
	return true, fmt.Sprintf("built in place: %d append(s) of configured[i] on the edge 'found in %s()'", len(appends), supported)
}
