package main

import (
	"fmt"
	"go/token"
	"go/types"
	"os"
	"reflect"
	"sort"
	"strings"

	"golang.org/x/tools/go/callgraph"
	"golang.org/x/tools/go/callgraph/cha"
	"golang.org/x/tools/go/callgraph/vta"
	"golang.org/x/tools/go/packages"
	"golang.org/x/tools/go/ssa"
	"golang.org/x/tools/go/ssa/ssautil"
)

const limePath = "github.com/takenet/lime-go"
const chatPath = "github.com/takenet/lime-go/chat"

// Prog is the resolved program every rule works on: type-checked packages, SSA and call graph,
// all rebuilt from the working tree at Root on every invocation.
type Prog struct {
	Root  string
	Tags  string
	Fset  *token.FileSet
	Pkgs  []*packages.Package
	SSA   *ssa.Program
	Lime  *ssa.Package
	Chat  *ssa.Package
	LimeT *types.Package
	CG    *callgraph.Graph

	Inl     *inliner          // what the helper normalisation did (inline.go)
	alias   map[string]string // role name (pinned identifier) → identifier in the current tree, see names.go
	fns     []*ssa.Function   // all source functions (incl. anonymous) of lime and chat, sorted by position
	nFuncs  int
	nInstrs int
}

func loadProg(root, tags string, env []string) (*Prog, error) {
	cfg := &packages.Config{
		Mode:  packages.LoadAllSyntax,
		Dir:   root,
		Tests: false,
		Env:   append(os.Environ(), env...),
	}
	cfg.Env = append(cfg.Env, "GOFLAGS=-mod=mod", "GOPROXY=off", "GOSUMDB=off", "GOTOOLCHAIN=local", "GOWORK=off")
	if tags != "" {
		cfg.BuildFlags = []string{"-tags=" + tags}
	}
	pkgs, err := packages.Load(cfg, "./...")
	if err != nil {
		return nil, fmt.Errorf("load: %v", err)
	}
	if len(pkgs) == 0 {
		return nil, fmt.Errorf("load: zero packages under %s", root)
	}
	var errs []string
	packages.Visit(pkgs, nil, func(p *packages.Package) {
		for _, e := range p.Errors {
			errs = append(errs, e.Error())
		}
	})
	if len(errs) > 0 {
		sort.Strings(errs)
		if len(errs) > 8 {
			errs = errs[:8]
		}
		return nil, fmt.Errorf("load: the tree does not type-check: %s", strings.Join(errs, "; "))
	}
	p := &Prog{Root: root, Tags: tags, Pkgs: pkgs}
	prog, ssapkgs := ssautil.AllPackages(pkgs, ssa.InstantiateGenerics)
	prog.Build()
	p.SSA = prog
	p.Fset = prog.Fset
	for i, pk := range pkgs {
		switch pk.PkgPath {
		case limePath:
			p.Lime = ssapkgs[i]
			p.LimeT = pk.Types
		case chatPath:
			p.Chat = ssapkgs[i]
		}
	}
	if p.Lime == nil {
		return nil, fmt.Errorf("load: package %s not found under %s", limePath, root)
	}
	if p.Chat == nil {
		return nil, fmt.Errorf("load: package %s not found under %s", chatPath, root)
	}
	curProg = p
	p.resolveAliases()
	if !noInline {
		p.Inl = p.inlineHelpers(p.pinnedPredicate())
		if len(p.Inl.errs) > 0 {
			return nil, fmt.Errorf("normalisation produced ill-formed SSA: %s", strings.Join(p.Inl.errs, "; "))
		}
	}
	all := ssautil.AllFunctions(prog)
	p.CG = vta.CallGraph(all, cha.CallGraph(prog))
	if p.Inl != nil {
		for fn := range p.Inl.dead {
			if n := p.CG.Nodes[fn]; n != nil {
				p.CG.DeleteNode(n)
			}
		}
	}
	for fn := range all {
		if p.Inl != nil && p.Inl.isDead(fn) {
			continue
		}
		if fn.Pkg == p.Lime || fn.Pkg == p.Chat {
			if fn.Synthetic != "" && fn.Blocks == nil {
				continue
			}
			if fn.Synthetic != "" && !strings.HasPrefix(fn.Name(), "init") {
				continue // wrappers, bound methods, thunks
			}
			p.fns = append(p.fns, fn)
		}
	}
	sort.Slice(p.fns, func(i, j int) bool {
		a, b := p.fns[i], p.fns[j]
		if a.Pos() != b.Pos() {
			return a.Pos() < b.Pos()
		}
		return a.String() < b.String()
	})
	for _, fn := range p.fns {
		p.nFuncs++
		for _, b := range fn.Blocks {
			p.nInstrs += len(b.Instrs)
		}
	}
	curProg = p
	p.resolveAliases()
	return p, nil
}

// LimeFuncs returns every source-level function of package lime, including function literals.
func (p *Prog) LimeFuncs() []*ssa.Function {
	var out []*ssa.Function
	for _, f := range p.fns {
		if f.Pkg == p.Lime {
			out = append(out, f)
		}
	}
	return out
}

func (p *Prog) AllFuncs() []*ssa.Function { return p.fns }

var curProg *Prog
var noInline bool

// isDead: fn was a helper that the normalisation inlined everywhere; it is no longer part of the analysed program.
func (p *Prog) isDead(fn *ssa.Function) bool {
	return fn != nil && p.Inl != nil && p.Inl.isDead(fn)
}

func topLevelRaw(fn *ssa.Function) *ssa.Function {
	for fn.Parent() != nil {
		fn = fn.Parent()
	}
	return fn
}

// Type looks up a named type of package lime.

func (p *Prog) Type(name string) *types.Named {
	if al := p.aliasOf("type", name); al != "" {
		name = al
	}
	o := p.LimeT.Scope().Lookup(name)
	if o == nil {
		return nil
	}
	tn, ok := o.(*types.TypeName)
	if !ok {
		return nil
	}
	n, _ := tn.Type().(*types.Named)
	return n
}

func (p *Prog) Const(name string) *types.Const {
	c, _ := p.LimeT.Scope().Lookup(name).(*types.Const)
	return c
}

// Func looks up a package-level function of lime.
func (p *Prog) Func(name string) *ssa.Function {
	if al := p.aliasOf("func", name); al != "" {
		name = al
	}
	if fn := p.Lime.Func(name); fn != nil {
		return fn
	}
	// a private function that became a method (same name, one declaration)
	if !token.IsExported(name) {
		return p.uniqueByName(name, true)
	}
	return nil
}

// uniqueByName: the only declared private method (methods=true) or package-level function (methods=false) of package lime
// with this name, if there is exactly one.
func (p *Prog) uniqueByName(name string, methods bool) *ssa.Function {
	var found *ssa.Function
	n := 0
	for _, fn := range p.privateFuncs() {
		if fn.Pkg != p.Lime || fn.Name() != name || (fn.Signature.Recv() != nil) != methods {
			continue
		}
		found = fn
		n++
	}
	if n == 1 {
		return found
	}
	return nil
}

// Method returns the SSA function for method name declared on named type typ (pointer or value receiver).
func (p *Prog) Method(typ, name string) *ssa.Function {
	n := p.Type(typ)
	if n == nil {
		return nil
	}
	if al := p.aliasOf("method", typ+"."+name); al != "" {
		name = al
	}
	for i := 0; i < n.NumMethods(); i++ {
		m := n.Method(i)
		if m.Name() == name {
			return p.SSA.FuncValue(m)
		}
	}
	// a private method that became a package-level function of the same name
	if !token.IsExported(name) {
		return p.uniqueByName(name, false)
	}
	return nil
}

// Field returns the field object name of struct type typ (no promotion).
func (p *Prog) Field(typ, name string) *types.Var {
	n := p.Type(typ)
	if n == nil {
		return nil
	}
	if al := p.aliasOf("field", typ+"."+name); al != "" {
		name = al
	}
	st, ok := n.Underlying().(*types.Struct)
	if !ok {
		return nil
	}
	for i := 0; i < st.NumFields(); i++ {
		if st.Field(i).Name() == name {
			return st.Field(i)
		}
	}
	return nil
}

// IfaceMethod returns the method object of interface type typ.
func (p *Prog) IfaceMethod(typ, name string) *types.Func {
	n := p.Type(typ)
	if n == nil {
		return nil
	}
	it, ok := n.Underlying().(*types.Interface)
	if !ok {
		return nil
	}
	for i := 0; i < it.NumMethods(); i++ {
		if it.Method(i).Name() == name {
			return it.Method(i)
		}
	}
	return nil
}

// Implementations returns the concrete in-repo functions implementing interface method m.
func (p *Prog) Implementations(iface *types.Named, method string) []*ssa.Function {
	it := iface.Underlying().(*types.Interface)
	var out []*ssa.Function
	seen := map[*ssa.Function]bool{}
	for _, pk := range []*ssa.Package{p.Lime, p.Chat} {
		for _, mem := range pk.Members {
			t, ok := mem.(*ssa.Type)
			if !ok {
				continue
			}
			nt, ok := t.Type().(*types.Named)
			if !ok || types.IsInterface(nt) {
				continue
			}
			for _, recv := range []types.Type{nt, types.NewPointer(nt)} {
				if !types.Implements(recv, it) {
					continue
				}
				sel := p.SSA.MethodSets.MethodSet(recv).Lookup(pk.Pkg, method)
				if sel == nil {
					continue
				}
				fn := p.SSA.MethodValue(sel)
				// unwrap promoted-method wrappers to the declared function
				if fn != nil && fn.Synthetic != "" {
					if o, ok := sel.Obj().(*types.Func); ok {
						fn = p.SSA.FuncValue(o)
					}
				}
				if fn != nil && !seen[fn] {
					seen[fn] = true
					out = append(out, fn)
				}
				break
			}
		}
	}
	sort.Slice(out, func(i, j int) bool { return out[i].String() < out[j].String() })
	return out
}

func (p *Prog) pos(pos token.Pos) string {
	if !pos.IsValid() {
		return "-"
	}
	ps := p.Fset.Position(pos)
	f := ps.Filename
	if strings.HasPrefix(f, p.Root+"/") {
		f = f[len(p.Root)+1:]
	}
	return fmt.Sprintf("%s:%d", f, ps.Line)
}

// instrPos gives the best position available for an instruction.
func (p *Prog) instrPos(in ssa.Instruction) string {
	if in == nil || reflect.ValueOf(in).IsNil() {
		return "-"
	}
	if in.Pos().IsValid() {
		return p.pos(in.Pos())
	}
	// fall back to neighbours in the block, then the function
	b := in.Block()
	if b != nil {
		for _, x := range b.Instrs {
			if x.Pos().IsValid() {
				return p.pos(x.Pos())
			}
		}
	}
	if in.Parent() != nil {
		return p.pos(in.Parent().Pos())
	}
	return "-"
}

func fnName(fn *ssa.Function) string {
	if fn == nil {
		return "<nil>"
	}
	s := fn.String()
	s = strings.ReplaceAll(s, limePath+"/", "")
	s = strings.ReplaceAll(s, limePath+".", "")
	s = strings.ReplaceAll(s, limePath, "lime")
	return s
}
