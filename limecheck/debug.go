package main

import "fmt"

func init() {
	register("DBG", "", func(r *Report, s *Sem) {
		a := s.anchors()
		r.Rule("R0", "debug", 0)
		fmt.Println("sends:")
		for _, c := range a.transportSends {
			fmt.Println("  ", r.P.instrPos(c), fnName(c.Parent()))
		}
		fmt.Println("recvs:")
		for _, c := range a.transportRecvs {
			fmt.Println("  ", r.P.instrPos(c), fnName(c.Parent()))
		}
		pf := func(name string, l interface{}) { fmt.Println(name, l) }
		var names []string
		for _, f := range a.sessionSenders {
			names = append(names, fnName(f))
		}
		pf("sessionSenders", names)
		names = nil
		for _, f := range a.dataSenders {
			names = append(names, fnName(f))
		}
		pf("dataSenders", names)
		names = nil
		for _, f := range a.sessionReaders {
			names = append(names, fnName(f))
		}
		pf("sessionReaders", names)
		pf("receiver", fnName(a.receiver))
		pf("startFn", fnName(a.startFn))
		pf("stopFn", fnName(a.stopFn))
		names = nil
		for _, f := range a.setterLocked {
			names = append(names, fnName(f))
		}
		pf("setterLocked", names)
		names = nil
		for _, f := range a.setterFull {
			names = append(names, fnName(f))
		}
		pf("setterFull", names)
		names = nil
		for _, f := range a.streams {
			names = append(names, f.Name())
		}
		pf("streams", names)
		pf("done", a.doneField)
		pf("sendMu", a.sendMu)
		pf("listen", fnName(a.listenFn))
		for _, c := range a.transportSends {
			fmt.Println("  atoms at send", r.P.instrPos(c), atomsString(s.AtomsAt(c)), heldLocks(c.Parent())[c])
		}
		for _, c := range a.transportRecvs {
			fmt.Println("  atoms at recv", r.P.instrPos(c), atomsString(s.AtomsAt(c)))
		}
	})
}
