package main

import (
	"fmt"
	"go/constant"
	"go/token"
	"go/types"
	"sort"
	"strings"
	"time"

	"golang.org/x/tools/go/ssa"
)

func init() {
	register("C15", "actual latencies, scheduler delays, time spent inside encoding/json or TLS record processing; contention on mutexes (excluded by the statement: 'in isolation'); the high-level Client's own back-off sleep (not among the operations the statement lists)", c15)
}

type blockSite struct {
	in   ssa.Instruction
	fn   *ssa.Function
	kind string
}

// blockingSites inventories the potentially blocking primitives of fn.
func blockingSites(fn *ssa.Function) []blockSite {
	var out []blockSite
	eachInstr(fn, func(in ssa.Instruction) {
		switch x := in.(type) {
		case *ssa.Send:
			out = append(out, blockSite{in, fn, "chan send"})
		case *ssa.UnOp:
			if x.Op == token.ARROW {
				out = append(out, blockSite{in, fn, "chan receive"})
			}
		case *ssa.Select:
			if x.Blocking {
				out = append(out, blockSite{in, fn, "select"})
			}
		case *ssa.Call:
			cc := x.Common()
			if g := cc.StaticCallee(); g != nil && g.Pkg != nil {
				pk, nm := g.Pkg.Pkg.Path(), g.Name()
				switch {
				case pk == "time" && nm == "Sleep":
					out = append(out, blockSite{in, fn, "time.Sleep"})
				case pk == "sync" && nm == "Wait":
					out = append(out, blockSite{in, fn, "WaitGroup.Wait"})
				case pk == "crypto/tls" && nm == "Handshake":
					out = append(out, blockSite{in, fn, "tls handshake"})
				case strings.HasSuffix(pk, "gorilla/websocket") && (nm == "ReadJSON" || nm == "WriteJSON" || nm == "ReadMessage" || nm == "WriteMessage"):
					out = append(out, blockSite{in, fn, "websocket " + nm})
				case pk == "net" && (nm == "DialContext" || nm == "Dial"):
					out = append(out, blockSite{in, fn, "dial"})
				}
			}
			if cc.IsInvoke() && (cc.Method.Name() == "Read" || cc.Method.Name() == "Write") {
				if n := namedOf(cc.Value.Type()); n != nil && n.Obj().Pkg() != nil && n.Obj().Pkg().Path() == "net" {
					out = append(out, blockSite{in, fn, "net.Conn." + cc.Method.Name()})
				}
			}
		}
	})
	return out
}

// isDoneOf: v is ctx.Done() for a context value.
func isCtxDoneChan(v ssa.Value) (ssa.Value, bool) {
	call, _ := callOf(v)
	if call == nil || !call.Call.IsInvoke() || call.Call.Method.Name() != "Done" {
		return nil, false
	}
	if n := namedOf(call.Call.Value.Type()); n != nil && n.Obj().Name() == "Context" {
		return call.Call.Value, true
	}
	return nil, false
}

// ctxFromParam: the context value derives from a context parameter of the enclosing top-level function (directly, as a
// captured variable, or through a context.With* call on it).
func ctxFromParam(v ssa.Value, d int) bool {
	if d > 6 {
		return false
	}
	ok, n := true, 0
	for _, l := range leaves(v) {
		n++
		l = stripConv(l)
		switch x := l.(type) {
		case *ssa.Parameter:
			if nm := namedOf(x.Type()); nm == nil || nm.Obj().Name() != "Context" {
				ok = false
			}
		case *ssa.Extract:
			if call, _ := callOf(x); call != nil {
				if g := call.Call.StaticCallee(); g != nil && g.Pkg != nil && g.Pkg.Pkg.Path() == "context" && strings.HasPrefix(g.Name(), "With") {
					// the lifetime context of a goroutine: made cancellable by the function that spawns the literal v is used in
					if root, _ := callOf(call.Call.Args[0]); root != nil && v.Parent() != nil && v.Parent() != call.Parent() && enclosedBy(v.Parent(), call.Parent()) {
						if rg := root.Call.StaticCallee(); rg != nil && rg.Pkg != nil && rg.Pkg.Pkg.Path() == "context" && rg.Name() == "Background" {
							continue
						}
					}
					if !ctxFromParam(call.Call.Args[0], d+1) {
						ok = false
					}
					continue
				}
			}
			ok = false
		default:
			ok = false
		}
	}
	return ok && n > 0
}

// callsReach: the call instruction can run target (through static callees, the call graph, or sync.Once.Do of a method value).
func callsReach(p *Prog, c ssa.CallInstruction, target *ssa.Function) bool {
	var roots []*ssa.Function
	if g := staticCallee(c); g != nil {
		roots = append(roots, g)
		if g.Pkg != nil && g.Pkg.Pkg.Path() == "sync" && g.Name() == "Do" && len(c.Common().Args) == 2 {
			switch x := stripConv(c.Common().Args[1]).(type) {
			case *ssa.MakeClosure:
				fn := x.Fn.(*ssa.Function)
				roots = append(roots, fn)
				eachCall(fn, func(c2 ssa.CallInstruction) {
					if g2 := staticCallee(c2); g2 != nil {
						roots = append(roots, g2)
					}
				})
			case *ssa.Function:
				roots = append(roots, x)
			}
		}
	} else {
		roots = append(roots, p.calleesAt(c)...)
	}
	for _, r := range roots {
		if r == target || p.reachable(r)[target] {
			return true
		}
	}
	return false
}

func c15(r *Report, s *Sem) {
	p := r.P
	a := s.anchors()
	defer r.Import(s, "C04", "R1", "M", "a failed send does not wedge the channel: every Transport.Send made for a channel sits inside one critical section of the send mutex that is left on every path (released by defer or on each exit) — a mutex kept on the error path blocks every later operation for ever, whatever its context", 2)
	defer r.Import(s, "C12", "R4", "W", "all TCP I/O goes through the context-aware wrapper: the encoder/decoder are built over the polling wrapper on every configuration (with or without a trace writer) and the raw connection's Read/Write are called by nothing else", 8)
	defer r.Import(s, "C18", "R4", "A", "accepting honours cancellation, not only deadlines: every transport listener's Accept waits in a select with an arm on its context's Done channel", 1, "context arm")
	K := r.Rule("K", "blocking-operation inventory: every channel send/receive, blocking select, sleep, raw connection I/O, TLS handshake and WebSocket I/O reachable from a context-taking operation (transport Send/Receive/SetEncryption, listener Accept, channel sends, command processing, both EstablishSession and FinishSession) is abortable by that context: K1 an arm of a select that also waits on ctx.Done(); K2 deadline-polled I/O in a loop that re-checks the context, with poll constant ≤ 5 s; K3 a wait for a helper goroutine just forced to fail by an immediate deadline on the same connection; K4 a send that cannot block (own buffered channel, one send per call); K5 listed with a reason", 15)
	D := r.Rule("D", "deadlines: the TCP wrappers' poll interval is a constant ≤ 5 s and honours an earlier context deadline; the TLS handshake's deadline derives from the context and its fallback does not exceed the poll interval", 3)

	L := r.Rule("L", "waiting for a mutex cannot be cancelled, so no sync.Mutex/RWMutex is held across a wait: wherever a mutex is held, the instruction is neither a blocking primitive nor a call that reaches one inside the package — except the send mutex around Transport.Send (listed)", 1)

	// roots
	var roots []*ssa.Function
	add := func(f *ssa.Function) {
		if f != nil {
			roots = appendFn(roots, f)
		}
	}
	for _, m := range []string{"Send", "Receive", "SetEncryption", "SetCompression"} {
		for _, f := range p.Implementations(s.transportT, m) {
			add(f)
		}
	}
	if tl := p.Type("TransportListener"); tl != nil {
		for _, f := range p.Implementations(tl, "Accept") {
			add(f)
		}
	}
	for _, m := range []string{"SendMessage", "SendNotification", "SendRequestCommand", "SendResponseCommand", "ProcessCommand"} {
		add(p.Method("channel", m))
	}
	add(p.Method("ServerChannel", "EstablishSession"))
	add(p.Method("ServerChannel", "FinishSession"))
	add(p.Method("ServerChannel", "FailSession"))
	add(p.Method("ClientChannel", "EstablishSession"))
	add(p.Method("ClientChannel", "FinishSession"))
	// the connection wrappers are reached through encoding/json (outside the repository): add them explicitly
	for _, w := range ioWrappers(p) {
		add(w.fn)
	}
	reach := p.reachable(roots...)
	var fns []*ssa.Function
	for f := range reach {
		if f.Synthetic == "" && len(f.Blocks) > 0 {
			fns = append(fns, f)
			// helper goroutines started inside
			for _, an := range f.AnonFuncs {
				if !reach[an] {
					fns = append(fns, an)
				}
			}
		}
	}
	sort.Slice(fns, func(i, j int) bool { return fns[i].Pos() < fns[j].Pos() })
	r.Note("roots: %d, functions inventoried: %d", len(roots), len(fns))

	listed := func(bs blockSite) (string, bool) {
		fn := topLevel(bs.fn)
		switch {
		case fn == a.stopFn && bs.kind == "chan receive":
			return "K5: the stop routine's wait for the receiver it has just cancelled; the receiver leaves through its own K1/K2 sites", true
		case fn.Name() == "Close" && fn.Signature.Recv() != nil && implementsTransport(s, fn.Signature.Recv().Type()) && bs.kind == "chan send" && sendsOnOwnBufferedSignal(bs.in):
			return "K5: done signal of the in-process transport: buffered(1) and sent at most once (guarded by the closed flag under the mutex)", true
		case fn == p.handoffFunc(s) && bs.kind == "chan send" && pendingSlotsBuffered(s):
			return "K5: reply slot of a pending command: created with capacity 1 per request and taken atomically from the table, so at most one send ever targets it (C05.R2, C05.R5)", true
		case bs.fn.Parent() != nil && bs.kind == "chan send" && isDialHandOff(s, bs):
			return "K5: hand-off goroutine of an in-process dial (not a context-taking operation's own wait)", true
		}
		return "", false
	}
	checkNoMutexAcrossWaits(r, s, L, func(bs blockSite) bool {
		if _, ok := listed(bs); ok {
			return true
		}
		if sd, ok := bs.in.(*ssa.Send); ok && (neverBlocks(sd) || sendsOnOwnBufferedSignal(bs.in)) {
			return true // a signal on the object's own buffered channel is not a wait for the peer or the context
		}
		return bs.fn.Parent() != nil && (bs.kind == "chan send" || bs.kind == "chan receive") && helperDrained(bs)
	})
	// ---- C: the context handed down is the operation's own
	C := r.Rule("C", "the context travels with the operation: in every inventoried function that takes a context, each context argument it passes to a function of the package or to a Transport/listener method derives from its own context parameter (directly, captured, or through context.With* on it) — a detached context substituted on some path makes the callee's waits ignore the caller's deadline or cancellation", 20)
	for _, fn := range fns {
		top := topLevel(fn)
		hasCtx := false
		for _, pr := range top.Params {
			if nm := namedOf(pr.Type()); nm != nil && nm.Obj().Name() == "Context" && nm.Obj().Pkg() != nil && nm.Obj().Pkg().Path() == "context" {
				hasCtx = true
			}
		}
		if !hasCtx {
			continue
		}
		eachCall(fn, func(c ssa.CallInstruction) {
			if _, isGo := c.(*ssa.Go); isGo {
				return // a goroutine's lifetime context is its own matter (K judges the waits inside)
			}
			cc := c.Common()
			target := ""
			if cc.IsInvoke() {
				if nm := namedOf(cc.Value.Type()); nm != nil && nm.Obj().Pkg() == p.LimeT {
					target = nm.Obj().Name() + "." + cc.Method.Name()
				}
			} else if g := staticCallee(c); g != nil && g.Pkg == p.Lime {
				target = fnName(g)
			}
			if target == "" {
				return
			}
			for i, arg := range cc.Args {
				nm := namedOf(arg.Type())
				if nm == nil || nm.Obj().Name() != "Context" || nm.Obj().Pkg() == nil || nm.Obj().Pkg().Path() != "context" {
					continue
				}
				ok := ctxFromParam(arg, 0)
				r.Check(C, fmt.Sprintf("func %s / context argument #%d of %s", fnName(fn), i, target), p.instrPos(c), ok, "the context passed is "+describe(arg)+", which does not (only) derive from the function's context parameter")
			}
		})
	}

	// ---- E: what happens once the context has ended
	E := r.Rule("E", "prompt at expiry: on the `<-ctx.Done()` arm of a select in an inventoried function nothing can run the stop-and-wait routine (its wait for the receiver is bounded only by the transport's poll interval — acceptable after a terminal envelope, not when a deadline has passed)", 8)
	if a.stopFn != nil {
		for _, fn := range fns {
			eachInstr(fn, func(in ssa.Instruction) {
				sel, ok := in.(*ssa.Select)
				if !ok {
					return
				}
				for i, st := range sel.States {
					if _, isDone := isCtxDoneChan(st.Chan); !isDone || st.Dir != types.RecvOnly {
						continue
					}
					arm := selectArmBlock(sel, i)
					if arm == nil {
						continue
					}
					bad := ""
					for b := range reachBlocks(arm, func(from *ssa.BasicBlock, k int) bool { return from.Succs[k] == sel.Block() }) {
						for _, x := range b.Instrs {
							if c, isCall := x.(*ssa.Call); isCall && callsReach(p, c, a.stopFn) {
								bad = "reaches the stop-and-wait routine through the call at " + p.instrPos(x)
							}
						}
					}
					r.Check(E, "func "+fnName(fn)+" / arm <-ctx.Done() returns at once", p.instrPos(in), bad == "", bad)
				}
			})
		}
	}

	for _, fn := range fns {
		for _, bs := range blockingSites(fn) {
			construct := "func " + fnName(bs.fn) + " / " + bs.kind
			pos := p.instrPos(bs.in)
			if why, ok := listed(bs); ok {
				r.Trivial(K, construct, pos, true, why)
				continue
			}
			switch bs.kind {
			case "select":
				sel := bs.in.(*ssa.Select)
				ok := false
				for _, st := range sel.States {
					if cv, isDone := isCtxDoneChan(st.Chan); isDone && st.Dir == types.RecvOnly && ctxFromParam(cv, 0) {
						ok = true
					}
				}
				if !ok {
					// inner select after a forced deadline (waits for the helper's result or error)
					ok = forcedDeadlineBefore(bs.in)
					if ok {
						r.Check(K, construct+" (K3)", pos, true, "waits for a helper that was just forced to fail by an immediate deadline")
						continue
					}
				}
				r.Check(K, construct+" (K1)", pos, ok, "a blocking select needs an arm receiving from the Done channel of the operation's own context")
			case "chan send", "chan receive":
				// in a helper goroutine whose peer select has a ctx arm and always drains it
				if bs.fn.Parent() != nil && helperDrained(bs) {
					r.Check(K, construct+" (K5 helper)", pos, true, "helper goroutine's hand-off: the spawning function receives it on every path (directly or after forcing the I/O to fail)")
					continue
				}
				if forcedDeadlineBefore(bs.in) {
					r.Check(K, construct+" (K3)", pos, true, "waits for a helper that was just forced to fail by an immediate deadline")
					continue
				}
				if bs.kind == "chan receive" && releasedHelperWait(bs.in) {
					r.Check(K, construct+" (K3)", pos, true, "waits for a watcher goroutine that was released just before (its stop channel is closed on every path to this receive)")
					continue
				}
				if bs.kind == "chan send" && neverBlocks(bs.in.(*ssa.Send)) {
					r.Check(K, construct+" (K4)", pos, true, "own buffered channel, one send per call")
					continue
				}
				r.Check(K, construct, pos, false, "a bare channel operation ignores the context: with a peer that stopped reading/writing it blocks forever")
			case "net.Conn.Read", "net.Conn.Write":
				ok, why := polledIO(bs.in.(*ssa.Call))
				r.Check(K, construct+" (K2)", pos, ok, why)
			case "websocket ReadJSON", "websocket WriteJSON", "websocket ReadMessage", "websocket WriteMessage":
				// must run in a helper goroutine whose spawner selects on ctx.Done() and forces a deadline
				ok := bs.fn.Parent() != nil && spawnerForcesDeadline(bs.fn)
				r.Check(K, construct+" (K3 helper)", pos, ok, "blocking WebSocket I/O must run in a helper goroutine while the caller selects on ctx.Done() and then forces an immediate deadline")
			case "tls handshake":
				r.Trivial(K, construct, pos, true, "bounded by rule D (deadline)")
			case "time.Sleep":
				r.Check(K, construct, pos, false, "a sleep cannot be interrupted by the context")
			case "dial":
				call := bs.in.(*ssa.Call)
				ok := call.Call.StaticCallee().Name() == "DialContext"
				r.Check(K, construct, pos, ok, "dial must take the context")
			case "WaitGroup.Wait":
				ok := releasedHelperWait(bs.in)
				r.Check(K, construct+" (K3)", pos, ok, "a WaitGroup wait is accepted only as the join of a watcher goroutine that was released just before (its stop channel is closed on every path to the wait)")
			default:
				r.Check(K, construct, pos, false, "unclassified blocking primitive")
			}
		}
	}

	// ---- D
	// poll constants handed to the wrapper constructor
	if mk := p.Func("NewCtxConn"); mk != nil {
		for _, c := range p.callersOf(mk) {
			for i, arg := range c.Common().Args[1:] {
				d, ok := durationConst(arg)
				r.Check(D, fmt.Sprintf("func %s / poll interval #%d", fnName(c.Parent()), i+1), p.instrPos(c), ok && d > 0 && d <= 5*time.Second, fmt.Sprintf("poll interval %v (must be a positive constant ≤ 5s: a cancellation without deadline is noticed only at the next poll)", d))
			}
		}
	} else {
		r.Undecided(D, "anchor-unresolved:NewCtxConn", "-", "polling wrapper constructor not found")
	}
	// TLS handshake deadline
	for _, f := range p.Implementations(s.transportT, "SetEncryption") {
		eachInstr(f, func(in ssa.Instruction) {
			c, ok := in.(*ssa.Call)
			if !ok {
				return
			}
			g := c.Call.StaticCallee()
			if g == nil || g.Name() != "Handshake" {
				return
			}
			// deadlines set on the tls connection before the handshake
			usesCtx, fallback := false, time.Duration(0)
			eachCall(f, func(c2 ssa.CallInstruction) {
				g2 := staticCallee(c2)
				if g2 == nil || (g2.Name() != "SetReadDeadline" && g2.Name() != "SetWriteDeadline" && g2.Name() != "SetDeadline") {
					return
				}
				for _, l := range leaves(c2.Common().Args[len(c2.Common().Args)-1]) {
					if call, _ := callOf(l); call != nil {
						if call.Call.IsInvoke() && call.Call.Method.Name() == "Deadline" {
							usesCtx = true
						}
						if g3 := call.Call.StaticCallee(); g3 != nil && g3.Name() == "Add" {
							if d, ok := durationConst(call.Call.Args[1]); ok && d > fallback {
								fallback = d
							}
						}
					}
				}
			})
			polled := false // the handshake runs over the polling wrapper or takes the context itself
			if g.Name() == "HandshakeContext" {
				polled = true
			}
			// … or a watcher goroutine, started before the handshake, forces an immediate deadline on the same
			// connection as soon as the operation's context is done (the K3 idiom of the WebSocket transport)
			hsConn := stripConv(c.Call.Args[0])
			eachInstr(f, func(in2 ssa.Instruction) {
				gi, ok := in2.(*ssa.Go)
				if !ok || !instrDominates(gi, c) {
					return
				}
				mc, ok := gi.Call.Value.(*ssa.MakeClosure)
				if !ok {
					return
				}
				w := mc.Fn.(*ssa.Function)
				eachInstr(w, func(in3 ssa.Instruction) {
					sel, ok := in3.(*ssa.Select)
					if !ok {
						return
					}
					for i, st := range sel.States {
						cv, isDone := isCtxDoneChan(st.Chan)
						if !isDone || st.Dir != types.RecvOnly || !ctxFromParam(cv, 0) {
							continue
						}
						arm := selectArmBlock(sel, i)
						if arm == nil {
							continue
						}
						for b := range reachBlocks(arm, nil) {
							for _, x := range b.Instrs {
								fc, isCall := x.(*ssa.Call)
								if !isCall {
									continue
								}
								g4 := fc.Call.StaticCallee()
								if g4 == nil || (g4.Name() != "SetDeadline" && g4.Name() != "SetReadDeadline") || len(fc.Call.Args) < 2 {
									continue
								}
								sameConn := false
								for _, l := range leaves(fc.Call.Args[0]) {
									if stripConv(l) == hsConn {
										sameConn = true
									}
									for _, l2 := range leaves(c.Call.Args[0]) {
										if stripConv(l) == stripConv(l2) {
											sameConn = true
										}
									}
								}
								now := false
								if call, _ := callOf(fc.Call.Args[1]); call != nil {
									if g5 := call.Call.StaticCallee(); g5 != nil && g5.Pkg != nil && g5.Pkg.Pkg.Path() == "time" && g5.Name() == "Now" {
										now = true
									}
								}
								if sameConn && now {
									polled = true
								}
							}
						}
					}
				})
			})
			// constructs are named by role (the private type's name is not part of the key of a known finding)
			r.Check(D, "Transport.SetEncryption (TLS upgrade) / TLS handshake deadline derives from the context", p.instrPos(c), usesCtx || polled, "in func "+fnName(f)+": the upgrade must end at the context's deadline")
			r.Check(D, "Transport.SetEncryption (TLS upgrade) / TLS handshake honours cancellation within the poll interval", p.instrPos(c), polled || (fallback > 0 && fallback <= 5*time.Second),
				fmt.Sprintf("fallback deadline %v on the raw connection and no polling of the context: a cancelled context without deadline is honoured only after the fallback expires (statement: ≤ 5 s on TCP)", fallback))
		})
	}
}

func durationConst(v ssa.Value) (time.Duration, bool) {
	v = stripConv(v)
	if c, ok := v.(*ssa.Const); ok && c.Value != nil && c.Value.Kind() == constant.Int {
		i, ok := constant.Int64Val(c.Value)
		return time.Duration(i), ok
	}
	if b, ok := v.(*ssa.BinOp); ok && b.Op == token.MUL {
		x, okx := durationConst(b.X)
		y, oky := durationConst(b.Y)
		if okx && oky {
			return x * y, true
		}
	}
	return 0, false
}

// forcedDeadlineBefore: the instruction is dominated by a SetRead/WriteDeadline(time.Now()) call (forcing pending I/O to fail).
func forcedDeadlineBefore(in ssa.Instruction) bool {
	fn := in.Parent()
	found := false
	eachCall(fn, func(c ssa.CallInstruction) {
		g := staticCallee(c)
		if g == nil || (g.Name() != "SetReadDeadline" && g.Name() != "SetWriteDeadline") {
			return
		}
		arg := c.Common().Args[len(c.Common().Args)-1]
		if call, _ := callOf(arg); call != nil {
			if g2 := call.Call.StaticCallee(); g2 != nil && g2.Pkg != nil && g2.Pkg.Pkg.Path() == "time" && g2.Name() == "Now" {
				if instrDominates(c, in) {
					found = true
				}
			}
		}
	})
	return found
}

// releasedHelperWait: `<-stopped` where stopped is a local channel closed (deferred) by a goroutine literal of this function
// whose only blocking operation is a select with an arm receiving from another local channel that this function closes
// on every path before the receive.
func releasedHelperWait(in ssa.Instruction) bool {
	fn := in.Parent()
	// the join: `<-stopped` on a local channel, or wg.Wait() on a local WaitGroup
	var stopped *ssa.MakeChan
	var wg *ssa.Alloc
	switch u := in.(type) {
	case *ssa.UnOp:
		if u.Op != token.ARROW {
			return false
		}
		for _, l := range leaves(u.X) {
			if m, ok := stripConv(l).(*ssa.MakeChan); ok && m.Parent() == fn {
				stopped = m
			}
		}
	case *ssa.Call:
		g := u.Call.StaticCallee()
		if g == nil || g.Pkg == nil || g.Pkg.Pkg.Path() != "sync" || g.Name() != "Wait" || len(u.Call.Args) != 1 {
			return false
		}
		if al, ok := stripConv(u.Call.Args[0]).(*ssa.Alloc); ok && al.Parent() == fn {
			wg = al
		}
	}
	if stopped == nil && wg == nil {
		return false
	}
	isChan := func(v ssa.Value, m *ssa.MakeChan) bool {
		for _, l := range leaves(v) {
			if stripConv(l) == ssa.Value(m) {
				return true
			}
		}
		return false
	}
	isWG := func(v ssa.Value) bool {
		v = stripConv(v)
		if v == ssa.Value(wg) {
			return true
		}
		if fv, ok := v.(*ssa.FreeVar); ok {
			if b := freeVarBinding(fv); b != nil && stripConv(b) == ssa.Value(wg) {
				return true
			}
		}
		return false
	}
	ok := false
	for _, w := range fn.AnonFuncs {
		// started with go, signals its end in a defer: close(stopped) or wg.Done()
		signals := false
		eachInstr(w, func(x ssa.Instruction) {
			d, isDefer := x.(*ssa.Defer)
			if !isDefer {
				return
			}
			if b, isB := d.Call.Value.(*ssa.Builtin); isB && b.Name() == "close" && stopped != nil && isChan(d.Call.Args[0], stopped) {
				signals = true
			}
			if g := d.Call.StaticCallee(); g != nil && wg != nil && g.Pkg != nil && g.Pkg.Pkg.Path() == "sync" && g.Name() == "Done" && len(d.Call.Args) == 1 && isWG(d.Call.Args[0]) {
				signals = true
			}
		})
		if !signals {
			continue
		}
		// its select has an arm on a channel that fn closes before the wait
		eachInstr(w, func(x ssa.Instruction) {
			sel, isSel := x.(*ssa.Select)
			if !isSel {
				return
			}
			for _, st := range sel.States {
				if st.Dir != types.RecvOnly {
					continue
				}
				for _, l := range leaves(st.Chan) {
					stop, isMk := stripConv(l).(*ssa.MakeChan)
					if !isMk || stop.Parent() != fn || stop == stopped {
						continue
					}
					eachCall(fn, func(c ssa.CallInstruction) {
						if b, isB := c.Common().Value.(*ssa.Builtin); isB && b.Name() == "close" && isChan(c.Common().Args[0], stop) {
							if ci, isInstr := c.(ssa.Instruction); isInstr && instrDominates(ci, in) {
								ok = true
							}
						}
					})
				}
			}
		})
	}
	return ok
}

// helperDrained: a channel operation inside a function literal started with `go` in its parent, on a channel the parent
// made locally, where the parent receives from that channel on every path after the go statement.
func helperDrained(bs blockSite) bool {
	parent := bs.fn.Parent()
	var ch ssa.Value
	switch x := bs.in.(type) {
	case *ssa.Send:
		ch = x.Chan
	default:
		return false
	}
	// the channel is a captured variable bound to a MakeChan in the parent
	var mk ssa.Value
	for _, l := range leaves(ch) {
		if m, ok := stripConv(l).(*ssa.MakeChan); ok && m.Parent() == parent {
			mk = m
		}
	}
	if mk == nil {
		return false
	}
	var goSite ssa.Instruction
	eachInstr(parent, func(in ssa.Instruction) {
		if g, ok := in.(*ssa.Go); ok {
			if mc, ok := g.Call.Value.(*ssa.MakeClosure); ok && mc.Fn == bs.fn {
				goSite = in
			}
		}
	})
	if goSite == nil {
		return false
	}
	// the parent must receive from one of the helper's channels on every path to return
	recvFromHelper := func(in ssa.Instruction) bool {
		isHelperChan := func(v ssa.Value) bool {
			for _, l := range leaves(v) {
				if m, ok := stripConv(l).(*ssa.MakeChan); ok && m.Parent() == parent {
					return true
				}
			}
			return false
		}
		switch x := in.(type) {
		case *ssa.UnOp:
			return x.Op == token.ARROW && isHelperChan(x.X)
		case *ssa.Select:
			// the select itself is not a guaranteed receive; its arms are judged by the exits below
			return false
		}
		return false
	}
	exits := 0
	walkFrom(parent, goSite, walkOpts{
		barrier: recvFromHelper,
		cutEdge: func(from *ssa.BasicBlock, k int) bool {
			// edges taken when a select chose an arm receiving from a helper channel count as drained
			ifi := ifOf(from)
			if ifi == nil {
				return false
			}
			cd := condOn(ifi, k == 0)
			if cd.Op != token.EQL {
				return false
			}
			ex, ok := stripConv(cd.X).(*ssa.Extract)
			if !ok || ex.Index != 0 {
				return false
			}
			sel, ok := ex.Tuple.(*ssa.Select)
			if !ok {
				return false
			}
			kv, ok := constInt(cd.Y)
			if !ok || int(kv) >= len(sel.States) {
				return false
			}
			st := sel.States[kv]
			if st.Dir != types.RecvOnly {
				return false
			}
			for _, l := range leaves(st.Chan) {
				if m, ok := stripConv(l).(*ssa.MakeChan); ok && m.Parent() == parent {
					return true
				}
			}
			return false
		},
		onExit: func(e ssa.Instruction, pred *ssa.BasicBlock) { exits++ }})
	return exits == 0
}

// neverBlocks: send on a channel made in the same function with constant capacity ≥ 1, not in a loop.
func neverBlocks(sd *ssa.Send) bool {
	for _, l := range leaves(sd.Chan) {
		m, ok := stripConv(l).(*ssa.MakeChan)
		if !ok || m.Parent() != sd.Parent() {
			return false
		}
		if k, ok := constInt(m.Size); !ok || k < 1 {
			return false
		}
	}
	return !reachesInstr(sd, sd)
}

// polledIO: K2 — the raw I/O sits in a loop whose every cycle re-checks a context and sets a deadline first.
func polledIO(c *ssa.Call) (bool, string) {
	fn := c.Parent()
	setName := "SetReadDeadline"
	if c.Call.Method.Name() == "Write" {
		setName = "SetWriteDeadline"
	}
	var set, errCheck ssa.Instruction
	eachInstr(fn, func(in ssa.Instruction) {
		if cc, ok := in.(*ssa.Call); ok && cc.Call.IsInvoke() {
			if cc.Call.Method.Name() == setName && instrDominates(cc, c) {
				set = in
			}
			if cc.Call.Method.Name() == "Err" && instrDominates(cc, c) {
				errCheck = in
			}
		}
	})
	if set == nil {
		return false, "no " + setName + " before the I/O: it can block without bound"
	}
	if errCheck == nil {
		return false, "the context is not checked before the I/O"
	}
	// the deadline honours an earlier context deadline
	usesCtxDeadline := false
	for _, l := range leaves(set.(*ssa.Call).Call.Args[0]) {
		if call, _ := callOf(l); call != nil && call.Call.IsInvoke() && call.Call.Method.Name() == "Deadline" {
			usesCtxDeadline = true
		}
	}
	if !usesCtxDeadline {
		return false, "the deadline ignores the context's own deadline"
	}
	// every way back to the I/O (a retry after a poll timeout, with or without progress) re-checks the context
	retryUnchecked := false
	walkFrom(fn, c, walkOpts{barrier: func(in ssa.Instruction) bool {
		if cc, ok := in.(*ssa.Call); ok {
			if cc == c {
				retryUnchecked = true
				return true
			}
			if cc.Call.IsInvoke() && cc.Call.Method.Name() == "Err" && len(*cc.Referrers()) > 0 {
				if n := namedOf(cc.Call.Value.Type()); n != nil && n.Obj().Name() == "Context" {
					return true
				}
			}
		}
		return false
	}})
	if retryUnchecked {
		return false, "a retry reaches the I/O again without re-checking the context: a peer that keeps the transfer trickling makes a cancelled operation run on"
	}
	// … and re-arms a deadline computed from a fresh time.Now(): one computed before the loop has expired after the first
	// poll timeout, every later attempt fails at once and the wrapper spins without ever reading or writing again
	nows := map[ssa.Instruction]bool{}
	for _, l := range backSlice(set.(*ssa.Call).Call.Args[0], 14) {
		if call, ok := l.(*ssa.Call); ok {
			if g := call.Call.StaticCallee(); g != nil && g.Pkg != nil && g.Pkg.Pkg.Path() == "time" && g.Name() == "Now" {
				nows[call] = true
			}
		}
	}
	if len(nows) == 0 {
		return false, "the deadline is not computed from time.Now()"
	}
	stale := false
	walkFrom(fn, c, walkOpts{barrier: func(in ssa.Instruction) bool {
		if nows[in] {
			return true
		}
		if cc, ok := in.(*ssa.Call); ok && cc == c {
			stale = true
			return true
		}
		return false
	}})
	if stale {
		return false, "a retry reaches the I/O again with a deadline computed before the loop: after the first poll timeout it has expired, and the wrapper spins without transferring anything"
	}
	return true, "deadline = min(now + poll interval, ctx deadline) recomputed on every cycle, context re-checked on every cycle"
}

// spawnerForcesDeadline: the parent of helper goroutine fn selects on ctx.Done() and, on that arm, sets an immediate deadline.
func spawnerForcesDeadline(fn *ssa.Function) bool {
	parent := fn.Parent()
	ok := false
	eachInstr(parent, func(in ssa.Instruction) {
		sel, isSel := in.(*ssa.Select)
		if !isSel {
			return
		}
		for i, st := range sel.States {
			if cv, isDone := isCtxDoneChan(st.Chan); isDone && ctxFromParam(cv, 0) {
				arm := selectArmBlock(sel, i)
				if arm == nil {
					continue
				}
				for b := range reachBlocks(arm, nil) {
					for _, x := range b.Instrs {
						if forced, isCall := x.(ssa.CallInstruction); isCall {
							if g := staticCallee(forced); g != nil && (g.Name() == "SetReadDeadline" || g.Name() == "SetWriteDeadline") {
								if call, _ := callOf(forced.Common().Args[len(forced.Common().Args)-1]); call != nil {
									if g2 := call.Call.StaticCallee(); g2 != nil && g2.Name() == "Now" {
										ok = true
									}
								}
							}
						}
					}
				}
			}
		}
	})
	return ok
}

func implementsTransport(s *Sem, t types.Type) bool {
	return types.Implements(t, s.transportT.Underlying().(*types.Interface))
}

// sendsOnOwnBufferedSignal: the send targets a field of the receiver that is created (in the package) with constant
// capacity ≥ 1 and carries no data (bool/struct{} signal).
func sendsOnOwnBufferedSignal(in ssa.Instruction) bool {
	sd, ok := in.(*ssa.Send)
	if !ok {
		return false
	}
	f := pathOf(sd.Chan).Last()
	if f == nil || curProg == nil {
		return false
	}
	okAll, n := true, 0
	for _, st := range fieldStores(curProg.LimeFuncs(), f) {
		n++
		mk, isMk := stripConv(st.Val).(*ssa.MakeChan)
		if !isMk {
			okAll = false
			continue
		}
		if k, isC := constInt(mk.Size); !isC || k < 1 {
			okAll = false
		}
	}
	return okAll && n > 0
}

// isDialHandOff: a goroutine literal whose only job is to hand a freshly created transport to a listener's queue.
func isDialHandOff(s *Sem, bs blockSite) bool {
	sd, ok := bs.in.(*ssa.Send)
	if !ok {
		return false
	}
	el, ok := sd.Chan.Type().Underlying().(*types.Chan)
	if !ok {
		return false
	}
	n := namedOf(el.Elem())
	return n != nil && implementsTransport(s, types.NewPointer(n)) && len(bs.fn.Blocks) == 1
}

// checkNoMutexAcrossWaits: rule L of C15.
func checkNoMutexAcrossWaits(r *Report, s *Sem, L string, exempt func(blockSite) bool) {
	p := r.P
	a := s.anchors()
	// functions that contain a blocking site themselves
	blocks := map[*ssa.Function][]blockSite{}
	for _, fn := range p.LimeFuncs() {
		for _, bs := range blockingSites(fn) {
			if !exempt(bs) {
				blocks[fn] = append(blocks[fn], bs)
			}
		}
	}
	reachCache := map[*ssa.Function]*blockSite{}
	var firstBlock func(g *ssa.Function) *blockSite
	firstBlock = func(g *ssa.Function) *blockSite {
		if v, ok := reachCache[g]; ok {
			return v
		}
		reachCache[g] = nil
		var fns []*ssa.Function
		for f := range p.reachable(g) {
			fns = append(fns, f)
		}
		sort.Slice(fns, func(i, j int) bool { return fns[i].Pos() < fns[j].Pos() })
		for _, f := range fns {
			if bs := blocks[f]; len(bs) > 0 {
				reachCache[g] = &bs[0]
				break
			}
		}
		return reachCache[g]
	}
	n := 0
	for _, fn := range p.LimeFuncs() {
		hl := heldLocks(fn)
		if len(hl) == 0 {
			continue
		}
		seen := map[string]bool{}
		eachInstr(fn, func(in ssa.Instruction) {
			ls := hl[in]
			if len(ls) == 0 {
				return
			}
			what, detail := "", ""
			for _, bs := range blocks[fn] {
				if bs.in == in {
					what = bs.kind
				}
			}
			if c, ok := in.(*ssa.Call); ok && what == "" {
				if op, _ := mutexOp(c); op != "" {
					return
				}
				var callees []*ssa.Function
				if g := c.Call.StaticCallee(); g != nil {
					callees = []*ssa.Function{g}
				} else {
					callees = p.calleesAt(c)
				}
				for _, g := range callees {
					if g.Pkg != p.Lime {
						continue
					}
					if bs := firstBlock(g); bs != nil {
						what = "call of " + fnName(g)
						if c.Call.IsInvoke() {
							what = "call of " + c.Call.Method.Name() + " on " + types.TypeString(c.Call.Value.Type(), func(*types.Package) string { return "" })
						}
						detail = "reaches " + bs.kind + " in " + fnName(bs.fn)
						break
					}
				}
			}
			if what == "" {
				return
			}
			for _, mu := range sortedKeys(ls) {
				key := mu + " across " + what
				if seen[key] {
					continue
				}
				seen[key] = true
				n++
				reason, ok := "", false
				switch {
				case a.sendMu != nil && strings.HasSuffix(mu, ":"+a.sendMu.Name()):
					reason, ok = "the send mutex serialises whole envelopes on the wire (C04); its holder is itself bounded by its context (K), and contention between operations is outside the statement ('in isolation')", true
				}
				if ok {
					r.Trivial(L, "func "+fnName(fn)+" / "+key, p.instrPos(in), true, "listed: "+reason)
				} else {
					r.Check(L, "func "+fnName(fn)+" / "+key, p.instrPos(in), false, "a goroutine waiting for this mutex cannot be cancelled while the holder waits; "+detail)
				}
			}
		})
	}
	if n == 0 {
		r.Undecided(L, "mutexes held across waits", "-", "not even the send mutex around Transport.Send was found")
	}
}
