package main

import (
	"fmt"
	"go/token"
	"go/types"
	"sort"
	"strings"

	"golang.org/x/tools/go/ssa"
)

func init() {
	register("C18", "absence of leftover goroutines after shutdown for every timing; exact timing of what each client observes; the unsynchronised write of Server.shutdown in ListenAndServe (observation); transports still queued at shutdown are not closed (observation)", c18)
}

// chanFieldsOf lists the channel-typed fields of struct type t.
func chanFieldsOf(t *types.Named) []*types.Var {
	var out []*types.Var
	st, ok := t.Underlying().(*types.Struct)
	if !ok {
		return nil
	}
	for i := 0; i < st.NumFields(); i++ {
		if _, ok := st.Field(i).Type().Underlying().(*types.Chan); ok {
			out = append(out, st.Field(i))
		}
	}
	return out
}

type chanUse struct {
	in   ssa.Instruction
	fn   *ssa.Function
	kind string // close | send | recv | recv-ok | range
}

// chanUses inventories every operation on channel-typed field f (directly or through a local copy / parameter is not followed:
// the fields in question are always accessed through their struct).
func chanUses(p *Prog, f *types.Var) []chanUse {
	var out []chanUse
	isF := func(v ssa.Value) bool { return pathOf(v).Last() == f }
	for _, fn := range p.LimeFuncs() {
		eachInstr(fn, func(in ssa.Instruction) {
			switch x := in.(type) {
			case *ssa.Send:
				if isF(x.Chan) {
					out = append(out, chanUse{in, fn, "send"})
				}
			case *ssa.UnOp:
				if x.Op == token.ARROW && isF(x.X) {
					k := "recv"
					if x.CommaOk {
						k = "recv-ok"
					}
					out = append(out, chanUse{in, fn, k})
				}
			case *ssa.Range:
				if isF(x.X) {
					out = append(out, chanUse{in, fn, "range"})
				}
			case *ssa.Select:
				for i, st := range x.States {
					if !isF(st.Chan) {
						continue
					}
					if st.Dir == types.SendOnly {
						out = append(out, chanUse{in, fn, "send"})
						continue
					}
					k := "recv"
					if selectArmChecksOk(x, i) {
						k = "recv-ok"
					}
					out = append(out, chanUse{in, fn, k})
				}
			case ssa.CallInstruction:
				if b, ok := x.Common().Value.(*ssa.Builtin); ok && b.Name() == "close" && isF(x.Common().Args[0]) {
					out = append(out, chanUse{in, fn, "close"})
				}
			}
		})
	}
	// channels handed to other functions as arguments (e.g. acceptTransports(ctx, l, srv.transportChan))
	for _, fn := range p.LimeFuncs() {
		eachCall(fn, func(c ssa.CallInstruction) {
			g := staticCallee(c)
			if g == nil || g.Pkg != p.Lime {
				return
			}
			for i, a := range c.Common().Args {
				if !isF(a) || i >= len(g.Params) {
					continue
				}
				prm := g.Params[i]
				eachInstr(g, func(in ssa.Instruction) {
					switch x := in.(type) {
					case *ssa.Send:
						if stripConv(x.Chan) == ssa.Value(prm) {
							out = append(out, chanUse{in, g, "send"})
						}
					case *ssa.Select:
						for _, st := range x.States {
							if stripConv(st.Chan) == ssa.Value(prm) && st.Dir == types.SendOnly {
								out = append(out, chanUse{in, g, "send"})
							}
						}
					case ssa.CallInstruction:
						if b, ok := x.Common().Value.(*ssa.Builtin); ok && b.Name() == "close" && stripConv(x.Common().Args[0]) == ssa.Value(prm) {
							out = append(out, chanUse{in, g, "close"})
						}
					}
				})
			}
		})
	}
	return out
}

func c18(r *Report, s *Sem) {
	p := r.P
	R14 := r.Rule("R14", "a handshake that completed is reported as such whatever the serving context does meanwhile: no return of the server's EstablishSession hands back ctx.Err() itself (returned at the tail, a Close landing right after the established envelope makes the server drop an established session without callbacks or a finished envelope)", 1)
	defer checkHandshakeVerdictNotContext(r, s, R14)
	defer r.Import(s, "C15", "K", "R13", "closing with a stalled client still winds the session down: the TCP write wrapper re-checks its context on every retry (checked once before the loop, the finishing write of a session whose client stopped reading spins for ever and the finished callback never fires)", 2, "(K2)")
	R12 := r.Rule("R12", "stops its own listener and no other: a listener that registers itself in a package-level table removes, in Close, the entry under a field that its Listen stored from the very key it registered under", 1)
	defer checkUnregistersWhatItRegistered(r, s, R12)
	defer r.Import(s, "C15", "D", "R11", "closing mid-handshake leaves no goroutine behind: a cancelled TLS upgrade is aborted at once — the watcher forces the deadline on the connection object the handshake runs on, and the fallback deadline is bounded by the poll interval", 1, "TLS")
	R1 := r.Rule("R1", "close discipline: for every channel-typed field of Server and of the transport listeners that has a close site, every send site is in the function that closes it (no foreign sender can hit a closed channel), and — for channels carrying values — every receive uses the comma-ok form or range (a closed queue never yields a nil value)", 6)
	R2 := r.Rule("R2", "Server.Close cancels the shared context and reaches every listener's Close on all paths after the not-listening guard; ListenAndServe maps the context's error to the server-closed error", 3)
	R3 := r.Rule("R3", "callback pairing: exactly one call site of the Established callback, not in a cycle, gated by state==established, before the dispatch loop; the Finished callback in a defer armed once after it, whose block first finishes the session on its established edge", 4)
	R4 := r.Rule("R4", "the transport consumer starts one goroutine per dequeued transport and returns on context end; acceptors return on context end or listener error; every transport listener's Accept has a context arm", 5)
	R6 := r.Rule("R6", "package-level maps written at run time by listeners are accessed only under a mutex (a dial concurrent with server start/stop must not be a concurrent map access)", 3)
	R7 := r.Rule("R7", "one stop signal per serve cycle: a channel that a listener's Close closes is created by its Listen, so a server that is started again after Close gets a live signal (with the signal created once, the second cycle's Accept returns at once instead of serving, and the second Close closes a closed channel)", 1)
	if tl := p.Type("TransportListener"); tl != nil {
		for _, closeFn := range p.Implementations(tl, "Close") {
			nt := namedOf(recvType(closeFn))
			if nt == nil {
				continue
			}
			listenFn := p.Method(nt.Obj().Name(), "Listen")
			for _, site := range p.chanCloseSites([]*ssa.Function{closeFn}) {
				if site.field == nil {
					continue
				}
				made := false
				if listenFn != nil {
					for f := range p.reachable(listenFn) {
						for _, st := range fieldStores([]*ssa.Function{f}, site.field) {
							if _, isMake := stripConv(st.Val).(*ssa.MakeChan); isMake {
								made = true
							}
						}
					}
				}
				r.Check(R7, "type "+nt.Obj().Name()+" / "+site.field.Name()+" closed by Close is made by Listen", p.instrPos(site.in), made, "the channel closed when the listener stops must be created when it starts listening")
			}
		}
	}

	// ---- R1
	type owner struct {
		typ string
	}
	var owners []string
	owners = append(owners, "Server")
	if tl := p.Type("TransportListener"); tl != nil {
		for _, n := range p.LimeT.Scope().Names() {
			nt := p.Type(n)
			if nt == nil || types.IsInterface(nt) {
				continue
			}
			if _, isStruct := nt.Underlying().(*types.Struct); isStruct && types.Implements(types.NewPointer(nt), tl.Underlying().(*types.Interface)) {
				owners = append(owners, n)
			}
		}
	}
	sort.Strings(owners)
	for _, tn := range owners {
		nt := p.Type(tn)
		if nt == nil {
			continue
		}
		for _, f := range chanFieldsOf(nt) {
			uses := chanUses(p, f)
			var closers []*ssa.Function
			for _, u := range uses {
				if u.kind == "close" {
					closers = appendFn(closers, topLevel(u.fn))
				}
			}
			elem := f.Type().Underlying().(*types.Chan).Elem()
			_, isSignal := elem.Underlying().(*types.Struct)
			construct := "field " + tn + "." + f.Name()
			if len(closers) == 0 {
				r.Trivial(R1, construct+" / never closed", "-", true, fmt.Sprintf("%d use(s); no close site, so no send can hit a closed channel", len(uses)))
				continue
			}
			for _, u := range uses {
				switch u.kind {
				case "send":
					ok := containsFn(closers, topLevel(u.fn))
					r.Check(R1, construct+" / close with foreign sender", p.instrPos(u.in), ok, "sent from func "+fnName(u.fn)+" while func "+fnName(closers[0])+" closes it: some schedule panics with 'send on closed channel'")
				case "recv":
					if isSignal {
						r.Trivial(R1, construct+" / signal receive in func "+fnName(u.fn), p.instrPos(u.in), true, "closing a struct{} signal is how waiters are released")
					} else {
						r.Check(R1, construct+" / receive without comma-ok in func "+fnName(u.fn), p.instrPos(u.in), false, "a closed queue yields the zero value (a nil transport/connection) to this receiver")
					}
				case "recv-ok", "range":
					r.Trivial(R1, construct+" / checked receive in func "+fnName(u.fn), p.instrPos(u.in), true, "comma-ok / range")
				}
			}
			// a close site must not be reachable twice: guarded by a state test that the closer resets
			for _, u := range uses {
				if u.kind != "close" {
					continue
				}
				inDefer := false
				eachInstr(topLevel(u.fn), func(in ssa.Instruction) {
					if d, ok := in.(*ssa.Defer); ok && ssa.Instruction(d) == u.in {
						inDefer = true
					}
				})
				once := inDefer || closeGuardedOnce(u.in)
				r.Check(R1, construct+" / closed at most once (func "+fnName(u.fn)+")", p.instrPos(u.in), once, "a second Close must not close the channel again (guard on a field the closer clears, or a deferred close in the only sender)")
			}
		}
	}

	// ---- R2
	sc := p.Method("Server", "Close")
	las := p.Method("Server", "ListenAndServe")
	if sc == nil || las == nil {
		r.Undecided(R2, "anchor-unresolved:Server.Close/ListenAndServe", "-", "not found")
	} else {
		var cancelCall ssa.Instruction
		eachInstr(sc, func(in ssa.Instruction) {
			if c, ok := in.(ssa.CallInstruction); ok && !c.Common().IsInvoke() && staticCallee(c) == nil {
				if n := namedOf(c.Common().Value.Type()); n != nil && n.Obj().Name() == "CancelFunc" {
					cancelCall = in
				}
			}
		})
		okCancel := false
		if cancelCall != nil {
			// every success path passes the cancel: exits not passing it return the not-listening error
			ex := walkFrom(sc, nil, walkOpts{barrier: func(in ssa.Instruction) bool { return in == cancelCall }})
			okCancel = true
			for _, e := range ex {
				if ret, ok := e.(*ssa.Return); ok && retMayBeNil(ret) {
					okCancel = false
				}
			}
		}
		r.Check(R2, "func (*Server).Close / cancels the serving context", p.pos(sc.Pos()), okCancel, "every path past the not-listening guard must call the cancel function")
		// the listener loop: a range over srv.listeners calling Close on each element, after the cancel
		loopOK := false
		eachCall(sc, func(c ssa.CallInstruction) {
			if c.Common().IsInvoke() && c.Common().Method.Name() == "Close" && cancelCall != nil {
				ap := pathOf(c.Common().Value)
				inLoop := reachesInstr(c, c)
				if ap.Last() != nil && ap.Last().Name() == "Listener" && inLoop && instrDominates(cancelCall, c) {
					loopOK = true
					// no way out of the loop except through its header: cut the header's exit edges and look for a return
					cb := c.Block()
					early := walkFrom(sc, c, walkOpts{cutEdge: func(from *ssa.BasicBlock, k int) bool {
						if !from.Dominates(cb) || from == cb {
							return false
						}
						// an edge from a dominating block to a successor that cannot come back to the Close call
						return !reachBlocks(from.Succs[k], nil)[cb]
					}})
					if len(early) > 0 {
						loopOK = false
					}
				}
			}
		})
		r.Check(R2, "func (*Server).Close / closes every listener", p.pos(sc.Pos()), loopOK, "a loop over the listeners calling Close on each, after the cancel")
		okMap := false
		eachCall(las, func(c ssa.CallInstruction) {
			g := staticCallee(c)
			if g == nil || g.Pkg == nil || g.Pkg.Pkg.Path() != "errors" || g.Name() != "Is" {
				return
			}
			// second argument: ctx.Err()
			if call, _ := callOf(c.Common().Args[1]); call != nil && call.Call.IsInvoke() && call.Call.Method.Name() == "Err" {
				for _, rl := range returnLeaves(las, 0) {
					if g, ok := pathOf(rl.v).Root.(*ssa.Global); ok && g.Name() == "ErrServerClosed" {
						if condGuard(rl.b, func(cd Cond) bool { return cd.Op == token.ILLEGAL && cd.True && cd.Val == c.(ssa.Value) }) {
							okMap = true
						}
					}
				}
			}
		})
		r.Check(R2, "func (*Server).ListenAndServe / returns the server-closed error on shutdown", p.pos(las.Pos()), okMap, "errors.Is(err, ctx.Err()) ⇒ ErrServerClosed")
	}

	// ---- R3
	serving, _ := servingFunc(s)
	if serving == nil {
		r.Undecided(R3, "anchor-unresolved:serving function", "-", "not found")
	} else {
		cfgEst, cfgFin := p.Field("ServerConfig", "Established"), p.Field("ServerConfig", "Finished")
		var estCb, finCb []ssa.CallInstruction
		for _, f := range withAnon(serving) {
			eachCall(f, func(c ssa.CallInstruction) {
				if c.Common().IsInvoke() || staticCallee(c) != nil {
					return
				}
				for _, l := range leaves(c.Common().Value) {
					switch pathOf(l).Last() {
					case cfgEst:
						estCb = append(estCb, c)
					case cfgFin:
						finCb = append(finCb, c)
					}
				}
			})
		}
		a := s.anchors()
		var listenCall ssa.Instruction
		eachInstr(serving, func(in ssa.Instruction) {
			if c, ok := in.(*ssa.Call); ok {
				if g := c.Call.StaticCallee(); g != nil {
					for f := range p.reachableAny(g, 2) {
						if f == a.listenFn {
							listenCall = c
						}
					}
				}
			}
		})
		okOne := len(estCb) == 1 && estCb[0].Parent() == serving && !reachesInstr(estCb[0], estCb[0])
		syncEst := false
		if okOne {
			_, syncEst = estCb[0].(*ssa.Call) // completed before the dispatch loop starts: not `go`, not deferred
			okOne = syncEst
		}
		gated := okOne && hasAtom(s.AtomsAt(estCb[0]), "state==", "established")
		before := okOne && listenCall != nil && !reachesInstr(listenCall, estCb[0]) && reachesInstr(estCb[0], listenCall)
		r.Check(R3, "func "+fnName(serving)+" / Established fires once, only when established, before any handler", p.pos(serving.Pos()), okOne && gated && before,
			fmt.Sprintf("call sites=%d, synchronous call=%v, gated=%v, before the dispatch loop=%v", len(estCb), syncEst, gated, before))
		okFin := len(finCb) == 1
		if okFin {
			_, okFin = finCb[0].(*ssa.Call)
		}
		var def *ssa.Defer
		if okFin {
			cl := finCb[0].Parent()
			eachInstr(serving, func(in ssa.Instruction) {
				if d, ok := in.(*ssa.Defer); ok {
					if mc, ok := d.Call.Value.(*ssa.MakeClosure); ok && mc.Fn == cl {
						def = d
					}
				}
			})
		}
		armedOnce := def != nil && !reachesInstr(def, def)
		armedBeforeLoop := def != nil && listenCall != nil && instrDominates(def, listenCall)
		armedGated := def != nil && hasAtom(s.AtomsAt(def), "state==", "established")
		r.Check(R3, "func "+fnName(serving)+" / Finished armed once, for established sessions, before the dispatch loop", p.pos(serving.Pos()), okFin && armedOnce && armedBeforeLoop && armedGated,
			fmt.Sprintf("call sites=%d, armed once=%v, before the loop=%v, gated=%v", len(finCb), armedOnce, armedBeforeLoop, armedGated))
		// inside the deferred block: FinishSession on the established edge precedes the Finished callback
		finS := p.Method("ServerChannel", "FinishSession")
		okOrder := false
		if okFin && finS != nil {
			cl := finCb[0].Parent()
			eachCall(cl, func(c ssa.CallInstruction) {
				if staticCallee(c) == finS && hasAtom(s.AtomsAt(c), "state==", "established") && !reachesInstr(finCb[0], c) {
					okOrder = true
				}
			})
			// and Finished is not inside a conditional on the session state: it runs on every execution of the block
			if okOrder {
				ex := walkFrom(cl, nil, walkOpts{barrier: func(in ssa.Instruction) bool { return in == ssa.Instruction(finCb[0]) },
					cutEdge: func(from *ssa.BasicBlock, k int) bool {
						ifi := ifOf(from)
						if ifi == nil {
							return false
						}
						cd := condOn(ifi, k == 0)
						// the `finished != nil` test
						if cd.Op == token.EQL {
							x, y := cd.X, cd.Y
							if isNilConst(x) {
								x, y = y, x
							}
							if isNilConst(y) {
								for _, l := range leaves(x) {
									if pathOf(l).Last() == cfgFin {
										return true
									}
								}
							}
						}
						return false
					}})
				if len(ex) > 0 {
					okOrder = false
				}
			}
		}
		r.Check(R3, "func "+fnName(serving)+" / deferred block finishes the session, then always calls Finished", p.pos(serving.Pos()), okOrder, "Finished must fire exactly once for every session for which Established fired")
		// shutdown finishes sessions: the dispatch loop has a context arm
		if a.listenFn != nil {
			ctxArm := false
			eachInstr(a.listenFn, func(in ssa.Instruction) {
				if sel, ok := in.(*ssa.Select); ok {
					for _, st := range sel.States {
						if call, _ := callOf(st.Chan); call != nil && call.Call.IsInvoke() && call.Call.Method.Name() == "Done" {
							ctxArm = true
						}
					}
				}
			})
			r.Check(R3, "func "+fnName(a.listenFn)+" / returns on context end (so shutdown reaches the deferred finish)", p.pos(a.listenFn.Pos()), ctxArm, "the dispatch loop needs a <-ctx.Done() arm")
		}
	}

	// ---- R4
	cons := p.Method("Server", "consumeTransports")
	if cons == nil {
		// resolve by meaning: the Server method that calls NewServerChannel
		for _, fn := range p.LimeFuncs() {
			if typeIs(recvType(topLevel(fn)), p.Type("Server")) {
				eachCall(fn, func(c ssa.CallInstruction) {
					if g := staticCallee(c); g != nil && g.Name() == "NewServerChannel" {
						cons = fn
					}
				})
			}
		}
	}
	if cons == nil {
		r.Undecided(R4, "anchor-unresolved:transport consumer", "-", "not found")
	} else {
		var goSite *ssa.Go
		var mk *ssa.Call
		var sel *ssa.Select
		eachInstr(cons, func(in ssa.Instruction) {
			switch x := in.(type) {
			case *ssa.Go:
				goSite = x
			case *ssa.Select:
				sel = x
			case *ssa.Call:
				if g := x.Call.StaticCallee(); g != nil && g.Name() == "NewServerChannel" {
					mk = x
				}
			}
		})
		okSpawn := goSite != nil && mk != nil && instrDominates(mk, goSite)
		// the closure captures the channel built in this iteration
		if okSpawn {
			okSpawn = false
			if _, isClosure := goSite.Call.Value.(*ssa.MakeClosure); !isClosure {
				for _, arg := range goSite.Call.Args {
					if stripConv(arg) == ssa.Value(mk) {
						okSpawn = true // `go serve(ctx, ch)`: the channel is an argument of the go statement
					}
				}
			}
			if mc, ok := goSite.Call.Value.(*ssa.MakeClosure); ok {
				for _, b := range mc.Bindings {
					for _, l := range leaves(b) {
						if stripConv(l) == ssa.Value(mk) {
							okSpawn = true
						}
					}
					if al, ok := b.(*ssa.Alloc); ok {
						for _, ref := range *al.Referrers() {
							if st, ok := ref.(*ssa.Store); ok && stripConv(st.Val) == ssa.Value(mk) {
								okSpawn = true
							}
						}
					}
				}
			}
		}
		r.Check(R4, "func "+fnName(cons)+" / one serving goroutine per dequeued transport", p.pos(cons.Pos()), okSpawn, "go statement after NewServerChannel, capturing that channel")
		ctxArm := false
		if sel != nil {
			for i, st := range sel.States {
				if call, _ := callOf(st.Chan); call != nil && call.Call.IsInvoke() && call.Call.Method.Name() == "Done" {
					ctxArm = selectArmReturns(sel, i)
				}
			}
		}
		r.Check(R4, "func "+fnName(cons)+" / returns on context end", p.pos(cons.Pos()), ctxArm, "select arm on ctx.Done() that leaves the loop")
	}
	acc := p.Func("acceptTransports")
	if acc == nil {
		// by role: the function that calls TransportListener.Accept and hands the result to a queue in a select
		for _, fn := range p.LimeFuncs() {
			accepts, queues := false, false
			eachInstr(fn, func(in ssa.Instruction) {
				if c, ok := in.(*ssa.Call); ok && c.Call.IsInvoke() && c.Call.Method.Name() == "Accept" {
					if n := namedOf(c.Call.Value.Type()); n != nil && n.Obj().Name() == "TransportListener" {
						accepts = true
					}
				}
				if sel, ok := in.(*ssa.Select); ok {
					for _, st := range sel.States {
						if st.Dir == types.SendOnly {
							queues = true
						}
					}
				}
			})
			if accepts && queues {
				acc = fn
			}
		}
	}
	if acc != nil {
		ctxArm, errRet := false, false
		eachInstr(acc, func(in ssa.Instruction) {
			if sel, ok := in.(*ssa.Select); ok {
				for i, st := range sel.States {
					if call, _ := callOf(st.Chan); call != nil && call.Call.IsInvoke() && call.Call.Method.Name() == "Done" {
						ctxArm = selectArmReturns(sel, i)
					}
				}
			}
		})
		for _, rl := range returnLeaves(acc, 0) {
			if call, idx := callOf(rl.v); call != nil && idx == 1 && call.Call.IsInvoke() && call.Call.Method.Name() == "Accept" {
				errRet = true
			}
		}
		r.Check(R4, "acceptor loop / returns on context end or listener error", p.pos(acc.Pos()), ctxArm && errRet, fmt.Sprintf("ctx arm=%v, accept error returned=%v", ctxArm, errRet))
	} else {
		r.Undecided(R4, "anchor-unresolved:acceptor", "-", "acceptTransports not found")
	}
	if tl := p.Type("TransportListener"); tl != nil {
		for _, acc := range p.Implementations(tl, "Accept") {
			ctxArm := false
			eachInstr(acc, func(in ssa.Instruction) {
				if sel, ok := in.(*ssa.Select); ok {
					for i, st := range sel.States {
						if call, _ := callOf(st.Chan); call != nil && call.Call.IsInvoke() && call.Call.Method.Name() == "Done" {
							ctxArm = selectArmReturns(sel, i)
						}
					}
				}
			})
			r.Check(R4, "func "+fnName(acc)+" / context arm", p.pos(acc.Pos()), ctxArm, "Accept must return when the serving context ends")
		}
	}

	// ---- R6
	for _, mem := range sortedMembers(p.Lime) {
		g, ok := mem.(*ssa.Global)
		if !ok {
			continue
		}
		pt, ok := g.Type().Underlying().(*types.Pointer)
		if !ok {
			continue
		}
		hasMap := false
		elemT := pt.Elem()
		if pp, isPtr := elemT.Underlying().(*types.Pointer); isPtr {
			elemT = pp.Elem() // var table = &tableType{…}
		}
		switch et := elemT.Underlying().(type) {
		case *types.Map:
			hasMap = true
		case *types.Struct:
			// a table type grouping the map with its mutex
			for i := 0; i < et.NumFields(); i++ {
				if _, isMap := et.Field(i).Type().Underlying().(*types.Map); isMap {
					hasMap = true
				}
			}
		}
		if !hasMap {
			continue
		}
		type acc struct {
			in    ssa.Instruction
			write bool
		}
		var accs []acc
		runtimeWrite := false
		for _, fn := range p.LimeFuncs() {
			isInit := strings.HasPrefix(topLevel(fn).Name(), "init")
			eachInstr(fn, func(in ssa.Instruction) {
				var m ssa.Value
				w := false
				switch x := in.(type) {
				case *ssa.Lookup:
					m = x.X
				case *ssa.MapUpdate:
					m, w = x.Map, true
				case *ssa.Range:
					m = x.X
				case ssa.CallInstruction:
					if b, ok := x.Common().Value.(*ssa.Builtin); ok && b.Name() == "delete" {
						m, w = x.Common().Args[0], true
					}
				}
				if m == nil || pathOf(m).Root != ssa.Value(g) {
					return
				}
				if isInit {
					return
				}
				accs = append(accs, acc{in, w})
				if w {
					// written by listener code (Listen/Close implementations), i.e. while a server runs
					if tl := p.Type("TransportListener"); tl != nil && fn.Signature.Recv() != nil {
						if types.Implements(fn.Signature.Recv().Type(), tl.Underlying().(*types.Interface)) {
							runtimeWrite = true
						}
					}
				}
			})
		}
		if !runtimeWrite {
			continue // registries filled at start-up by convention (document factories) are not concurrency-relevant here
		}
		for _, ac := range accs {
			hl := heldLocks(ac.in.Parent())[ac.in]
			ok := false
			for k := range hl {
				if strings.HasPrefix(k, "W:") || (!ac.write && strings.HasPrefix(k, "R:")) {
					ok = true
				}
			}
			r.Check(R6, "var "+g.Name()+" / access under lock in func "+fnName(ac.in.Parent()), p.instrPos(ac.in), ok, fmt.Sprintf("locks held: %v", hl))
		}
	}
	R9 := r.Rule("R9", "stops all listeners: whatever a listener's Listen stores in the listener that can itself be closed (the net.Listener, the HTTP server) is closed by the listener's Close on every path past its not-started guard — the HTTP server's Close is what drops connections that are still in the upgrade", 2)
	if tl := p.Type("TransportListener"); tl != nil {
		for _, closeFn := range p.Implementations(tl, "Close") {
			nt := namedOf(recvType(closeFn))
			if nt == nil {
				continue
			}
			listenFn := p.Method(nt.Obj().Name(), "Listen")
			if listenFn == nil {
				continue
			}
			var closeables []*types.Var
			eachInstr(listenFn, func(in ssa.Instruction) {
				st, ok := in.(*ssa.Store)
				if !ok {
					return
				}
				ap := pathOf(st.Addr)
				f := ap.Last()
				if f == nil || len(ap.Fields) != 1 || ap.Root != ssa.Value(listenFn.Params[0]) {
					return
				}
				if isNilConst(st.Val) {
					return
				}
				ms := types.NewMethodSet(f.Type())
				hasClose := false
				for i := 0; i < ms.Len(); i++ {
					if ms.At(i).Obj().Name() == "Close" {
						hasClose = true
					}
				}
				if _, isChan := f.Type().Underlying().(*types.Chan); isChan || !hasClose {
					return
				}
				for _, c := range closeables {
					if c == f {
						return
					}
				}
				closeables = append(closeables, f)
			})
			for _, f := range closeables {
				ff := f
				bad := 0
				walkFrom(closeFn, nil, walkOpts{
					barrier: func(in ssa.Instruction) bool {
						c, ok := in.(ssa.CallInstruction)
						if !ok {
							return false
						}
						name := ""
						var recv ssa.Value
						if c.Common().IsInvoke() {
							name, recv = c.Common().Method.Name(), c.Common().Value
						} else if g := staticCallee(c); g != nil && len(c.Common().Args) > 0 {
							name, recv = g.Name(), c.Common().Args[0]
						}
						if name != "Close" && name != "Shutdown" {
							return false
						}
						for _, l := range leaves(recv) {
							if pathOf(l).Last() == ff {
								return true
							}
						}
						return false
					},
					onExit: func(e ssa.Instruction, pred *ssa.BasicBlock) {
						if ret, ok := e.(*ssa.Return); ok && retMayBeNilVia(ret, pred) {
							bad++
						}
					}})
				r.Check(R9, "func "+fnName(closeFn)+" / closes "+f.Name()+" stored by Listen", p.pos(closeFn.Pos()), bad == 0, fmt.Sprintf("%d success exit(s) without Close/Shutdown on %s", bad, f.Name()))
			}
		}
	}
	R10 := r.Rule("R10", "Close works at any moment of the start-up: in the serve entry point the shutdown hook that Server.Close tests and calls is stored before the first listener is started (registered only after the listeners are bound, a Close that lands in between answers 'not listening' and the server serves on)", 1)
	if las := p.Method("Server", "ListenAndServe"); las != nil {
		// the hook: the CancelFunc-typed field of Server (whatever its name)
		var shut *types.Var
		if st := p.Type("Server"); st != nil {
			if str, ok := st.Underlying().(*types.Struct); ok {
				for i := 0; i < str.NumFields(); i++ {
					if n := namedOf(str.Field(i).Type()); n != nil && n.Obj().Name() == "CancelFunc" {
						shut = str.Field(i)
					}
				}
			}
		}
		var store *ssa.Store
		eachInstr(las, func(in ssa.Instruction) {
			if st, ok := in.(*ssa.Store); ok && shut != nil && pathOf(st.Addr).Last() == shut && !isNilConst(st.Val) {
				if store == nil {
					store = st
				}
			}
		})
		if store == nil {
			r.Undecided(R10, "func (*Server).ListenAndServe / store of the shutdown hook", p.pos(las.Pos()), "not found")
		} else {
			early := true
			n := 0
			for _, f := range withAnon(las) {
				eachCall(f, func(c ssa.CallInstruction) {
					if c.Common().IsInvoke() && c.Common().Method.Name() == "Listen" {
						n++
						if f != las || !instrDominates(store, c.(ssa.Instruction)) {
							early = false
						}
					}
				})
			}
			r.Check(R10, "func (*Server).ListenAndServe / shutdown hook registered before any listener starts", p.instrPos(store), early && n > 0, fmt.Sprintf("%d Listen call(s); the store must dominate each", n))
		}
	} else {
		r.Undecided(R10, "anchor-unresolved:Server.ListenAndServe", "-", "not found")
	}
	r.Import(s, "C13", "R11", "R8", "Close finishes every session: the finishing call stops the receiver and waits for it, so the receiver must be interruptible wherever it hands an envelope to a stream (a plain send parks it as soon as the dispatch loop has left, and the finished callback never fires)", 4)
}

func sortedMembers(pkg *ssa.Package) []ssa.Member {
	var names []string
	for n := range pkg.Members {
		names = append(names, n)
	}
	sort.Strings(names)
	var out []ssa.Member
	for _, n := range names {
		out = append(out, pkg.Members[n])
	}
	return out
}

// closeGuardedOnce: the close is dominated by a test `field != nil` (or `== nil` ⇒ return) of a field that the same
// function sets to nil afterwards on every path.
func closeGuardedOnce(in ssa.Instruction) bool {
	fn := in.Parent()
	var guardField *types.Var
	ok := guardedBy(in.Block(), func(ifi *ssa.If, br bool) bool {
		cd := condOn(ifi, br)
		if cd.Op != token.NEQ {
			return false
		}
		x, y := cd.X, cd.Y
		if isNilConst(x) {
			x, y = y, x
		}
		if !isNilConst(y) {
			return false
		}
		if f := pathOf(x).Last(); f != nil {
			guardField = f
			return true
		}
		return false
	})
	if !ok || guardField == nil {
		// the guard may be the nil result of a predicate method: `if err := l.checkStarted(); err != nil { return err }`
		guardField = nil
		ok = guardedBy(in.Block(), func(ifi *ssa.If, br bool) bool {
			call, _, isNil, isErr := errTest(ifi, br)
			if !isErr || !isNil || call == nil {
				return false
			}
			g := call.Call.StaticCallee()
			if g == nil || len(g.Blocks) == 0 || len(g.Params) == 0 || len(call.Call.Args) == 0 || pathOf(call.Call.Args[0]).Root != pathOf(in.Parent().Params[0]).Root {
				return false
			}
			if f := nilReturnImpliesField(g); f != nil {
				guardField = f
				return true
			}
			return false
		})
		if !ok || guardField == nil {
			return false
		}
	}
	cleared := false
	for _, st := range fieldStores([]*ssa.Function{fn}, guardField) {
		if isNilConst(st.Val) {
			cleared = true
		}
	}
	return cleared
}

// nilReturnImpliesField: every nil return of the (side-effect free) predicate method g is reached only through the edge
// `recv.field != nil`; returns that field.
func nilReturnImpliesField(g *ssa.Function) *types.Var {
	pure := true
	eachInstr(g, func(in ssa.Instruction) {
		switch in.(type) {
		case *ssa.Store, *ssa.Send, *ssa.MapUpdate, *ssa.Go:
			pure = false
		}
	})
	if !pure {
		return nil
	}
	var field *types.Var
	n := 0
	for _, rl := range returnLeaves(g, g.Signature.Results().Len()-1) {
		if !isNilConst(rl.v) {
			continue
		}
		n++
		var f *types.Var
		if !condGuardEdge(rl.b, rl.to, func(cd Cond) bool {
			if cd.Op != token.NEQ {
				return false
			}
			x, y := cd.X, cd.Y
			if isNilConst(x) {
				x, y = y, x
			}
			ap := pathOf(x)
			if isNilConst(y) && ap.Root == ssa.Value(g.Params[0]) && ap.Last() != nil {
				f = ap.Last()
				return true
			}
			return false
		}) {
			return nil
		}
		if field != nil && field != f {
			return nil
		}
		field = f
	}
	if n == 0 {
		return nil
	}
	return field
}
