package main

import (
	"fmt"
	"go/token"
	"go/types"
	"strings"

	"golang.org/x/tools/go/ssa"
)

func init() {
	register("C12", "that encoding/json's Decoder reassembles any fragmentation and its Encoder issues one Write per value (trusted library behaviour); TLS record handling; actual byte streams under real faults", c12)
	register("C16", "exact acceptance thresholds between one and two limits (depends on json.Decoder's read-ahead buffering); memory actually allocated", c16)
}

// ioWrappers finds in-package methods with the io.Reader / io.Writer signature that call an inner Read/Write on a
// net.Conn / io.Reader / io.Writer held in a field.
type ioWrapper struct {
	fn    *ssa.Function
	inner *ssa.Call
	kind  string // Read | Write
}

func ioWrappers(p *Prog) []ioWrapper {
	var out []ioWrapper
	for _, fn := range p.LimeFuncs() {
		if fn.Parent() != nil || fn.Signature.Recv() == nil || (fn.Name() != "Read" && fn.Name() != "Write") {
			continue
		}
		sig := fn.Signature
		if sig.Params().Len() != 1 || sig.Results().Len() != 2 {
			continue
		}
		if sl, ok := sig.Params().At(0).Type().Underlying().(*types.Slice); !ok || sl.Elem().String() != "byte" {
			continue
		}
		var inner *ssa.Call
		eachInstr(fn, func(in ssa.Instruction) {
			if c, ok := in.(*ssa.Call); ok && c.Call.IsInvoke() && c.Call.Method.Name() == fn.Name() {
				inner = c
			}
		})
		if inner != nil {
			out = append(out, ioWrapper{fn, inner, fn.Name()})
		}
	}
	return out
}

func extractOf(c *ssa.Call, idx int) ssa.Value {
	for _, ref := range *c.Referrers() {
		if ex, ok := ref.(*ssa.Extract); ok && ex.Index == idx {
			return ex
		}
	}
	return nil
}

func c12(r *Report, s *Sem) {
	defer r.Import(s, "C16", "R3", "R7", "merged reads do not starve later envelopes: the read budget is re-armed unconditionally for every Receive (a budget renewed only when nothing is buffered makes a coalesced burst of small envelopes hit the limit)", 1)
	p := r.P
	R1 := r.Rule("R1", "writer progress: a Write wrapper that retries hands the inner Write the unsent remainder b[acc:] where acc accumulates every inner count, and every return after an inner call reports that accumulated count (no byte written twice, none unreported)", 2)
	R2 := r.Rule("R2", "reader progress: a Read wrapper never discards a positive inner count: every return after the inner call reports that count, and a retry is taken only on the edge count <= 0", 2)
	R3 := r.Rule("R3", "retry only on transient timeouts: the path back to the inner call crosses the true edges of Timeout() and Temporary() of that call's error, and re-checks the context before retrying", 4)
	R4 := r.Rule("R4", "single byte path: the raw connection's Read/Write are invoked only by the wrappers; the JSON encoder/decoder of a TCP transport are created only in one function, over that wrapper (through the limited reader / optional tee); that function runs at construction and after a successful TLS handshake only", 5)
	R5 := r.Rule("R5", "error surfacing: every Encode/Decode error is returned by Send/Receive, the end-of-stream flag is set on the io.EOF edge in both, and Connected() reads it; a successful Encode/Decode is reported as success (Send returns nil, Receive returns the converted envelope)", 7)

	ws := ioWrappers(p)
	if len(ws) < 2 {
		r.Undecided(R1, "anchor-unresolved:I/O wrappers", "-", fmt.Sprintf("%d Read/Write wrappers found", len(ws)))
	}
	for _, w := range ws {
		base := "func " + fnName(w.fn)
		cnt := extractOf(w.inner, 0)
		errv := extractOf(w.inner, 1)
		retries := reachesInstr(w.inner, w.inner)
		switch w.kind {
		case "Write":
			bParam := w.fn.Params[1]
			arg := stripConv(w.inner.Call.Args[0])
			if !retries {
				r.Trivial(R1, base+" / no retry loop", p.instrPos(w.inner), arg == ssa.Value(bParam), "single inner Write of the caller's buffer")
				break
			}
			// b[acc:]
			sl, isSlice := arg.(*ssa.Slice)
			okArg := false
			var acc *ssa.Phi
			if isSlice && stripConv(sl.X) == ssa.Value(bParam) && sl.Low != nil && sl.High == nil {
				if ph, ok := sl.Low.(*ssa.Phi); ok {
					acc = ph
					// back-edge input: acc + count
					for _, e := range ph.Edges {
						if bo, ok := e.(*ssa.BinOp); ok && bo.Op == token.ADD {
							if (bo.X == ssa.Value(ph) && bo.Y == cnt) || (bo.Y == ssa.Value(ph) && bo.X == cnt) {
								okArg = true
							}
						}
					}
				}
			}
			r.Check(R1, base+" / retry resumes after the bytes already written", p.instrPos(w.inner), okArg,
				"the buffer handed to the inner Write on a retry must be b[acc:] with acc += count of every inner call; passing b again duplicates the bytes a short write already sent")
			// returned counts
			okRet := true
			walkFrom(w.fn, w.inner, walkOpts{
				barrier: func(in ssa.Instruction) bool { return in == ssa.Instruction(w.inner) },
				onExit: func(e ssa.Instruction, pred *ssa.BasicBlock) {
					ret := e.(*ssa.Return)
					v := ret.Results[0]
					good := false
					if bo, ok := v.(*ssa.BinOp); ok && bo.Op == token.ADD && acc != nil && ((bo.X == ssa.Value(acc) && bo.Y == cnt) || (bo.Y == ssa.Value(acc) && bo.X == cnt)) {
						good = true
					}
					if acc != nil && v == ssa.Value(acc) {
						good = true // returned at the loop head on a later iteration: acc already includes the count
					}
					if !good {
						okRet = false
					}
				}})
			r.Check(R1, base+" / returned count includes every inner count", p.instrPos(w.inner), okRet && acc != nil, "a return after an inner Write must report acc (+ count), never 0")
		case "Read":
			okRet := true
			nothingRead := func(from *ssa.BasicBlock, k int) bool {
				ifi := ifOf(from)
				if ifi == nil {
					return false
				}
				cd := condOn(ifi, k == 0)
				if cd.X != cnt {
					return false
				}
				kv, ok := constInt(cd.Y)
				if !ok {
					return false
				}
				return (cd.Op == token.LEQ && kv == 0) || (cd.Op == token.EQL && kv == 0) || (cd.Op == token.LSS && kv == 1)
			}
			walkFrom(w.fn, w.inner, walkOpts{
				barrier: func(in ssa.Instruction) bool { return in == ssa.Instruction(w.inner) },
				cutEdge: nothingRead, // with nothing read there is nothing to report
				onExit: func(e ssa.Instruction, pred *ssa.BasicBlock) {
					ret := e.(*ssa.Return)
					if ret.Results[0] != cnt {
						okRet = false
					}
				}})
			r.Check(R2, base+" / positive count is never discarded", p.instrPos(w.inner), okRet, "every return after the inner Read must report the inner count (returning 0 drops bytes already copied into the caller's buffer)")
			if retries {
				// the retry edge requires count <= 0
				retryWithData := reachesWithout(w.inner, w.inner, func(from *ssa.BasicBlock, k int) bool {
					ifi := ifOf(from)
					if ifi == nil {
						return false
					}
					cd := condOn(ifi, k == 0)
					if cd.X != cnt {
						return false
					}
					kv, ok := constInt(cd.Y)
					if !ok {
						return false
					}
					return (cd.Op == token.LEQ && kv == 0) || (cd.Op == token.EQL && kv == 0) || (cd.Op == token.LSS && kv == 1)
				})
				r.Check(R2, base+" / retry only when nothing was read", p.instrPos(w.inner), !retryWithData, "looping with a positive count overwrites bytes already delivered into the buffer")
			}
		}
		if retries {
			for _, m := range []string{"Timeout", "Temporary"} {
				loose := reachesWithout(w.inner, w.inner, func(from *ssa.BasicBlock, k int) bool {
					ifi := ifOf(from)
					if ifi == nil {
						return false
					}
					cd := condOn(ifi, k == 0)
					if cd.Op != token.ILLEGAL || !cd.True {
						return false
					}
					call, _ := callOf(cd.Val)
					if call == nil || !call.Call.IsInvoke() || call.Call.Method.Name() != m {
						return false
					}
					// on the error of this inner call
					for _, l := range leaves(call.Call.Value) {
						if ex, ok := stripConv(l).(*ssa.Extract); ok {
							if ta, ok := ex.Tuple.(*ssa.TypeAssert); ok && stripConv(ta.X) == errv {
								return true
							}
						}
					}
					return false
				})
				r.Check(R3, base+" / retry requires "+m+"()", p.instrPos(w.inner), !loose, "retrying on a non-transient error would spin or hide a failure")
			}
			noCtx := reachesWithout(w.inner, w.inner, nil) && func() bool {
				// every cycle passes a ctx.Err() call
				passes := true
				found := false
				walkFrom(w.fn, w.inner, walkOpts{barrier: func(in ssa.Instruction) bool {
					if c, ok := in.(*ssa.Call); ok && c.Call.IsInvoke() && c.Call.Method.Name() == "Err" {
						return true
					}
					if in == ssa.Instruction(w.inner) {
						found = true
						return true
					}
					return false
				}})
				if found {
					passes = false
				}
				return !passes
			}()
			r.Check(R3, base+" / context re-checked before each retry", p.instrPos(w.inner), !noCtx, "a cancelled context must end the polling loop")
		}
	}

	// ---- R4
	wrapperFns := map[*ssa.Function]bool{}
	for _, w := range ws {
		wrapperFns[w.fn] = true
	}
	connIface := func(t types.Type) bool {
		n := namedOf(t)
		return n != nil && n.Obj().Pkg() != nil && n.Obj().Pkg().Path() == "net" && n.Obj().Name() == "Conn"
	}
	nRaw := 0
	for _, fn := range p.LimeFuncs() {
		eachCall(fn, func(c ssa.CallInstruction) {
			cc := c.Common()
			if !cc.IsInvoke() || (cc.Method.Name() != "Read" && cc.Method.Name() != "Write") || !connIface(cc.Value.Type()) {
				return
			}
			nRaw++
			r.Check(R4, "func "+fnName(fn)+" / raw net.Conn."+cc.Method.Name(), p.instrPos(c), wrapperFns[fn], "the raw connection may be read/written only through the deadline-polling wrapper (a second reader would steal bytes from the JSON stream)")
		})
	}
	// codec construction
	var ctorFns []*ssa.Function
	for _, fn := range p.LimeFuncs() {
		eachCall(fn, func(c ssa.CallInstruction) {
			g := staticCallee(c)
			if g == nil || g.Pkg == nil || g.Pkg.Pkg.Path() != "encoding/json" || (g.Name() != "NewDecoder" && g.Name() != "NewEncoder") {
				return
			}
			if !typeIs(recvType(topLevel(fn)), p.Type("tcpTransport")) {
				return
			}
			ctorFns = appendFn(ctorFns, fn)
			// argument derives from the wrapper
			ok := derivesFromWrapper(c.Common().Args[0], 0)
			r.Check(R4, "func "+fnName(fn)+" / "+g.Name()+" over the polling wrapper", p.instrPos(c), ok, "the codec must read/write through the context-aware wrapper (possibly via the limited reader / tee / multi-writer)")
		})
	}
	r.Check(R4, "tcp transport codec / created in one function", "-", len(ctorFns) == 1, fmt.Sprintf("%d function(s) create the transport's encoder/decoder", len(ctorFns)))
	if len(ctorFns) == 1 {
		setConn := ctorFns[0]
		for _, c := range p.callersOf(setConn) {
			caller := c.Parent()
			ok := false
			why := ""
			// construction: the transport was allocated in this function; or after a successful Handshake
			if al, isAlloc := pathOf(c.Common().Args[0]).Root.(*ssa.Alloc); isAlloc && al.Parent() == caller {
				ok, why = true, "construction"
			}
			var hs *ssa.Call
			eachInstr(caller, func(in ssa.Instruction) {
				if cc, ok := in.(*ssa.Call); ok {
					if g := cc.Call.StaticCallee(); g != nil && g.Name() == "Handshake" {
						hs = cc
					}
				}
			})
			if hs != nil && instrDominates(hs, c) && errNilGuard(c.Block(), hs) {
				ok, why = true, "after a successful TLS handshake"
			}
			r.Check(R4, "func "+fnName(caller)+" / rebinds the connection", p.instrPos(c), ok, why+" — the byte path may be replaced only at construction or once TLS is up")
		}
	}

	// ---- R5
	eofF := p.Field("tcpTransport", "eof")
	for _, m := range []struct{ name, op string }{{"Send", "Encode"}, {"Receive", "Decode"}} {
		fn := p.Method("tcpTransport", m.name)
		if fn == nil {
			r.Undecided(R5, "anchor-unresolved:tcpTransport."+m.name, "-", "not found")
			continue
		}
		var op *ssa.Call
		eachInstr(fn, func(in ssa.Instruction) {
			if c, ok := in.(*ssa.Call); ok {
				if g := c.Call.StaticCallee(); g != nil && g.Name() == m.op {
					op = c
				}
			}
		})
		if op == nil {
			r.Check(R5, "func "+fnName(fn)+" / "+m.op, p.pos(fn.Pos()), false, "codec call not found")
			continue
		}
		// on the err != nil edge every exit returns a non-nil error
		okErr := true
		walkFrom(fn, op, walkOpts{
			cutEdge: func(from *ssa.BasicBlock, k int) bool {
				ifi := ifOf(from)
				if ifi == nil {
					return false
				}
				isNil, ok := errTestOf(ifi, k == 0, op)
				return ok && isNil
			},
			onExit: func(e ssa.Instruction, pred *ssa.BasicBlock) {
				if ret, ok := e.(*ssa.Return); ok && retMayBeNilVia(ret, pred) {
					okErr = false
				}
			}})
		r.Check(R5, "func "+fnName(fn)+" / "+m.op+" error is returned", p.instrPos(op), okErr, "a failed or cut operation must surface as an error, never as success")
		// … and conversely: once the codec call succeeded the envelope is on the wire / out of the stream, so the
		// operation reports exactly that (Send: nil; Receive: the converted value, never a bare error that drops it)
		okOK, whyOK := true, ""
		walkFrom(fn, op, walkOpts{
			cutEdge: func(from *ssa.BasicBlock, k int) bool {
				ifi := ifOf(from)
				if ifi == nil {
					return false
				}
				isNil, ok := errTestOf(ifi, k == 0, op)
				return ok && !isNil
			},
			onExit: func(e ssa.Instruction, pred *ssa.BasicBlock) {
				ret, ok := e.(*ssa.Return)
				if !ok {
					return
				}
				if m.name == "Send" {
					for _, l := range leaves(ret.Results[len(ret.Results)-1]) {
						if !isNilConst(stripConv(l)) {
							okOK, whyOK = false, "an error can be returned at "+p.instrPos(ret)+" although the envelope was written"
						}
					}
					return
				}
				for _, l := range returnLeavesOf(ret, 0) {
					if isNilConst(stripConv(l)) {
						okOK, whyOK = false, "a nil envelope can be returned at "+p.instrPos(ret)+" although one was taken out of the stream: the receiver sees a gap"
					}
				}
			}})
		r.Check(R5, "func "+fnName(fn)+" / a successful "+m.op+" is reported as such", p.instrPos(op), okOK, whyOK)
		okEOF := false
		isEOFTest := func(v ssa.Value) bool {
			call, _ := callOf(v)
			if call == nil {
				return false
			}
			g := call.Call.StaticCallee()
			if g == nil || g.Pkg == nil || g.Pkg.Pkg.Path() != "errors" || g.Name() != "Is" {
				return false
			}
			gl, ok := pathOf(call.Call.Args[1]).Root.(*ssa.Global)
			return ok && gl.Name() == "EOF"
		}
		for _, st := range fieldStores([]*ssa.Function{fn}, eofF) {
			// eof = eof || errors.Is(err, io.EOF): the stored value is the test itself, possibly or-ed with the old flag
			hasTest, onlyTrueOrOld := false, true
			for _, l := range leaves(st.Val) {
				l = stripConv(l)
				switch {
				case isEOFTest(l):
					hasTest = true
				case pathOf(l).Last() == eofF:
				default:
					if c, isC := l.(*ssa.Const); !isC || c.Value == nil || c.Value.String() != "true" {
						onlyTrueOrOld = false
					}
				}
			}
			if hasTest && onlyTrueOrOld {
				okEOF = true
			}
		}
		for _, st := range fieldStores([]*ssa.Function{fn}, eofF) {
			if condGuard(st.Block(), func(cd Cond) bool {
				if cd.Op != token.ILLEGAL || !cd.True {
					return false
				}
				call, _ := callOf(cd.Val)
				if call == nil {
					return false
				}
				g := call.Call.StaticCallee()
				if g == nil || g.Pkg == nil || g.Pkg.Pkg.Path() != "errors" || g.Name() != "Is" {
					return false
				}
				if gl, ok := pathOf(call.Call.Args[1]).Root.(*ssa.Global); ok && gl.Name() == "EOF" {
					return true
				}
				return false
			}) {
				okEOF = true
			}
		}
		r.Check(R5, "func "+fnName(fn)+" / marks the transport disconnected on EOF", p.instrPos(op), okEOF, "errors.Is(err, io.EOF) ⇒ eof = true")
	}
	if conn := p.Method("tcpTransport", "Connected"); conn != nil {
		reads := false
		eachInstr(conn, func(in ssa.Instruction) {
			if fa, ok := in.(*ssa.FieldAddr); ok && structField(fa.X.Type(), fa.Field) == eofF {
				reads = true
			}
		})
		r.Check(R5, "func "+fnName(conn)+" / reads the end-of-stream flag", p.pos(conn.Pos()), reads, "Connected() must turn false after EOF")
	}

	// ---- R6: what was reported as sent stays in the kernel's hands until delivered
	R6 := r.Rule("R6", "no data-discarding socket option: every call the package makes on a net/tls connection or listener object is inspected, and none is SetLinger with a non-negative value (SO_LINGER ≥ 0 makes Close discard or bound the delivery of bytes whose Write already reported success — the peer reads a cut stream after envelopes were reported as sent)", 10)
	for _, fn := range p.LimeFuncs() {
		eachCall(fn, func(c ssa.CallInstruction) {
			cc := c.Common()
			var recv types.Type
			name := ""
			if cc.IsInvoke() {
				recv, name = cc.Value.Type(), cc.Method.Name()
			} else if g := staticCallee(c); g != nil && g.Signature.Recv() != nil {
				recv, name = g.Signature.Recv().Type(), g.Name()
			} else {
				return
			}
			n := namedOf(recv)
			if n == nil || n.Obj().Pkg() == nil {
				return
			}
			if pk := n.Obj().Pkg().Path(); (pk != "net" && pk != "crypto/tls") || !strings.HasSuffix(n.Obj().Name(), "Conn") {
				return
			}
			bad := ""
			if name == "SetLinger" {
				bad = "SetLinger"
				if k, isC := constInt(stripConv(cc.Args[len(cc.Args)-1])); isC && k < 0 {
					bad = "" // the default: Close returns at once and the kernel keeps delivering
				}
			}
			r.Check(R6, fmt.Sprintf("func %s / %s.%s keeps written data deliverable", fnName(fn), n.Obj().Name(), name), p.instrPos(c), bad == "", map[bool]string{true: "", false: "SetLinger(sec ≥ 0) on a connection of the transport"}[bad == ""])
		})
	}
}

// derivesFromWrapper: the reader/writer handed to the codec is the polling wrapper, possibly through io.TeeReader,
// io.MultiWriter or an io.LimitedReader whose R derives from it.
func derivesFromWrapper(v ssa.Value, d int) bool {
	if d > 8 {
		return false
	}
	okAll, n := true, 0
	for _, l := range leaves(v) {
		l = stripConv(l)
		n++
		ap := pathOf(l)
		if f := ap.Last(); f != nil {
			if nt := namedOf(f.Type()); nt != nil && curProg != nil && curProg.Type("ctxConn") != nil && nt.Obj() == curProg.Type("ctxConn").Obj() {
				continue
			}
			// address of the limited reader field: its R stores
			if nt := namedOf(f.Type()); nt != nil && nt.Obj().Name() == "LimitedReader" {
				fn := l.Parent()
				found := false
				if fn != nil {
					eachInstr(fn, func(in ssa.Instruction) {
						st, ok := in.(*ssa.Store)
						if !ok {
							return
						}
						// whole-struct store or store to .R
						sap := pathOf(st.Addr)
						if sap.Last() == f {
							// value is a struct literal cell: find its R
							if u, ok := st.Val.(*ssa.UnOp); ok {
								if al, ok := u.X.(*ssa.Alloc); ok {
									for _, rs := range storesInto(al, "R") {
										if derivesFromWrapper(rs.Val, d+1) {
											found = true
										}
									}
								}
							}
						}
						if len(sap.Fields) > 0 && sap.Last().Name() == "R" && len(sap.Fields) >= 2 && sap.Fields[len(sap.Fields)-2] == f {
							if derivesFromWrapper(st.Val, d+1) {
								found = true
							}
						}
					})
				}
				if found {
					continue
				}
			}
		}
		if call, _ := callOf(l); call != nil {
			if g := call.Call.StaticCallee(); g != nil && g.Pkg != nil && g.Pkg.Pkg.Path() == "io" && (g.Name() == "TeeReader" || g.Name() == "MultiWriter") {
				sub := false
				for _, a := range call.Call.Args {
					if sl, ok := stripConv(a).(*ssa.Slice); ok {
						for _, e := range sliceOriginsElems(sl) {
							if derivesFromWrapper(e, d+1) {
								sub = true
							}
						}
					} else if derivesFromWrapper(a, d+1) {
						sub = true
					}
				}
				if sub {
					continue
				}
			}
		}
		okAll = false
	}
	return okAll && n > 0
}

func c16(r *Report, s *Sem) {
	defer func() {
		p := r.P
		R7 := r.Rule("R7", "the limit a listener or transport was created with is its own: TCPConfig is held by value in the TCP listener and transport (a retained pointer to the caller's configuration lets a later change of ReadLimit — e.g. for a second listener built from the same value — reach transports of the first)", 2)
		cfgT := p.Type("TCPConfig")
		n := 0
		for _, tn := range []string{"tcpTransportListener", "tcpTransport"} {
			nt := p.Type(tn)
			if nt == nil || cfgT == nil {
				r.Undecided(R7, "anchor-unresolved:"+tn+" / TCPConfig", "-", "not found")
				continue
			}
			st, ok := nt.Underlying().(*types.Struct)
			if !ok {
				continue
			}
			n++
			bad := ""
			for i := 0; i < st.NumFields(); i++ {
				if pt, isPtr := st.Field(i).Type().(*types.Pointer); isPtr && typeIs(pt.Elem(), cfgT) {
					bad = "field " + st.Field(i).Name() + " is a *TCPConfig"
				}
			}
			r.Check(R7, "type "+tn+" / holds its configuration by value", p.pos(nt.Obj().Pos()), bad == "", bad)
		}
		_ = n
	}()
	p := r.P
	defer r.Import(s, "C12", "R5", "R6", "an envelope within the limit is accepted wherever it sits in the stream: once Decode succeeded under the per-envelope budget, Receive returns the converted envelope — no further size test (a decoder's stream offset is cumulative) may refuse it", 1, "a successful Decode")
	R1 := r.Rule("R1", "the TCP transport's decoder is constructed only over the address of the transport's own io.LimitedReader, whose R derives from the polling wrapper (optionally through io.TeeReader)", 2)
	R2 := r.Rule("R2", "every store to the limited reader's budget N stores the same transport's ReadLimit; ReadLimit is defaulted to the positive DefaultReadLimit on its == 0 edge before first use — so N ≤ ReadLimit is invariant (io.LimitedReader only decreases N)", 3)
	R3 := r.Rule("R3", "the budget is re-armed for every envelope: in Receive a store N = ReadLimit dominates the Decode call (or follows it on every path on which the transport stays usable)", 1)
	R4 := r.Rule("R4", "the configured limit reaches every transport: Accept copies the listener's ReadLimit into the new transport before binding the connection, DialTcp copies the caller's configuration", 2)
	r.Trusted = append(r.Trusted, "io.LimitedReader never increases N and returns EOF at N <= 0")

	lrF := p.Field("tcpTransport", "limitedReader")
	rlF := p.Field("TCPConfig", "ReadLimit")
	recv := p.Method("tcpTransport", "Receive")
	if lrF == nil || rlF == nil || recv == nil {
		r.Undecided(R1, "anchor-unresolved:tcpTransport.limitedReader/ReadLimit/Receive", "-", "not found")
		return
	}
	// ---- R5
	R5 := r.Rule("R5", "the transport is never copied: the decoder holds the address of the limited reader inside the transport it was bound to, so a transport value that is loaded, stored, passed or returned as a whole leaves Receive re-arming a budget the decoder does not read (the limit would then count per connection, not per envelope)", 1)
	tt := p.Type("tcpTransport")
	copies := 0
	if tt != nil {
		isT := func(t types.Type) bool { return types.Identical(t, tt) }
		for _, fn := range p.LimeFuncs() {
			for _, prm := range fn.Params {
				if isT(prm.Type()) {
					copies++
					r.Check(R5, "func "+fnName(fn)+" / parameter "+prm.Name()+" by value", p.pos(fn.Pos()), false, "a transport passed by value is a copy")
				}
			}
			if res := fn.Signature.Results(); res != nil {
				for i := 0; i < res.Len(); i++ {
					if isT(res.At(i).Type()) {
						copies++
						r.Check(R5, "func "+fnName(fn)+" / returns the transport by value", p.pos(fn.Pos()), false, "a transport returned by value is a copy of the one its decoder was bound to")
					}
				}
			}
			eachInstr(fn, func(in ssa.Instruction) {
				if v, ok := in.(ssa.Value); ok && isT(v.Type()) {
					if _, isCall := in.(*ssa.Call); isCall {
						return // reported at the callee
					}
					copies++
					r.Check(R5, "func "+fnName(fn)+" / transport value "+describe(v), p.instrPos(in), false, "the transport is handled as a value here (copied)")
				}
			})
		}
	}
	r.Check(R5, "type tcpTransport / only ever handled through pointers", "-", copies == 0, fmt.Sprintf("%d by-value use(s)", copies))

	// ---- R1
	nDec := 0
	for _, fn := range p.LimeFuncs() {
		if !typeIs(recvType(topLevel(fn)), p.Type("tcpTransport")) {
			continue
		}
		eachCall(fn, func(c ssa.CallInstruction) {
			g := staticCallee(c)
			if g == nil || g.Pkg == nil || g.Pkg.Pkg.Path() != "encoding/json" || g.Name() != "NewDecoder" {
				return
			}
			nDec++
			arg := stripConv(c.Common().Args[0])
			overLR := pathOf(arg).Last() == lrF
			r.Check(R1, "func "+fnName(fn)+" / decoder reads through the limited reader", p.instrPos(c), overLR, "json.NewDecoder must be given &t.limitedReader; a decoder on the raw wrapper buffers without bound")
			r.Check(R1, "func "+fnName(fn)+" / limited reader wraps the connection", p.instrPos(c), derivesFromWrapper(arg, 0), "LimitedReader.R must be the polling wrapper (or a tee of it)")
		})
	}
	if nDec == 0 {
		r.Undecided(R1, "tcp transport / decoder construction", "-", "no json.NewDecoder call in tcpTransport methods")
	}

	// ---- R2
	readLimitOfSame := func(v ssa.Value, store ssa.Instruction) bool {
		ok, n := true, 0
		for _, l := range leaves(v) {
			n++
			ap := pathOf(l)
			if ap.Last() != rlF || ap.Root != pathOf(storeAddr(store)).Root {
				ok = false
			}
		}
		return ok && n > 0
	}
	nN := 0
	for _, fn := range p.LimeFuncs() {
		eachInstr(fn, func(in ssa.Instruction) {
			st, ok := in.(*ssa.Store)
			if !ok {
				return
			}
			ap := pathOf(st.Addr)
			if len(ap.Fields) == 0 {
				return
			}
			// t.limitedReader.N = …
			if ap.Last().Name() == "N" && len(ap.Fields) >= 2 && ap.Fields[len(ap.Fields)-2] == lrF {
				nN++
				r.Check(R2, "func "+fnName(fn)+" / store limitedReader.N", p.instrPos(in), readLimitOfSame(st.Val, in), "the budget may only be set to this transport's ReadLimit")
			}
			// t.limitedReader = io.LimitedReader{…, N: …}
			if ap.Last() == lrF {
				if u, ok := st.Val.(*ssa.UnOp); ok {
					if al, ok := u.X.(*ssa.Alloc); ok {
						for _, ns := range storesInto(al, "N") {
							nN++
							r.Check(R2, "func "+fnName(fn)+" / store limitedReader (literal N)", p.instrPos(ns), readLimitOfSame(ns.Val, in), "the budget may only be set to this transport's ReadLimit")
						}
					}
				}
			}
		})
	}
	// defaulting: a store ReadLimit = DefaultReadLimit on the ReadLimit == 0 edge, dominating the decoder construction
	defOK := false
	for _, fn := range p.LimeFuncs() {
		for _, st := range fieldStores([]*ssa.Function{fn}, rlF) {
			// ReadLimit = f(ReadLimit) with f = "the default when zero": a phi of the positive constant, arriving on the
			// edge `ReadLimit == 0`, and the configured value itself
			if ph, isPhi := stripConv(st.Val).(*ssa.Phi); isPhi {
				hasDefault, othersOld := false, true
				for i, e := range ph.Edges {
					if k, isConst := constInt(stripConv(e)); isConst && k > 0 {
						if condGuardEdge(ph.Block().Preds[i], ph.Block(), func(cd Cond) bool {
							if cd.Op != token.EQL {
								return false
							}
							x, y := cd.X, cd.Y
							if _, isC := stripConv(x).(*ssa.Const); isC {
								x, y = y, x
							}
							kv, ok := constInt(stripConv(y))
							return ok && kv == 0 && pathOf(x).Last() == rlF
						}) {
							hasDefault = true
							continue
						}
					}
					if pathOf(e).Last() != rlF {
						othersOld = false
					}
				}
				if hasDefault && othersOld {
					eachCall(fn, func(c ssa.CallInstruction) {
						if g := staticCallee(c); g != nil && g.Name() == "NewDecoder" && !reachesInstr(c, st) {
							defOK = true
						}
					})
				}
				continue
			}
			k, isConst := constInt(stripConv(st.Val))
			if !isConst || k <= 0 {
				continue
			}
			if condGuard(st.Block(), func(cd Cond) bool {
				if cd.Op != token.EQL {
					return false
				}
				x, y := cd.X, cd.Y
				if _, isC := stripConv(x).(*ssa.Const); isC {
					x, y = y, x
				}
				kv, ok := constInt(stripConv(y))
				return ok && kv == 0 && pathOf(x).Last() == rlF
			}) {
				// before the literal / decoder in the same function
				eachCall(fn, func(c ssa.CallInstruction) {
					if g := staticCallee(c); g != nil && g.Name() == "NewDecoder" && !reachesInstr(c, st) {
						defOK = true
					}
				})
			}
		}
	}
	r.Check(R2, "tcp transport / ReadLimit defaulted to a positive constant before first use", "-", defOK, "ReadLimit == 0 ⇒ ReadLimit = DefaultReadLimit, ahead of the decoder construction")
	if dc := p.Const("DefaultReadLimit"); dc != nil {
		r.Check(R2, "const DefaultReadLimit / positive", "-", dc.Val().String() != "0" && dc.Val().String()[0] != '-', dc.Val().String())
	}

	// ---- R3
	var dec *ssa.Call
	eachInstr(recv, func(in ssa.Instruction) {
		if c, ok := in.(*ssa.Call); ok {
			if g := c.Call.StaticCallee(); g != nil && g.Name() == "Decode" {
				dec = c
			}
		}
	})
	if dec == nil {
		r.Undecided(R3, "func "+fnName(recv)+" / Decode", p.pos(recv.Pos()), "not found")
	} else {
		var rearm []*ssa.Store
		eachInstr(recv, func(in ssa.Instruction) {
			if st, ok := in.(*ssa.Store); ok {
				ap := pathOf(st.Addr)
				if len(ap.Fields) >= 2 && ap.Last().Name() == "N" && ap.Fields[len(ap.Fields)-2] == lrF && readLimitOfSame(st.Val, st) {
					rearm = append(rearm, st)
				}
			}
		})
		ok := false
		for _, st := range rearm {
			if instrDominates(st, dec) {
				ok = true
			}
		}
		if !ok && len(rearm) > 0 {
			// after-placement: every exit reachable from Decode on which the transport stays usable passes a re-arm
			eofF := p.Field("tcpTransport", "eof")
			bad := 0
			walkFrom(recv, dec, walkOpts{
				barrier: func(in ssa.Instruction) bool {
					for _, st := range rearm {
						if in == ssa.Instruction(st) {
							return true
						}
					}
					if st, ok := in.(*ssa.Store); ok && pathOf(st.Addr).Last() == eofF {
						return true // end of stream: unusable from now on
					}
					return false
				},
				onExit: func(e ssa.Instruction, pred *ssa.BasicBlock) { bad++ }})
			ok = bad == 0
		}
		r.Check(R3, "func "+fnName(recv)+" / budget re-armed for every envelope", p.instrPos(dec), ok,
			"json.Decoder type errors are not sticky: if the decode-error exit leaves N reduced, the next in-limit envelope can be refused")
	}

	// ---- R4
	for _, mk := range []struct {
		fn   *ssa.Function
		what string
	}{{p.Func("DialTcp"), "dial"}, {p.Method("tcpTransportListener", "Accept"), "accept"}} {
		if mk.fn == nil {
			r.Undecided(R4, "anchor-unresolved:"+mk.what, "-", "not found")
			continue
		}
		// the call binding the connection (creates the decoder) must be preceded by a store to the new transport's
		// ReadLimit/TCPConfig from configuration
		var bind ssa.CallInstruction
		eachCall(mk.fn, func(c ssa.CallInstruction) {
			if g := staticCallee(c); g != nil && typeIs(recvType(g), p.Type("tcpTransport")) {
				calls := false
				eachCall(g, func(c2 ssa.CallInstruction) {
					if g2 := staticCallee(c2); g2 != nil && g2.Name() == "NewDecoder" {
						calls = true
					}
				})
				if calls {
					bind = c
				}
			}
		})
		if bind == nil {
			r.Check(R4, "func "+fnName(mk.fn)+" / binds the connection", p.pos(mk.fn.Pos()), false, "no call of the codec-constructing function")
			continue
		}
		tRoot := pathOf(bind.Common().Args[0]).Root
		// a value carries the configured limit when it is (a copy of) configuration handed in — a parameter's or a
		// global's field — or a local literal whose ReadLimit is stored from such a value
		var carries func(l ssa.Value, d int) bool
		carries = func(l ssa.Value, d int) bool {
			l = stripConv(l)
			lp := pathOf(l)
			if _, isParam := lp.Root.(*ssa.Parameter); isParam {
				return true
			}
			if _, isGlobal := lp.Root.(*ssa.Global); isGlobal {
				return true
			}
			if u, ok := l.(*ssa.UnOp); ok && u.Op == token.MUL && d < 4 {
				if _, isPhi := stripConv(u.X).(*ssa.Phi); isPhi {
					// *cfg with cfg = the caller's pointer or the address of the package default
					n, all := 0, true
					for _, pl := range leaves(u.X) {
						n++
						switch pathOf(pl).Root.(type) {
						case *ssa.Parameter, *ssa.Global:
						default:
							if _, isG := stripConv(pl).(*ssa.Global); !isG {
								all = false
							}
						}
					}
					return n > 0 && all
				}
				if al, ok := stripConv(u.X).(*ssa.Alloc); ok {
					sts := storesInto(al, rlF.Name())
					if len(sts) == 0 {
						// a whole-value store into the local
						n, all := 0, true
						for _, ref := range *al.Referrers() {
							if st, ok := ref.(*ssa.Store); ok && st.Addr == ssa.Value(al) {
								n++
								for _, l2 := range leaves(st.Val) {
									if !carries(l2, d+1) {
										all = false
									}
								}
							}
						}
						return n > 0 && all
					}
					for _, st := range sts {
						for _, l2 := range leaves(st.Val) {
							if !carries(l2, d+1) {
								return false
							}
						}
					}
					return true
				}
			}
			return false
		}
		type cfgStore struct {
			st   *ssa.Store
			good bool
		}
		var stores []cfgStore
		eachInstr(mk.fn, func(in ssa.Instruction) {
			st, ok := in.(*ssa.Store)
			if !ok || !instrDominates(st, bind) {
				return
			}
			ap := pathOf(st.Addr)
			if ap.Root != tRoot || len(ap.Fields) == 0 {
				return
			}
			last := ap.Last()
			if last == rlF || (last.Embedded() && last.Name() == "TCPConfig") {
				good, n := true, 0
				for _, l := range leaves(st.Val) {
					n++
					if !carries(l, 0) {
						good = false
					}
				}
				stores = append(stores, cfgStore{st, good && n > 0})
			}
		})
		cfgOK := false
		for _, g := range stores {
			if !g.good {
				continue
			}
			overridden := false
			for _, o := range stores {
				if !o.good && o.st != g.st && instrDominates(g.st, o.st) {
					overridden = true
				}
			}
			if !overridden {
				cfgOK = true
			}
		}
		r.Check(R4, "func "+fnName(mk.fn)+" / configured ReadLimit copied before the connection is bound", p.instrPos(bind), cfgOK, "the new transport must carry the configured limit when its decoder is created")
	}
}

func storeAddr(in ssa.Instruction) ssa.Value {
	if st, ok := in.(*ssa.Store); ok {
		return st.Addr
	}
	return nil
}
