package main

import (
	"fmt"
	"go/token"
	"sort"
	"strings"

	"golang.org/x/tools/go/ssa"
)

// Encoder discipline shared by C01, C02 and C11.

// receiverFieldOf: the first-level field of the encoder's receiver that value v reads ("" when none, "*" for the whole).
func receiverFieldsIn(v ssa.Value, recv ssa.Value, depth int) map[string]bool {
	out := map[string]bool{}
	seen := map[ssa.Value]bool{}
	isRecv := func(x ssa.Value) bool {
		x = stripConv(x)
		if x == recv {
			return true
		}
		if u, ok := x.(*ssa.UnOp); ok && u.Op == token.MUL {
			if al, ok := u.X.(*ssa.Alloc); ok {
				if sv := singleStore(al); sv != nil && stripConv(sv) == recv {
					return true
				}
			}
		}
		if al, ok := x.(*ssa.Alloc); ok {
			if sv := singleStore(al); sv != nil && stripConv(sv) == recv {
				return true
			}
		}
		return false
	}
	var rec func(v ssa.Value, d int)
	rec = func(v ssa.Value, d int) {
		if v == nil || seen[v] || d > depth {
			return
		}
		seen[v] = true
		if isRecv(v) {
			out["*"] = true
			return
		}
		switch x := v.(type) {
		case *ssa.FieldAddr:
			// the outermost field on the receiver names the source
			name := structField(x.X.Type(), x.Field).Name()
			base := stripConv(x.X)
			if isRecv(base) {
				out[name] = true
				return
			}
			if fa2, ok := base.(*ssa.FieldAddr); ok && structField(fa2.X.Type(), fa2.Field).Embedded() && isRecv(fa2.X) {
				out[name] = true
				return
			}
			rec(x.X, d+1)
		case *ssa.Field:
			if isRecv(x.X) {
				out[structField(x.X.Type(), x.Field).Name()] = true
				return
			}
			rec(x.X, d+1)
		case *ssa.UnOp:
			rec(x.X, d+1)
		case *ssa.BinOp:
			rec(x.X, d+1)
			rec(x.Y, d+1)
		case *ssa.Call:
			for _, a := range x.Call.Args {
				rec(a, d+1)
			}
			if x.Call.IsInvoke() {
				rec(x.Call.Value, d+1)
			}
		case *ssa.Extract:
			rec(x.Tuple, d+1)
		case *ssa.Phi:
			for _, e := range x.Edges {
				rec(e, d+1)
			}
		case *ssa.Convert:
			rec(x.X, d+1)
		case *ssa.ChangeType:
			rec(x.X, d+1)
		case *ssa.MakeInterface:
			rec(x.X, d+1)
		case *ssa.Alloc:
			for _, ref := range *x.Referrers() {
				if st, ok := ref.(*ssa.Store); ok && st.Addr == ssa.Value(x) {
					rec(st.Val, d+1)
				}
			}
		case *ssa.Slice:
			rec(x.X, d+1)
		case *ssa.IndexAddr:
			rec(x.X, d+1)
		case *ssa.Index:
			rec(x.X, d+1)
		}
	}
	rec(v, 0)
	return out
}

// checkEncoderSources: (1) every wire member an encoder stores has one source — the values stored into it, on whatever
// path, derive from the same field(s) of the value being encoded (a member filled from `Total` on one path and from
// `len(Items)` on another decodes to a different value than the one accepted); (2) a conditional store is conditional on
// presence only: each guard specific to the store is a test of a field against its zero value (or the error test of a
// call), never a comparison between two computed values (`Sender() != From` silently drops pp when it equals from).
func checkEncoderSources(r *Report, R string) {
	p := r.P
	n := 0
	for _, cp := range codecPairs(p) {
		if len(cp.Enc.Params) == 0 {
			continue
		}
		recv := cp.Enc.Params[0]
		type src struct {
			fields map[string]bool
			pos    string
		}
		byMember := map[string][]src{}
		var members []string
		badGuard := map[string]string{}
		eachInstr(cp.Enc, func(in ssa.Instruction) {
			st, ok := in.(*ssa.Store)
			if !ok {
				return
			}
			fa, ok := st.Addr.(*ssa.FieldAddr)
			if !ok || !typeIs(fa.X.Type(), cp.W) || isNilConst(st.Val) {
				return
			}
			name := structField(fa.X.Type(), fa.Field).Name()
			if _, seen := byMember[name]; !seen {
				members = append(members, name)
			}
			byMember[name] = append(byMember[name], src{receiverFieldsIn(st.Val, recv, 12), p.instrPos(st)})
			// guards
			for _, me := range mustEdges(st.Block()) {
				c := condOn(ifOf(me.from), me.succ == 0)
				if c.Op == token.ILLEGAL {
					// a boolean: an `ok` of a lookup/assertion, or a materialised conjunction — judged through its implied tests
					bad := false
					for _, ic := range impliedConds(ifOf(me.from), me.succ == 0) {
						if ic.Op != token.ILLEGAL && !presenceOrErrTest(ic) {
							bad = true
						}
					}
					if bad {
						badGuard[name] = "guard at " + p.instrPos(ifOf(me.from))
					}
					continue
				}
				if !presenceOrErrTest(c) {
					badGuard[name] = fmt.Sprintf("the store at %s is guarded by a comparison of two computed values (%s %s %s), not by a presence test", p.instrPos(st), describe(c.X), c.Op, describe(c.Y))
				}
			}
		})
		sort.Strings(members)
		for _, m := range members {
			n++
			union := map[string]bool{}
			for _, s := range byMember[m] {
				for f := range s.fields {
					union[f] = true
				}
			}
			// one source: every store's field set is the same (ignoring stores that read nothing of the receiver: constants)
			same := true
			var ref map[string]bool
			for _, s := range byMember[m] {
				if len(s.fields) == 0 {
					continue
				}
				if ref == nil {
					ref = s.fields
					continue
				}
				if !equalSets(ref, s.fields) {
					same = false
				}
			}
			detail := ""
			if !same {
				var parts []string
				for _, s := range byMember[m] {
					parts = append(parts, fmt.Sprintf("%s ← {%s}", s.pos, strings.Join(sortedKeys(s.fields), ",")))
				}
				detail = "stores from different sources: " + strings.Join(parts, "; ")
			}
			if bg := badGuard[m]; bg != "" {
				same = false
				detail = strings.TrimSpace(detail + " " + bg)
			}
			r.Check(R, "type "+cp.name+" / wire member "+m+" has one source and presence-only guards", p.pos(cp.Enc.Pos()), same, detail)
		}
	}
	if n == 0 {
		r.Undecided(R, "encoders", "-", "no wire member store found")
	}
}

// presenceOrErrTest: the condition compares something with a constant (zero value, nil, a literal) — a presence or
// error test — rather than two computed values with each other.
func presenceOrErrTest(c Cond) bool {
	if c.Op == token.ILLEGAL {
		return true
	}
	_, xc := stripConv(c.X).(*ssa.Const)
	_, yc := stripConv(c.Y).(*ssa.Const)
	if xc || yc {
		return true
	}
	// len(x) compared with a constant is covered above; len(x) op len(y) etc. is a computed comparison
	return false
}
