// limecheck decides the structural clauses of the lime-go properties (C01…C20) by static analysis of /repo's
// working tree: type-checked packages, SSA, per-function CFG and a VTA call graph. It never runs lime-go.
package main

import (
	"flag"
	"fmt"
	"os"
	"path/filepath"
	"sort"
	"strconv"
	"strings"
	"time"
)

type ruleFn func(r *Report, s *Sem)

var registry = map[string]ruleFn{}
var residues = map[string]string{}

func register(id string, residue string, f ruleFn) {
	registry[id] = f
	residues[id] = residue
}

var processStart = time.Now()

func main() {
	var (
		prop      = flag.String("property", "", "property id (C01…C20) or 'all'")
		tier      = flag.String("tier", "quick", "quick|thorough")
		root      = flag.String("root", "/repo", "root of the lime-go tree to analyse")
		evDir     = flag.String("evidence", "", "directory for evidence files (default <verif>/evidence)")
		knownF    = flag.String("known", "", "known findings file (default <verif>/known_findings.json)")
		tags      = flag.String("tags", "verif", "build tags")
		explain   = flag.String("explain", "", "evidence file to re-derive and print")
		verbose   = flag.Bool("v", false, "print every obligation")
		noSelf    = flag.Bool("noselftest", false, "skip the self-test corpus in the thorough tier")
		goarch    = flag.String("goarch", "", "GOARCH for loading")
		listOnly  = flag.Bool("list", false, "list registered properties")
		dumpKnown = flag.Bool("dumpknown", false, "print the private functions of the tree as a knownPrivate table")
		showInl   = flag.Bool("showinline", false, "print what the helper normalisation did")
	)
	flag.BoolVar(&noInline, "noinline", false, "skip the helper normalisation (debugging)")
	flag.Parse()
	verif := verifDir()
	if *evDir == "" {
		*evDir = filepath.Join(verif, "evidence")
	} else if *evDir == "none" {
		*evDir = ""
	}
	if *knownF == "" {
		*knownF = filepath.Join(verif, "known_findings.json")
	}
	if *listOnly {
		var ids []string
		for id := range registry {
			ids = append(ids, id)
		}
		sort.Strings(ids)
		fmt.Println(strings.Join(ids, " "))
		return
	}
	if *explain != "" {
		base := filepath.Base(*explain)
		*prop = strings.TrimSuffix(base, ".json")
		*verbose = true
		*evDir = ""
	}
	if env := os.Getenv("VERIF_TIER"); env != "" && *tier == "" {
		*tier = env
	}
	seed := 0
	if sv := os.Getenv("VERIF_SEED"); sv != "" {
		seed, _ = strconv.Atoi(sv)
	}
	known, err := loadKnown(*knownF)
	if err != nil {
		fmt.Fprintf(os.Stderr, "limecheck: %v\n", err)
		os.Exit(2)
	}
	props := []string{*prop}
	if *prop == "all" {
		props = nil
		for id := range registry {
			props = append(props, id)
		}
		sort.Strings(props)
	}
	for _, id := range props {
		if registry[id] == nil {
			fmt.Fprintf(os.Stderr, "limecheck: unknown property %q\n", id)
			os.Exit(2)
		}
	}
	var env []string
	if *goarch != "" {
		env = append(env, "GOARCH="+*goarch)
	}
	p, err := loadProg(*root, *tags, env)
	if err != nil {
		// a tree that cannot be analysed must not pass; it is not a property violation either
		fmt.Fprintf(os.Stderr, "limecheck: %v\n", err)
		for _, id := range props {
			writeFailedEvidence(*evDir, id, *tier, seed, err)
		}
		os.Exit(2)
	}
	if *dumpKnown {
		for _, fn := range p.privateFuncs() {
			if fn.Pkg == p.Lime {
				fmt.Printf("\t%q: %q,\n", privateKey(fn), fnSigString(fn))
			}
		}
		return
	}
	if *showInl && p.Inl != nil {
		fmt.Printf("inlined calls=%d devirtualised=%d threaded edges=%d dead helpers=%d named-condition edges=%d\n", p.Inl.nCalls, p.Inl.nDevirt, p.Inl.nThread, len(p.Inl.dead), p.Inl.nNamed)
		for _, l := range p.Inl.Log {
			fmt.Println("  ", l)
		}
	}
	exit := 0
	for _, id := range props {
		rep := analyse(p, id, *tier, *verbose)
		extrasOK := true
		if *tier == "thorough" && *root == "/repo" && !rep.failing(known) {
			// the self-test corpus and the extra build configurations are only meaningful on a tree the rules accept
			rep.Extras, extrasOK = thoroughExtras(id, *knownF, *noSelf)
		}
		code := rep.Finish(*evDir, known, checkerCmd(id, *tier), seed, true)
		if code > exit {
			exit = code
		}
		if !extrasOK {
			for _, e := range rep.Extras {
				if !e.OK {
					fmt.Fprintf(os.Stderr, "limecheck: self-test/%s %s: expected %s, got %s: %s\n", e.Kind, e.Name, e.Expect, e.Got, e.Out)
				}
			}
			if exit == 0 {
				exit = 2 // a broken checker, not a property violation
			}
		}
	}
	os.Exit(exit)
}

// analyse runs the rules of one property and returns the unfinished report.
func analyse(p *Prog, id, tier string, verbose bool) (rep *Report) {
	rep = newReport(id, tier, p)
	rep.Residue = residues[id]
	defer func() {
		if e := recover(); e != nil {
			// a crashing rule must fail, never pass
			rep.Rule("R0", "the checker itself must not crash", 0)
			rep.Undecided("R0", "checker-panic", "-", fmt.Sprint(e))
		}
	}()
	if p.Inl != nil {
		rep.Note("helper normalisation: %d call(s) of unknown private helpers inlined, %d devirtualised, %d edge(s) threaded, %d helper(s) folded away%s",
			p.Inl.nCalls, p.Inl.nDevirt, p.Inl.nThread, len(p.Inl.dead), inlSummary(p.Inl))
	}
	s := newSem(p)
	if len(s.unresolved) > 0 {
		rep.Rule("R0", "all anchors resolve", 0)
		for _, u := range s.unresolved {
			rep.Undecided("R0", "anchor-unresolved:"+u, "-", "anchor cannot be resolved in the type-checked program; a regression could hide behind it")
		}
		return rep
	}
	registry[id](rep, s)
	if verbose {
		for _, o := range rep.Obs {
			fmt.Printf("  %-12s %-11s %s  [%s] %s\n", o.Rule, o.Status, o.Construct, o.Pos, o.Detail)
		}
		for _, n := range rep.Notes {
			fmt.Printf("  NOTE %s\n", n)
		}
	}
	return rep
}

func checkerCmd(id, tier string) string {
	return "bin/limecheck -property " + id + " -tier " + tier
}

func verifDir() string {
	if v := os.Getenv("VERIF_DIR"); v != "" {
		return v
	}
	exe, err := os.Executable()
	if err == nil {
		d := filepath.Dir(filepath.Dir(exe))
		if _, err := os.Stat(filepath.Join(d, "MANIFEST.json")); err == nil {
			return d
		}
	}
	return "/verif"
}

func writeFailedEvidence(evDir, id, tier string, seed int, err error) {
	if evDir == "" {
		return
	}
	_ = os.MkdirAll(evDir, 0o755)
	b := fmt.Sprintf(`{"property_id":%q,"tier":%q,"seed":%d,"level":"other","coverage":{"explanation":%q,"obligations":0,"discharged":0},"wall_s":0,"violations":0}`+"\n",
		id, tier, seed, "analysis could not run: "+err.Error())
	_ = os.WriteFile(filepath.Join(evDir, id+".json"), []byte(b), 0o644)
}

func inlSummary(il *inliner) string {
	if len(il.Log) == 0 {
		return ""
	}
	l := il.Log
	if len(l) > 12 {
		l = append(append([]string{}, l[:12]...), fmt.Sprintf("… %d more", len(il.Log)-12))
	}
	return ": " + strings.Join(l, "; ")
}
