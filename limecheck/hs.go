package main

import (
	"fmt"
	"go/token"
	"sort"
	"strings"

	"golang.org/x/tools/go/ssa"
)

// Handshake automaton extraction: an abstract interpretation of the channel code over the finite domain
//   (session state ∈ 7 constants) × (pending: a peer session was read and not yet answered) × (last call's error nil?)
// Calls to in-package functions on the same channel are interpreted through memoised summaries; state guards are
// pruned with the guard-fact language (sem.go); state changes are the constant arguments of the state setter.
// It never evaluates lime-go code on concrete inputs: it walks the SSA CFG.

type hsIn struct {
	S       string
	Pending bool
}

type hsOut struct {
	S       string
	Pending bool
	ErrNil  bool
	Dead    bool // transport known disconnected: nothing more can be emitted
}

type hsEmission struct {
	Fn    *ssa.Function
	Site  ssa.Instruction
	From  string // channel state when the envelope is handed to the transport
	Entry string // channel state on entry of the emitting function
	Emit  string
}

type hsInterp struct {
	s         *Sem
	a         *Anchors
	summaries map[*ssa.Function]map[hsIn][]hsOut
	busy      map[*ssa.Function]bool
	emissions []hsEmission
	emSeen    map[string]bool
	relevant  map[*ssa.Function]bool
	mutating  map[*ssa.Function]bool
	// pendingNil records returns of nil (success) while a peer envelope is unanswered, per function
	failOpen  []hsFailOpen
	foSeen    map[string]bool
	senderOK  map[string]bool
	allStates []string
}

type hsFailOpen struct {
	Fn     *ssa.Function
	Return ssa.Instruction
	S      string
}

func newHS(s *Sem) *hsInterp {
	h := &hsInterp{s: s, a: s.anchors(), summaries: map[*ssa.Function]map[hsIn][]hsOut{}, busy: map[*ssa.Function]bool{}, emSeen: map[string]bool{}, foSeen: map[string]bool{}}
	h.allStates = []string{"new", "negotiating", "authenticating", "established", "finishing", "finished", "failed"}
	h.relevant = map[*ssa.Function]bool{}
	// relevant = functions that transitively reach a setter, the session sender or the session reader
	var seeds []*ssa.Function
	seeds = append(seeds, h.a.setterFull...)
	seeds = append(seeds, h.a.setterLocked...)
	seeds = append(seeds, h.a.sessionSenders...)
	seeds = append(seeds, h.a.sessionReaders...)
	for _, f := range seeds {
		h.relevant[f] = true
	}
	changed := true
	for changed {
		changed = false
		for _, fn := range s.p.LimeFuncs() {
			if h.relevant[fn] || fn.Parent() != nil {
				continue
			}
			eachCall(fn, func(c ssa.CallInstruction) {
				if _, isGo := c.(*ssa.Go); isGo {
					return
				}
				if g := staticCallee(c); g != nil && h.relevant[g] && !h.relevant[fn] {
					h.relevant[fn] = true
					changed = true
				}
			})
		}
	}
	h.mutating = map[*ssa.Function]bool{}
	for _, f := range append(append([]*ssa.Function{}, h.a.setterFull...), h.a.setterLocked...) {
		h.mutating[f] = true
	}
	for changed := true; changed; {
		changed = false
		for _, fn := range s.p.LimeFuncs() {
			if h.mutating[fn] || fn.Parent() != nil {
				continue
			}
			eachCall(fn, func(c ssa.CallInstruction) {
				if _, isGo := c.(*ssa.Go); isGo {
					return
				}
				if g := staticCallee(c); g != nil && h.mutating[g] && !h.mutating[fn] {
					h.mutating[fn] = true
					changed = true
				}
			})
		}
	}
	// states in which the session sender actually writes
	h.senderOK = map[string]bool{}
	for _, snd := range h.a.sessionSenders {
		for _, st := range h.allStates {
			for _, c := range h.a.transportSends {
				if c.Parent() == snd && h.reachableUnder(snd, c, st) {
					h.senderOK[st] = true
				}
			}
		}
	}
	return h
}

// feasible: can the edge (ifi, branch) be taken when the channel state is S?  dead=true when the edge asserts the
// transport is disconnected.
func (h *hsInterp) feasible(ifi *ssa.If, branch bool, S string) (ok bool, dead bool) {
	// an error test on a call that may itself change the state says nothing about the state afterwards
	if call, _, isNil, isErr := errTest(ifi, branch); isErr {
		if g := call.Call.StaticCallee(); g != nil && h.mutating[g] {
			return true, false
		}
		// the failing edge of a pure predicate wrapper whose state requirements S satisfies: only the transport can be
		// the reason, i.e. the connection is gone
		if g := call.Call.StaticCallee(); g != nil && !isNil && g.Pkg == h.s.p.Lime && !h.relevant[g] {
			facts := h.s.subst(h.s.nilFacts(g, 0), call)
			stateOK, hasConn := true, false
			for _, a := range facts {
				if a.Param >= 0 {
					stateOK = false
					continue
				}
				switch a.Kind {
				case "state==":
					if a.Val != S {
						stateOK = false
					}
				case "state!=":
					if a.Val == S {
						stateOK = false
					}
				case "connected":
					hasConn = true
				}
			}
			if stateOK && hasConn {
				return true, true
			}
		}
	}
	atoms := h.s.atomsOfBool(ifi.Cond, branch, 0)
	for _, a := range atoms {
		if a.Param >= 0 {
			continue
		}
		switch a.Kind {
		case "state==":
			if a.Val != S {
				return false, false
			}
		case "state!=":
			if a.Val == S {
				return false, false
			}
		case "!connected":
			dead = true
		}
	}
	return true, dead
}

// reachableUnder: is instruction target reachable from fn's entry when the state is S throughout?
func (h *hsInterp) reachableUnder(fn *ssa.Function, target ssa.Instruction, S string) bool {
	seen := map[*ssa.BasicBlock]bool{}
	var walk func(b *ssa.BasicBlock) bool
	walk = func(b *ssa.BasicBlock) bool {
		if seen[b] {
			return false
		}
		seen[b] = true
		if b == target.Block() {
			return true
		}
		ifi := ifOf(b)
		for i, sx := range b.Succs {
			if ifi != nil {
				if ok, _ := h.feasible(ifi, i == 0, S); !ok {
					continue
				}
			}
			if walk(sx) {
				return true
			}
		}
		return false
	}
	if len(fn.Blocks) == 0 {
		return false
	}
	return walk(fn.Blocks[0])
}

func (h *hsInterp) sameChannel(fn *ssa.Function, c ssa.CallInstruction) bool {
	args := c.Common().Args
	if len(args) == 0 || len(fn.Params) == 0 {
		return false
	}
	root := pathOf(args[0]).Root
	return root == ssa.Value(fn.Params[0])
}

// exec interprets fn from entry with abstract input `in` and returns the possible outputs at its returns.
func (h *hsInterp) exec(fn *ssa.Function, in hsIn) []hsOut {
	if m, ok := h.summaries[fn]; ok {
		if o, ok := m[in]; ok {
			return o
		}
	} else {
		h.summaries[fn] = map[hsIn][]hsOut{}
	}
	if h.busy[fn] || len(fn.Blocks) == 0 {
		return []hsOut{{S: in.S, Pending: in.Pending, ErrNil: true}}
	}
	h.busy[fn] = true
	defer delete(h.busy, fn)

	type st struct {
		b        *ssa.BasicBlock
		prev     *ssa.BasicBlock
		S        string
		pending  bool
		lastCall *ssa.Call
		lastNil  bool
		lastKnow bool
	}
	outs := map[hsOut]bool{}
	seen := map[st]bool{}
	var run func(s0 st, idx int, env map[*ssa.Phi]ssa.Value)
	run = func(cur st, idx int, env map[*ssa.Phi]ssa.Value) {
		b := cur.b
		if idx == 0 && cur.prev != nil {
			// resolve this block's phis along the path taken
			pi := -1
			for k, pb := range b.Preds {
				if pb == cur.prev {
					pi = k
				}
			}
			if pi >= 0 {
				ne := make(map[*ssa.Phi]ssa.Value, len(env)+2)
				for k, v := range env {
					ne[k] = v
				}
				for _, ins := range b.Instrs {
					ph, ok := ins.(*ssa.Phi)
					if !ok {
						break
					}
					v := ph.Edges[pi]
					if p2, ok := v.(*ssa.Phi); ok {
						if rv, ok := env[p2]; ok {
							v = rv
						}
					}
					ne[ph] = v
				}
				env = ne
			}
		}
		for i := idx; i < len(b.Instrs); i++ {
			in2 := b.Instrs[i]
			switch x := in2.(type) {
			case *ssa.Call:
				g := x.Call.StaticCallee()
				if g == nil || !h.relevant[g] || !h.sameChannel(fn, x) {
					continue
				}
				// state setter with a constant
				if containsFn(h.a.setterFull, g) || containsFn(h.a.setterLocked, g) {
					arg := stripConv(x.Call.Args[len(x.Call.Args)-1])
					if cs, ok := stateConst(arg); ok {
						cur.S = cs
					}
					continue
				}
				if containsFn(h.a.sessionSenders, g) {
					emit := h.emittedState(x)
					key := fmt.Sprintf("%p|%s|%s|%s", x, cur.S, in.S, emit)
					if h.senderOK[cur.S] {
						if !h.emSeen[key] {
							h.emSeen[key] = true
							h.emissions = append(h.emissions, hsEmission{Fn: fn, Site: x, From: cur.S, Entry: in.S, Emit: emit})
						}
						// fork: sent (nil) or transport error
						ok := cur
						ok.pending, ok.lastCall, ok.lastNil, ok.lastKnow = false, x, true, true
						run2 := ok
						h2 := cur
						h2.lastCall, h2.lastNil, h2.lastKnow = x, false, true
						run(run2, i+1, env)
						run(h2, i+1, env)
						return
					}
					cur.lastCall, cur.lastNil, cur.lastKnow = x, false, true
					continue
				}
				if containsFn(h.a.sessionReaders, g) {
					okS := cur
					okS.pending, okS.lastCall, okS.lastNil, okS.lastKnow = true, x, true, true
					bad := cur
					bad.lastCall, bad.lastNil, bad.lastKnow = x, false, true
					run(okS, i+1, env)
					run(bad, i+1, env)
					return
				}
				res := h.exec(g, hsIn{S: cur.S, Pending: cur.pending})
				for _, o := range res {
					nx := cur
					nx.S, nx.pending = o.S, o.Pending
					nx.lastCall, nx.lastNil, nx.lastKnow = x, o.ErrNil, true
					if o.Dead {
						outs[hsOut{S: o.S, Pending: false, ErrNil: o.ErrNil, Dead: true}] = true
						continue
					}
					run(nx, i+1, env)
				}
				return
			case *ssa.Return:
				errNil := true
				if len(x.Results) > 0 {
					ev := x.Results[len(x.Results)-1]
					if isErrorType(ev.Type()) {
						errNil = h.mayBeNil(fn, x, cur.lastCall, cur.lastNil, cur.lastKnow, env)
						// a return that may be nil or non-nil depending on an interpreted call's result
						if errNil && cur.pending && fn.Signature.Results().Len() == 1 {
							key := fmt.Sprintf("%p|%s", x, cur.S)
							if !h.foSeen[key] {
								h.foSeen[key] = true
								h.failOpen = append(h.failOpen, hsFailOpen{Fn: fn, Return: x, S: cur.S})
							}
						}
					}
				}
				outs[hsOut{S: cur.S, Pending: cur.pending, ErrNil: errNil}] = true
				return
			case *ssa.Panic:
				return
			}
		}
		ifi := ifOf(b)
		for k, sx := range b.Succs {
			nx := cur
			nx.b = sx
			nx.prev = b
			if ifi != nil {
				ok, dead := h.feasible(ifi, k == 0, cur.S)
				if !ok {
					continue
				}
				if isNil, isErr := h.errTestEnv(ifi, k == 0, cur.lastCall, env); isErr && cur.lastKnow {
					if isNil != cur.lastNil {
						continue
					}
				}
				if dead {
					// nothing can be emitted any more: whatever follows is a legal silent exit
					outs[hsOut{S: cur.S, Pending: false, ErrNil: true, Dead: true}] = true
					continue
				}
			}
			if seen[nx] {
				continue
			}
			seen[nx] = true
			run(nx, 0, env)
		}
	}
	e := st{b: fn.Blocks[0], S: in.S, pending: in.Pending}
	seen[e] = true
	run(e, 0, map[*ssa.Phi]ssa.Value{})
	var res []hsOut
	for o := range outs {
		res = append(res, o)
	}
	sort.Slice(res, func(i, j int) bool { return fmt.Sprint(res[i]) < fmt.Sprint(res[j]) })
	h.summaries[fn][in] = res
	return res
}

// resolve follows phis through the path environment, and defer-spilled result cells within the block.
func resolveEnv(v ssa.Value, env map[*ssa.Phi]ssa.Value) ssa.Value {
	for i := 0; i < 10; i++ {
		ph, ok := v.(*ssa.Phi)
		if !ok {
			return v
		}
		rv, ok := env[ph]
		if !ok {
			return v
		}
		v = rv
	}
	return v
}

// errTestEnv: does edge (ifi, branch) test the error of lastCall (after resolving phis along the path)? isNil tells
// which outcome the edge asserts.
func (h *hsInterp) errTestEnv(ifi *ssa.If, branch bool, lastCall *ssa.Call, env map[*ssa.Phi]ssa.Value) (isNil bool, ok bool) {
	c := condOn(ifi, branch)
	if c.Op != token.EQL && c.Op != token.NEQ {
		return false, false
	}
	var other ssa.Value
	if isNilConst(c.Y) {
		other = c.X
	} else if isNilConst(c.X) {
		other = c.Y
	} else {
		return false, false
	}
	other = resolveEnv(other, env)
	call, _ := callOf(other)
	if call == nil || call != lastCall {
		return false, false
	}
	return c.Op == token.EQL, true
}

// mayBeNil: can the error returned by ret be nil on the current path?
func (h *hsInterp) mayBeNil(fn *ssa.Function, ret *ssa.Return, lastCall *ssa.Call, lastNil, lastKnow bool, env map[*ssa.Phi]ssa.Value) bool {
	v := ret.Results[len(ret.Results)-1]
	// defer-spilled result: last store in the block
	if u, ok := v.(*ssa.UnOp); ok && u.Op == token.MUL {
		if a, ok := u.X.(*ssa.Alloc); ok {
			for _, in := range u.Block().Instrs {
				if in == ssa.Instruction(u) {
					break
				}
				if st, ok := in.(*ssa.Store); ok && st.Addr == ssa.Value(a) {
					v = st.Val
				}
			}
		}
	}
	v = resolveEnv(v, env)
	if _, stillPhi := v.(*ssa.Phi); stillPhi {
		return true
	}
	if isNilConst(v) {
		return true
	}
	if knownNonNil(v, ret.Block()) {
		return false
	}
	if _, isMI := v.(*ssa.MakeInterface); isMI {
		return false
	}
	if call, _ := callOf(v); call != nil {
		if f := call.Call.StaticCallee(); f != nil && f.Pkg != nil && (f.Pkg.Pkg.Path() == "fmt" || f.Pkg.Pkg.Path() == "errors") {
			return false
		}
		if lastKnow && call == lastCall {
			return lastNil
		}
	}
	return true
}

// emittedState: the constant State of the Session handed to the session sender at call c ("" if not constant).
func (h *hsInterp) emittedState(c *ssa.Call) string {
	arg := c.Call.Args[len(c.Call.Args)-1]
	for _, l := range leaves(arg) {
		if al, ok := stripConv(l).(*ssa.Alloc); ok {
			for _, st := range storesInto(al, "State") {
				if cs, ok := constString(stripConv(st.Val)); ok {
					return cs
				}
			}
		}
	}
	return ""
}

func (e hsEmission) String() string {
	return fmt.Sprintf("%s: %s→emit %s (entry %s)", fnName(e.Fn), e.From, e.Emit, e.Entry)
}

func stepOfState(s string) int {
	for i, x := range []string{"new", "negotiating", "authenticating", "established", "finishing", "finished", "failed"} {
		if x == s {
			return i
		}
	}
	return -1
}

func joinOuts(o []hsOut) string {
	var s []string
	for _, x := range o {
		s = append(s, fmt.Sprintf("{state=%s pending=%v errNil=%v dead=%v}", x.S, x.Pending, x.ErrNil, x.Dead))
	}
	return strings.Join(s, " ")
}
