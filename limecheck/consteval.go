package main

// A tiny evaluator for pure functions over constants (strings, integers, booleans): enough to compute a function such as
// SessionState.Step on each of its possible inputs whatever way it is written — a switch, an if chain, a loop over a table,
// a map lookup. Nothing of lime-go is executed: the evaluator walks the SSA of the one function and reads the constant
// initialisers of package-level tables from the SSA of the package initialiser. Anything outside this fragment makes the
// evaluation fail (ok=false), which callers treat as "undecided", never as a pass.

import (
	"go/constant"
	"go/token"
	"go/types"

	"golang.org/x/tools/go/ssa"
)

// nilSentinel stands for the nil constant of an interface or pointer type in evaluation results.
const nilSentinel = "\x00<nil>"

type cval struct {
	c     constant.Value            // scalar
	elems map[int64]constant.Value  // array / slice contents
	m     map[string]constant.Value // map contents (key rendered with ExactString)
	n     int64                     // length of array / slice
	kind  int                       // 0 scalar, 1 sequence, 2 map, 3 address of element (elemOf, idx)
	of    *cval
	idx   int64
}

// globalInit reads the constant initialiser of a package-level array, slice or map variable from the package initialiser.
func (p *Prog) globalInit(g *ssa.Global) (*cval, bool) {
	init := g.Pkg.Func("init")
	if init == nil {
		return nil, false
	}
	out := &cval{kind: 1, elems: map[int64]constant.Value{}}
	elemT := g.Type().(*types.Pointer).Elem().Underlying()
	if arr, ok := elemT.(*types.Array); ok {
		out.n = arr.Len()
	}
	found := false
	ok := true
	eachInstr(init, func(in ssa.Instruction) {
		st, isStore := in.(*ssa.Store)
		if !isStore {
			return
		}
		// element of the global array itself
		if ia, isIA := st.Addr.(*ssa.IndexAddr); isIA && ia.X == ssa.Value(g) {
			k, ok1 := constInt(ia.Index)
			c, ok2 := st.Val.(*ssa.Const)
			if !ok1 || !ok2 || c.Value == nil {
				ok = false
				return
			}
			out.elems[k] = c.Value
			found = true
			return
		}
		if st.Addr != ssa.Value(g) {
			return
		}
		switch v := st.Val.(type) {
		case *ssa.Slice: // slice literal: backing array filled element by element
			al, isAl := v.X.(*ssa.Alloc)
			if !isAl {
				ok = false
				return
			}
			if arr, isArr := al.Type().(*types.Pointer).Elem().Underlying().(*types.Array); isArr {
				out.n = arr.Len()
			}
			for _, ref := range *al.Referrers() {
				ia, isIA := ref.(*ssa.IndexAddr)
				if !isIA {
					continue
				}
				k, ok1 := constInt(ia.Index)
				for _, r2 := range *ia.Referrers() {
					if s2, isSt := r2.(*ssa.Store); isSt && s2.Addr == ssa.Value(ia) {
						c, ok2 := s2.Val.(*ssa.Const)
						if !ok1 || !ok2 || c.Value == nil {
							ok = false
							return
						}
						out.elems[k] = c.Value
					}
				}
			}
			found = true
		case *ssa.MakeMap:
			out.kind = 2
			out.m = map[string]constant.Value{}
			for _, ref := range *v.Referrers() {
				if mu, isMU := ref.(*ssa.MapUpdate); isMU {
					kc, ok1 := mu.Key.(*ssa.Const)
					vc, ok2 := mu.Value.(*ssa.Const)
					if !ok1 || !ok2 || kc.Value == nil || vc.Value == nil {
						ok = false
						return
					}
					out.m[kc.Value.ExactString()] = vc.Value
				}
			}
			found = true
		}
	})
	// the table must not be written anywhere else
	for _, fn := range p.AllFuncs() {
		if fn == init {
			continue
		}
		eachInstr(fn, func(in ssa.Instruction) {
			switch x := in.(type) {
			case *ssa.Store:
				if pathOf(x.Addr).Root == ssa.Value(g) {
					ok = false
				}
			case *ssa.MapUpdate:
				if pathOf(x.Map).Root == ssa.Value(g) {
					ok = false
				}
			}
		})
	}
	return out, found && ok
}

// constEval runs fn on constant arguments and returns its first result.
func (p *Prog) constEval(fn *ssa.Function, args []constant.Value) (constant.Value, bool) {
	if len(fn.Blocks) == 0 || len(args) != len(fn.Params) {
		return nil, false
	}
	env := map[ssa.Value]*cval{}
	for i, prm := range fn.Params {
		env[prm] = &cval{c: args[i]}
	}
	zero := func(t types.Type) constant.Value {
		if b, ok := t.Underlying().(*types.Basic); ok {
			switch {
			case b.Info()&types.IsString != 0:
				return constant.MakeString("")
			case b.Info()&types.IsBoolean != 0:
				return constant.MakeBool(false)
			case b.Info()&types.IsNumeric != 0:
				return constant.MakeInt64(0)
			}
		}
		return nil
	}
	var get func(v ssa.Value) (*cval, bool)
	get = func(v ssa.Value) (*cval, bool) {
		if cv, ok := env[v]; ok {
			return cv, true
		}
		switch x := v.(type) {
		case *ssa.Const:
			if x.Value == nil {
				if z := zero(x.Type()); z != nil {
					return &cval{c: z}, true
				}
				switch x.Type().Underlying().(type) {
				case *types.Interface, *types.Pointer:
					return &cval{c: constant.MakeString(nilSentinel)}, true // a nil interface / pointer constant
				}
				return nil, false
			}
			return &cval{c: x.Value}, true
		case *ssa.Global:
			gv, ok := p.globalInit(x)
			if !ok {
				return nil, false
			}
			env[v] = gv
			return gv, true
		}
		return nil, false
	}
	b, prev := fn.Blocks[0], (*ssa.BasicBlock)(nil)
	for steps := 0; steps < 20000; steps++ {
		// phis first, simultaneously
		phiVals := map[*ssa.Phi]*cval{}
		for _, in := range b.Instrs {
			ph, ok := in.(*ssa.Phi)
			if !ok {
				break
			}
			for i, pr := range b.Preds {
				if pr == prev {
					cv, ok := get(ph.Edges[i])
					if !ok {
						return nil, false
					}
					phiVals[ph] = cv
				}
			}
		}
		for ph, cv := range phiVals {
			env[ph] = cv
		}
		for _, in := range b.Instrs {
			switch x := in.(type) {
			case *ssa.Phi:
			case *ssa.BinOp:
				l, ok1 := get(x.X)
				r, ok2 := get(x.Y)
				if !ok1 || !ok2 || l.kind != 0 || r.kind != 0 {
					return nil, false
				}
				switch x.Op {
				case token.EQL, token.NEQ, token.LSS, token.LEQ, token.GTR, token.GEQ:
					if l.c.Kind() != r.c.Kind() {
						return nil, false
					}
					env[x] = &cval{c: constant.MakeBool(constant.Compare(l.c, x.Op, r.c))}
				case token.ADD, token.SUB, token.MUL:
					env[x] = &cval{c: constant.BinaryOp(l.c, x.Op, r.c)}
				default:
					return nil, false
				}
			case *ssa.UnOp:
				o, ok := get(x.X)
				if !ok {
					return nil, false
				}
				switch x.Op {
				case token.NOT:
					env[x] = &cval{c: constant.MakeBool(!constant.BoolVal(o.c))}
				case token.SUB:
					env[x] = &cval{c: constant.UnaryOp(token.SUB, o.c, 0)}
				case token.MUL: // load
					switch o.kind {
					case 3:
						ev, has := o.of.elems[o.idx]
						if !has {
							if o.idx < 0 || o.idx >= o.of.n {
								return nil, false
							}
							ev = zero(x.Type())
							if ev == nil {
								return nil, false
							}
						}
						env[x] = &cval{c: ev}
					case 1, 2:
						env[x] = o // load of the table variable itself
					default:
						return nil, false
					}
				default:
					return nil, false
				}
			case *ssa.IndexAddr:
				base, ok1 := get(x.X)
				idx, ok2 := get(x.Index)
				if !ok1 || !ok2 || base.kind != 1 || idx.kind != 0 {
					return nil, false
				}
				k, exact := constant.Int64Val(idx.c)
				if !exact || k < 0 || k >= base.n {
					return nil, false // would panic
				}
				env[x] = &cval{kind: 3, of: base, idx: k}
			case *ssa.Index:
				base, ok1 := get(x.X)
				idx, ok2 := get(x.Index)
				if !ok1 || !ok2 || base.kind != 1 {
					return nil, false
				}
				k, _ := constant.Int64Val(idx.c)
				ev, has := base.elems[k]
				if !has {
					return nil, false
				}
				env[x] = &cval{c: ev}
			case *ssa.Lookup:
				base, ok1 := get(x.X)
				key, ok2 := get(x.Index)
				if !ok1 || !ok2 || base.kind != 2 {
					return nil, false
				}
				ev, has := base.m[key.c.ExactString()]
				if x.CommaOk {
					if !has {
						ev = zero(x.Type().(*types.Tuple).At(0).Type())
						if ev == nil {
							return nil, false
						}
					}
					// (value, ok) — read back by Extract
					env[x] = &cval{kind: 4, elems: map[int64]constant.Value{0: ev, 1: constant.MakeBool(has)}}
					break
				}
				if !has {
					ev = zero(x.Type())
					if ev == nil {
						return nil, false
					}
				}
				env[x] = &cval{c: ev}
			case *ssa.Extract:
				t, ok := get(x.Tuple)
				if !ok || t.kind != 4 {
					return nil, false
				}
				env[x] = &cval{c: t.elems[int64(x.Index)]}
			case *ssa.Call:
				bi, ok := x.Call.Value.(*ssa.Builtin)
				if !ok || bi.Name() != "len" {
					return nil, false
				}
				o, ok := get(x.Call.Args[0])
				if !ok || o.kind != 1 {
					return nil, false
				}
				env[x] = &cval{c: constant.MakeInt64(o.n)}
			case *ssa.Convert:
				o, ok := get(x.X)
				if !ok || o.kind != 0 {
					return nil, false
				}
				env[x] = o
			case *ssa.ChangeType:
				o, ok := get(x.X)
				if !ok {
					return nil, false
				}
				env[x] = o
			case *ssa.Slice:
				o, ok := get(x.X)
				if !ok || o.kind != 1 || x.Low != nil || x.High != nil {
					return nil, false
				}
				env[x] = o
			case *ssa.If:
				cnd, ok := get(x.Cond)
				if !ok || cnd.kind != 0 {
					return nil, false
				}
				prev = b
				if constant.BoolVal(cnd.c) {
					b = b.Succs[0]
				} else {
					b = b.Succs[1]
				}
			case *ssa.Jump:
				prev, b = b, b.Succs[0]
			case *ssa.Return:
				if len(x.Results) == 0 {
					return nil, false
				}
				o, ok := get(x.Results[0])
				if !ok || o.kind != 0 {
					return nil, false
				}
				return o.c, true
			case *ssa.DebugRef:
			default:
				return nil, false
			}
		}
	}
	return nil, false
}
