package main

import (
	"fmt"
	"go/token"
	"go/types"
	"strings"

	"golang.org/x/tools/go/ssa"
)

func init() {
	register("C06", "atomicity of the established-check and the write against a concurrent teardown (a send that passed the check may still reach the wire after a terminal envelope): schedule-level", c06)
}

// sessionTyped: the envelope argument of a Transport.Send call is statically a *Session.
func (s *Sem) sessionTyped(c ssa.CallInstruction) bool {
	arg := c.Common().Args[len(c.Common().Args)-1]
	for _, l := range leaves(arg) {
		if !typeIs(stripConv(l).Type(), s.sessionT) {
			return false
		}
		if _, isPtr := stripConv(l).Type().Underlying().(*types.Pointer); !isPtr {
			return false
		}
	}
	return true
}

func c06(r *Report, s *Sem) {
	p := r.P
	a := s.anchors()
	R12 := r.Rule("R12", "every receive error ends the receiver: in the receiver goroutine no path leads from the error edge of Transport.Receive back to the Receive call (an envelope the transport refuses — e.g. a terminal session envelope a stricter decoder rejects — must stop the receiver, which closes the transport; skipped, the channel stays established on a session the peer has ended)", 1)
	defer checkReceiveErrorEndsReceiver(r, s, R12)
	defer r.Import(s, "C13", "R9", "R11", "a server-initiated end always reaches the state: the session hand-off queue has constant capacity ≥ 1, so the receiver can park the terminal envelope and record the terminal state even when nobody waits for a session envelope (unbuffered, the state stays 'established' and sends keep succeeding)", 1)
	defer r.Import(s, "C01", "R3", "R10", "a data envelope is never taken for a session envelope: with the identifying members of a message, notification or command present the discriminator cannot answer the session tag (so the handshake's checked read refuses it and aborts)", 4, "never classified as a session")
	R1 := r.Rule("R1", "every Transport.Send call that can carry a data envelope is dominated by guard facts 'transport connected' and 'state == established' (facts are recomputed from the predicate wrappers' bodies)", 1)
	R2 := r.Rule("R2", "the only Transport.Send sites exempt from R1 take a *Session (so no data envelope can use them — type-level)", 1)
	R3 := r.Rule("R3", "the handshake read yields a value only through a checked assertion to *Session (or the typed session stream), and Transport.Receive is called only by it and by the receiver goroutine", 4)
	R4 := r.Rule("R4", "the receiver goroutine — sole producer of the inbound streams — is started only from the state setter's 'established' arm through a per-channel sync.Once, and its receive loop is guarded by the established predicate", 4)
	R5 := r.Rule("R5", "the dispatch loop does not start unless the channel is established (its select is dominated by the nil edge of the established predicate)", 1)

	for _, c := range a.transportSends {
		fn := c.Parent()
		construct := "func " + fnName(fn) + " / call Transport.Send"
		if s.sessionTyped(c) {
			r.Trivial(R2, construct+" (*Session)", p.instrPos(c), true, "argument type is *Session")
			continue
		}
		atoms := s.AtomsAt(c)
		ok := hasAtom(atoms, "state==", "established") && hasAtom(atoms, "connected", "")
		r.Check(R1, construct, p.instrPos(c), ok, "facts on every path to this send: "+atomsString(atoms)+"; need state==established and connected")
	}
	// public data-send methods must not reach a transport send other than through the sites above (any other site is in
	// a.transportSends by construction). Check they exist and delegate.
	for _, m := range []string{"SendMessage", "SendNotification", "SendRequestCommand", "SendResponseCommand"} {
		fn := p.Method("channel", m)
		if fn == nil {
			r.Undecided(R1, "anchor-unresolved:channel."+m, "-", "public send method not found")
			continue
		}
		reaches := false
		for f := range p.reachableAny(fn, 4) {
			if containsFn(a.dataSenders, f) {
				reaches = true
			}
		}
		r.Check(R1, "func "+fnName(fn)+" / delegates to the guarded sender", p.pos(fn.Pos()), reaches, "public send method must go through the sender that checks the state")
	}

	// ---- R3
	for _, c := range a.transportRecvs {
		fn := c.Parent()
		ok := fn == a.receiver || containsFn(a.sessionReaders, fn)
		r.Check(R3, "func "+fnName(fn)+" / call Transport.Receive", p.instrPos(c), ok, "Transport.Receive may be called only by the receiver goroutine and the handshake read")
	}
	for _, rd := range a.sessionReaders {
		for _, rl := range returnLeaves(rd, 0) {
			if isNilConst(rl.v) {
				continue
			}
			construct := "func " + fnName(rd) + " / returned session " + describe(rl.v)
			v := stripConv(rl.v)
			if ex, ok := v.(*ssa.Extract); ok {
				if ta, ok := ex.Tuple.(*ssa.TypeAssert); ok && ta.CommaOk && typeIs(ta.AssertedType, s.sessionT) {
					okEdge := guardedBy(rl.b, func(ifi *ssa.If, br bool) bool {
						c := condOn(ifi, br)
						if c.Op != token.ILLEGAL || !c.True {
							return false
						}
						e2, ok := stripConv(c.Val).(*ssa.Extract)
						return ok && e2.Tuple == ta && e2.Index == 1
					})
					r.Check(R3, "func "+fnName(rd)+" / returns asserted *Session", p.instrPos(rl.in), okEdge, "the value of a failed assertion must not be returned")
					continue
				}
				// receive from the typed session stream: (value, ok) of a select / unop
				if typeIs(v.Type(), s.sessionT) {
					r.Trivial(R3, "func "+fnName(rd)+" / returns value of typed session stream", p.instrPos(rl.in), true, "chan *Session")
					continue
				}
			}
			if u, ok := v.(*ssa.UnOp); ok && u.Op == token.ARROW && typeIs(v.Type(), s.sessionT) {
				r.Trivial(R3, "func "+fnName(rd)+" / returns value of typed session stream", p.instrPos(rl.in), true, "chan *Session")
				continue
			}
			r.Check(R3, construct, p.instrPos(rl.in), false, "session reader returns a value that is not a checked *Session")
		}
	}

	checkReaderNeverNilNil(r, s, R3)
	R6 := r.Rule("R6", "after the session ends, sends fail: the client folds a server-initiated terminal session into its state as soon as the receiver sees it, and the server's FinishSession/FailSession leave the channel terminal even when writing the terminal envelope failed", 3)
	checkClientFoldsTerminal(r, s, R6)
	checkTerminatingCallsTerminal(r, s, R6)

	R8 := r.Rule("R8", "server role: turning the channel established and announcing it are one step — from the call that sets the state to established every path reaches the emission of the established session envelope without running a callback and without returning in between (otherwise sends succeed, and the receiver routes inbound envelopes, on a session that was not, or not yet, established)", 1)
	for _, fn := range p.LimeFuncs() {
		if s.recvKind(fn) != "server" {
			continue
		}
		eachInstr(fn, func(in ssa.Instruction) {
			set, ok := in.(*ssa.Call)
			if !ok {
				return
			}
			g := set.Call.StaticCallee()
			if g == nil || !(containsFn(a.setterFull, g) || containsFn(a.setterLocked, g)) || len(set.Call.Args) < 2 {
				return
			}
			if cs, ok := stateConst(set.Call.Args[len(set.Call.Args)-1]); !ok || cs != "established" {
				return
			}
			var why []string
			walkFrom(fn, set, walkOpts{
				barrier: func(x ssa.Instruction) bool {
					c, isCall := x.(*ssa.Call)
					if !isCall {
						return false
					}
					if containsFn(a.sessionSenders, c.Call.StaticCallee()) {
						return true
					}
					if c.Call.StaticCallee() == nil && !c.Call.IsInvoke() {
						if _, isBuiltin := c.Call.Value.(*ssa.Builtin); !isBuiltin {
							why = append(why, "callback called at "+p.instrPos(x))
							return true
						}
					}
					return false
				},
				onExit: func(e ssa.Instruction, pred *ssa.BasicBlock) {
					why = append(why, "exit at "+p.instrPos(e))
				}})
			r.Check(R8, "func "+fnName(fn)+" / established state is announced at once", p.instrPos(set), len(why) == 0, strings.Join(why, "; "))
		})
	}

	R9 := r.Rule("R9", "the terminal state is visible before the teardown may block: in the state setter, every path from entry to the call that stops the receiver and waits for it (through its Once, or directly) first passes the store of the new state — waiting first leaves the channel 'established' and connected, and sends keep succeeding behind the terminal envelope, for as long as the receiver sits in a read", 1)
	if a.stopFn == nil {
		r.Undecided(R9, "anchor-unresolved:stop-and-wait routine", "-", "not found")
	} else {
		isPublish := func(in ssa.Instruction) bool {
			switch x := in.(type) {
			case *ssa.Store:
				if fa, ok := x.Addr.(*ssa.FieldAddr); ok && structField(fa.X.Type(), fa.Field) == s.stateF {
					return true
				}
			case *ssa.Call:
				if g := x.Call.StaticCallee(); g != nil && s.stateSetters[g] {
					return true
				}
			}
			return false
		}
		usesStop := func(in ssa.Instruction) bool {
			c, ok := in.(ssa.CallInstruction)
			if !ok {
				return false
			}
			if staticCallee(c) == a.stopFn {
				return true
			}
			for _, arg := range c.Common().Args {
				for _, l := range leaves(arg) {
					if mc, ok := l.(*ssa.MakeClosure); ok && mc.Fn == ssa.Value(a.stopFn) {
						return true
					}
					if f, ok := l.(*ssa.Function); ok && f == a.stopFn {
						return true
					}
					// bound method closure
					if mc, ok := l.(*ssa.MakeClosure); ok {
						if bf, ok := mc.Fn.(*ssa.Function); ok && bf.Synthetic != "" && strings.Contains(bf.Name(), a.stopFn.Name()+"$bound") {
							return true
						}
					}
				}
			}
			return false
		}
		n := 0
		for _, fn := range p.LimeFuncs() {
			if !typeIs(recvType(topLevel(fn)), s.channelT) || fn == a.stopFn {
				continue
			}
			var sites []ssa.Instruction
			eachInstr(fn, func(in ssa.Instruction) {
				if usesStop(in) {
					sites = append(sites, in)
				}
			})
			if len(sites) == 0 {
				continue
			}
			publishes := false
			eachInstr(fn, func(in ssa.Instruction) {
				if isPublish(in) {
					publishes = true
				}
			})
			if !publishes {
				continue // a teardown helper that does not set the state (Close etc.) is judged by C13
			}
			for _, site := range sites {
				n++
				reachedUnpublished := false
				walkFrom(fn, nil, walkOpts{barrier: func(in ssa.Instruction) bool {
					if isPublish(in) {
						return true
					}
					if in == site {
						reachedUnpublished = true
						return true
					}
					return false
				}})
				r.Check(R9, "func "+fnName(fn)+" / state stored before the receiver is stopped", p.instrPos(site), !reachedUnpublished, "a path reaches the stop-and-wait call with the previous state still published")
			}
		}
		if n == 0 {
			r.Undecided(R9, "state setter / stop of the receiver", "-", "no function both publishes the state and stops the receiver")
		}
	}

	R7 := r.Rule("R7", "the inbound streams are fed only by the receiver goroutine (R4: it exists only while established), so nothing read during the handshake can surface on them later", 5)
	checkOnlyReceiverFeedsStreams(r, s, R7)

	// ---- R4
	if a.receiver == nil || a.goSite == nil || a.startFn == nil {
		r.Undecided(R4, "anchor-unresolved:receiver goroutine", "-", "no go statement spawning a function that calls Transport.Receive")
	} else {
		refs := p.methodRefs(a.startFn)
		r.Check(R4, "func "+fnName(a.startFn)+" / referenced once", p.pos(a.startFn.Pos()), len(refs) == 1, fmt.Sprintf("%d references to the function that spawns the receiver; exactly one (the Once in the state setter) is expected", len(refs)))
		for _, ref := range refs {
			mc, isClosure := ref.(*ssa.MakeClosure)
			viaOnce := false
			if isClosure {
				for _, u := range *mc.Referrers() {
					if c, ok := u.(ssa.CallInstruction); ok {
						if f := staticCallee(c); f != nil && f.Pkg != nil && f.Pkg.Pkg.Path() == "sync" && f.Name() == "Do" {
							if ap := pathOf(c.Common().Args[0]); ap.Last() != nil && typeIs(recvType(topLevel(c.Parent())), s.channelT) {
								viaOnce = true
							}
						}
					}
				}
			}
			inSetter := containsFn(a.setterFull, ref.Parent())
			estArm := guardedBy(ref.Block(), func(ifi *ssa.If, br bool) bool {
				c := condOn(ifi, br)
				if c.Op != token.EQL {
					return false
				}
				x, y := stripConv(c.X), stripConv(c.Y)
				if _, ok := x.(*ssa.Const); ok {
					x, y = y, x
				}
				cs, ok := constString(y)
				_, isParam := x.(*ssa.Parameter)
				return ok && cs == "established" && isParam
			})
			r.Check(R4, "func "+fnName(ref.Parent())+" / starts receiver", p.instrPos(ref), viaOnce && inSetter && estArm,
				fmt.Sprintf("through sync.Once=%v, inside the state setter=%v, on the state==established arm=%v", viaOnce, inSetter, estArm))
		}
		// spawned exactly once in its function, not in a loop
		nGo := 0
		eachInstr(a.startFn, func(in ssa.Instruction) {
			if _, ok := in.(*ssa.Go); ok {
				nGo++
			}
		})
		inLoop := reachesInstr(a.goSite, a.goSite)
		r.Check(R4, "func "+fnName(a.startFn)+" / single go statement", p.instrPos(a.goSite), nGo == 1 && !inLoop, fmt.Sprintf("%d go statements, in a cycle=%v", nGo, inLoop))
		for _, c := range a.transportRecvs {
			if c.Parent() != a.receiver {
				continue
			}
			atoms := s.AtomsAt(c)
			ok := hasAtom(atoms, "state==", "established") && hasAtom(atoms, "connected", "")
			r.Check(R4, "func "+fnName(a.receiver)+" / receive loop guarded", p.instrPos(c), ok, "facts at the receive: "+atomsString(atoms))
		}
	}

	// ---- R5
	if a.listenFn == nil {
		r.Undecided(R5, "anchor-unresolved:dispatch loop", "-", "no function with a select over the inbound streams")
	} else {
		eachInstr(a.listenFn, func(in ssa.Instruction) {
			if sel, ok := in.(*ssa.Select); ok && len(sel.States) >= 5 {
				atoms := s.AtomsAt(in)
				r.Check(R5, "func "+fnName(a.listenFn)+" / select over inbound streams", p.instrPos(in), hasAtom(atoms, "state==", "established"), "facts at the select: "+atomsString(atoms))
			}
		})
	}
}
