package main

import (
	"fmt"
	"go/constant"
	"go/token"
	"sort"
	"strings"

	"golang.org/x/tools/go/ssa"
)

func init() {
	register("C07", "behaviour on undecodable or non-session input (the read error is returned without an answer; releasing that connection is C14's clause); the order in which bytes reach the peer (trusted transport); the id/state values a client actually echoes at run time", c07)
}

// serverEmissions lists the calls of the session sender made by ServerChannel methods together with the Session literal sent.
type emissionSite struct {
	call  *ssa.Call
	alloc *ssa.Alloc
	fn    *ssa.Function
}

func sessionEmissions(s *Sem, kind string) []emissionSite {
	a := s.anchors()
	var out []emissionSite
	for _, fn := range s.p.LimeFuncs() {
		if s.recvKind(fn) != kind {
			continue
		}
		eachInstr(fn, func(in ssa.Instruction) {
			c, ok := in.(*ssa.Call)
			if !ok || !containsFn(a.sessionSenders, c.Call.StaticCallee()) {
				return
			}
			var al *ssa.Alloc
			for _, l := range leaves(c.Call.Args[len(c.Call.Args)-1]) {
				if x, ok := stripConv(l).(*ssa.Alloc); ok {
					al = x
				}
			}
			out = append(out, emissionSite{c, al, fn})
		})
	}
	return out
}

func c07(r *Report, s *Sem) {
	p := r.P
	a := s.anchors()
	defer r.Import(s, "C03", "R2", "R13", "established only after a known role: the establishing call is dominated by the edges Role != \"\" and Role != unknown of the callback's result (a zero-value result, or one that only asks for a round trip, must not establish)", 12)
	defer r.Import(s, "C09", "R3", "R14", "protocol order of the negotiation: the confirmation is emitted before the transport is switched — every success path from the confirmation passes SetCompression/SetEncryption afterwards, never before", 4)
	defer r.Import(s, "C14", "R1", "R12", "fail closed: when establishment returns an error or the channel is not established, the serving function releases the connection on every path that does not enter the dispatch loop — nothing (no callback, no finished envelope) follows a failed handshake", 2)
	R1 := r.Rule("R1", "every session envelope a server channel emits carries ID ← channel.sessionID, From ← channel.localNode and a constant State; those two fields of a server channel are stored only by its constructor, from parameters it checks", 21)
	R2 := r.Rule("R2", "emission automaton (extracted by abstract interpretation over the 7 session states, interprocedurally): a non-terminal envelope is emitted only while the channel's visible state equals the announced state; each emitting function is entered only from states that precede what it announces (protocol order); terminal envelopes only from established (finished) or a non-terminal state (failed)", 24)
	R3 := r.Rule("R3", "the visible state never moves backwards: every store to channel.state is dominated by the edge Step(new) >= Step(old) (the other edge panics), and Step is injective and ordered as the protocol lists the states", 3)
	R4 := r.Rule("R4", "silence after a terminal state: the session sender writes only when state ∉ {finished, failed}, and the finishing/failing calls leave the channel in a terminal state on every return", 4)
	R5 := r.Rule("R5", "fail closed: after a client session envelope was read, no path returns success without a session envelope having been emitted in reply (abstract interpretation of EstablishSession and its callees); every failing call carries a Reason with a non-empty constant description", 8)
	R6 := r.Rule("R6", "after a successfully sent failed/finished envelope the transport is closed", 2)

	// ---- R1
	ems := sessionEmissions(s, "server")
	for _, e := range ems {
		base := "func " + fnName(e.fn) + " / emitted session"
		if e.alloc == nil {
			r.Check(R1, base, p.instrPos(e.call), false, "the envelope sent is not a Session literal built in this function")
			continue
		}
		chk := func(field string, chain []string, want func(ssa.Value) bool, what string) {
			sts := storesInto(e.alloc, chain...)
			ok := len(sts) > 0
			for _, st := range sts {
				for _, l := range leaves(st.Val) {
					if !want(stripConv(l)) {
						ok = false
					}
				}
			}
			r.Check(R1, base+" "+field, p.instrPos(e.call), ok, what)
		}
		chk("ID", []string{"Envelope", "ID"}, func(v ssa.Value) bool { return pathOf(v).Last() == s.sessionIDF }, "ID must be the channel's session id (not the client's echo, not a constant)")
		chk("From", []string{"Envelope", "From"}, func(v ssa.Value) bool { return pathOf(v).Last() == s.localNodeF }, "From must be the server node")
		chk("State", []string{"State"}, func(v ssa.Value) bool { cs, ok := constString(v); return ok && cs != "" }, "State must be a constant")
	}
	ctor := p.Func("NewServerChannel")
	for _, f := range []struct {
		v    interface{ Name() string }
		name string
	}{{s.sessionIDF, "sessionID"}, {s.localNodeF, "localNode"}} {
		var fld = s.sessionIDF
		if f.name == "localNode" {
			fld = s.localNodeF
		}
		n, ok := 0, true
		for _, fn := range p.LimeFuncs() {
			if k := s.recvKind(fn); k == "client" {
				continue
			}
			for _, st := range fieldStores([]*ssa.Function{fn}, fld) {
				n++
				if fn != ctor {
					ok = false
				}
				if _, isParam := pathOf(st.Val).Root.(*ssa.Parameter); !isParam || len(pathOf(st.Val).Fields) > 0 {
					ok = false
				}
			}
		}
		r.Check(R1, "channel."+f.name+" / stored only by the server channel constructor from its parameter", p.pos(ctor.Pos()), ok && n == 1, fmt.Sprintf("%d non-client store(s)", n))
	}
	if ctor != nil {
		np := 0
		eachInstr(ctor, func(in ssa.Instruction) {
			if _, ok := in.(*ssa.Panic); ok {
				np++
			}
		})
		r.Check(R1, "func NewServerChannel / rejects empty id and incomplete node", p.pos(ctor.Pos()), np >= 2, fmt.Sprintf("%d precondition panics", np))
	}

	// ---- R2 / R4 / R5 via the extracted automaton
	h := newHS(s)
	est := p.Method("ServerChannel", "EstablishSession")
	fin := p.Method("ServerChannel", "FinishSession")
	fail := p.Method("ServerChannel", "FailSession")
	if est == nil || fin == nil || fail == nil {
		r.Undecided(R2, "anchor-unresolved:ServerChannel API", "-", "EstablishSession/FinishSession/FailSession not found")
		return
	}
	outsEst := h.exec(est, hsIn{S: "new"})
	finOuts := map[string][]hsOut{}
	failOuts := map[string][]hsOut{}
	for _, st := range h.allStates {
		finOuts[st] = h.exec(fin, hsIn{S: st})
		failOuts[st] = h.exec(fail, hsIn{S: st})
	}
	allowedEntry := map[string]map[string]bool{
		"negotiating":    {"new": true, "negotiating": true},
		"authenticating": {"new": true, "negotiating": true, "authenticating": true},
		"established":    {"new": true, "negotiating": true, "authenticating": true},
		"finished":       {"established": true},
		"failed":         {"new": true, "negotiating": true, "authenticating": true, "established": true, "finishing": true},
	}
	sort.Slice(h.emissions, func(i, j int) bool { return h.emissions[i].String() < h.emissions[j].String() })
	for _, e := range h.emissions {
		if s.recvKind(e.Fn) != "server" {
			continue
		}
		construct := fmt.Sprintf("func %s / emit %s from %s (entered in %s)", fnName(e.Fn), e.Emit, e.From, e.Entry)
		ok, why := true, ""
		terminal := e.Emit == "finished" || e.Emit == "failed"
		if e.Emit == "" {
			ok, why = false, "non-constant state"
		} else if !terminal && e.From != e.Emit {
			ok, why = false, "a non-terminal envelope must announce the channel's visible state"
		} else if !allowedEntry[e.Emit][e.Entry] {
			ok, why = false, "protocol order: "+e.Emit+" may not be announced by a function entered in state "+e.Entry
		} else if stepOfState(e.Emit) < stepOfState(e.Entry) {
			ok, why = false, "moves backwards"
		}
		r.Check(R2, construct, p.instrPos(e.Site), ok, why)
	}
	// every server emission site must have been reached by the interpretation (else a guard/anchor no longer matches)
	for _, e := range ems {
		reached := false
		for _, he := range h.emissions {
			if he.Site == ssa.Instruction(e.call) {
				reached = true
			}
		}
		r.Check(R2, "func "+fnName(e.fn)+" / emission site covered by the automaton", p.instrPos(e.call), reached, "the abstract interpretation from EstablishSession/FinishSession/FailSession never reaches this emission: it cannot be judged")
	}
	// each stage's emitting function exists (vacuity)
	seenEmit := map[string]bool{}
	for _, e := range h.emissions {
		seenEmit[e.Emit] = true
	}
	for _, st := range []string{"negotiating", "authenticating", "established", "finished", "failed"} {
		r.Check(R2, "automaton / some path emits "+st, "-", seenEmit[st], "the extracted automaton has no emission of this state: anchors or interpretation no longer match the code")
	}
	r.Note("EstablishSession(new) exits: %s", joinOuts(outsEst))

	// ---- R3
	for _, fn := range a.setterLocked {
		for _, st := range fieldStores([]*ssa.Function{fn}, s.stateF) {
			ok := regressionGuarded(s, st.Block(), st.Val)
			r.Check(R3, "func "+fnName(fn)+" / store channel.state", p.instrPos(st), ok, "the store must be dominated by Step(new) >= Step(current); the opposite edge must not store")
		}
	}
	nonSetter := 0
	for _, fn := range p.LimeFuncs() {
		for _, st := range fieldStores([]*ssa.Function{fn}, s.stateF) {
			if _, isAlloc := pathOf(st.Addr).Root.(*ssa.Alloc); isAlloc {
				continue
			}
			if !containsFn(a.setterLocked, fn) {
				nonSetter++
			}
			_ = st
		}
	}
	r.Check(R3, "channel.state / single writer function", "-", len(a.setterLocked) == 1 && nonSetter == 0, fmt.Sprintf("%d function(s) store the state", len(a.setterLocked)))
	if stepFn := p.Method("SessionState", "Step"); stepFn != nil {
		table := map[string]int64{}
		for _, rl := range returnLeaves(stepFn, 0) {
			k, ok := constInt(stripConv(rl.v))
			if !ok {
				continue
			}
			for _, e := range mustEdges(rl.b) {
				c := condOn(ifOf(e.from), e.succ == 0)
				if c.Op != token.EQL {
					continue
				}
				if cs, ok := constString(stripConv(c.Y)); ok {
					table[cs] = k
				} else if cs, ok := constString(stripConv(c.X)); ok {
					table[cs] = k
				}
			}
		}
		if len(table) != 7 {
			// not a switch: evaluate the function on each state (consteval.go); an input it cannot evaluate stays missing
			table = map[string]int64{}
			for _, st := range h.allStates {
				if v, ok := p.constEval(stepFn, []constant.Value{constant.MakeString(st)}); ok {
					if k, exact := constant.Int64Val(v); exact {
						table[st] = k
					}
				}
			}
		}
		ok := len(table) == 7
		prev := int64(-1)
		for _, st := range h.allStates {
			v, has := table[st]
			if !has || v <= prev {
				ok = false
			}
			prev = v
		}
		r.Check(R3, "func (SessionState).Step / injective and in protocol order", p.pos(stepFn.Pos()), ok, fmt.Sprintf("table %v", table))
	} else {
		r.Undecided(R3, "anchor-unresolved:SessionState.Step", "-", "not found")
	}

	// ---- R4
	for _, st := range []string{"finished", "failed"} {
		r.Check(R4, "session sender / silent in state "+st, "-", !h.senderOK[st], "the session sender must refuse to write once the state is terminal")
	}
	termOK := func(outs map[string][]hsOut, want string) (bool, string) {
		for st, os := range outs {
			if !h.senderOK[st] {
				continue
			}
			for _, o := range os {
				if o.Dead {
					continue
				}
				if o.S != want && !(o.S == st && !o.ErrNil) {
					return false, fmt.Sprintf("entered in %s, may return in state %s (errNil=%v)", st, o.S, o.ErrNil)
				}
			}
		}
		return true, ""
	}
	_ = termOK
	checkTerminatingCallsTerminal(r, s, R4)

	// ---- R5
	nfo := 0
	for _, fo := range h.failOpen {
		if s.recvKind(fo.Fn) != "server" {
			continue
		}
		nfo++
		r.Check(R5, "func "+fnName(fo.Fn)+" / success return with an unanswered client envelope (state "+fo.S+")", p.instrPos(fo.Return), false,
			"a path reads a client session envelope and then returns nil without emitting any session envelope: the violation is ignored instead of being answered with a failed session")
	}
	for _, o := range outsEst {
		if o.ErrNil && !o.Dead {
			ok := o.S == "established" || o.S == "failed"
			r.Check(R5, "func (*ServerChannel).EstablishSession / success exit in state "+o.S, p.pos(est.Pos()), ok && !o.Pending, "EstablishSession may return nil only with the channel established or failed (catch-all)")
		}
	}
	r.Check(R5, "func (*ServerChannel).EstablishSession / interpreted", p.pos(est.Pos()), len(outsEst) >= 3 && nfo == 0, fmt.Sprintf("%d abstract exits, %d fail-open paths", len(outsEst), nfo))
	for _, c := range p.callersOf(fail) {
		fn := c.Parent()
		if fn.Pkg != p.Lime {
			continue
		}
		args := c.Common().Args
		reason := args[len(args)-1]
		ok := false
		for _, l := range leaves(reason) {
			if al, isAlloc := stripConv(l).(*ssa.Alloc); isAlloc {
				for _, st := range storesInto(al, "Description") {
					if cs, isC := constString(stripConv(st.Val)); isC && strings.TrimSpace(cs) != "" {
						ok = true
					}
					// a description chosen among constants by a validation helper: every candidate is a constant, and an
					// empty one cannot reach the failing call (it sits on the edge description != "")
					if _, isC := stripConv(st.Val).(*ssa.Const); !isC {
						all, n := true, 0
						guardedNonEmpty := condGuard(c.Block(), func(cd Cond) bool {
							if cd.Op != token.NEQ {
								return false
							}
							x, y := cd.X, cd.Y
							if cs, isC := constString(stripConv(x)); isC && cs == "" {
								x, y = y, x
							}
							cs, isC := constString(stripConv(y))
							return isC && cs == "" && stripConv(x) == stripConv(st.Val)
						})
						for _, dl := range leaves(st.Val) {
							cs, isC := constString(stripConv(dl))
							if !isC || (strings.TrimSpace(cs) == "" && !guardedNonEmpty) {
								all = false
							}
							n++
						}
						if all && n > 0 {
							ok = true
						}
					}
				}
			}
		}
		// the result is returned (or tested)
		used := false
		if v, isVal := c.(ssa.Value); isVal && v.Referrers() != nil && len(*v.Referrers()) > 0 {
			used = true
		}
		r.Check(R5, "func "+fnName(fn)+" / FailSession reason "+reasonText(reason), p.instrPos(c), ok && used, "failing call needs a Reason with a non-empty constant description, and its result must not be dropped")
	}

	R7 := r.Rule("R7", "wrong id echoed ⇒ failed: the id of every client session envelope read by a server handshake function is compared with the channel's id (empty for the first) before any callback or non-failing emission can be reached", 4)
	checkIDAfterEveryRead(r, s, R7)
	R8 := r.Rule("R8", "option or scheme that was not offered ⇒ failed: the negotiation confirmation and the authentication callback are reachable only through the ok edges of lookups of the client's selection in sets built from the offered lists", 4)
	checkNegotiationGate(r, s, R8)
	checkSchemeGate(r, s, R8)
	R9 := r.Rule("R9", "first-envelope rule: the negotiation and authentication stages are reachable only for a first session envelope whose own state is 'new' and whose id is empty; any other first envelope falls through to the failing answer", 2)
	checkFirstEnvelopeGate(r, s, R9)

	// ---- R6
	for _, fn := range []*ssa.Function{fin, fail} {
		var send *ssa.Call
		eachInstr(fn, func(in ssa.Instruction) {
			if c, ok := in.(*ssa.Call); ok && containsFn(a.sessionSenders, c.Call.StaticCallee()) {
				send = c
			}
		})
		if send == nil {
			r.Check(R6, "func "+fnName(fn)+" / close after send", p.pos(fn.Pos()), false, "no session send found")
			continue
		}
		exits := walkFrom(fn, send, walkOpts{
			barrier: func(in ssa.Instruction) bool {
				c, ok := in.(ssa.CallInstruction)
				return ok && s.isTransportCall(c, "Close")
			},
			cutEdge: func(from *ssa.BasicBlock, k int) bool {
				ifi := ifOf(from)
				if ifi == nil {
					return false
				}
				isNil, ok := errTestOf(ifi, k == 0, send)
				return ok && !isNil
			}})
		r.Check(R6, "func "+fnName(fn)+" / close after send", p.instrPos(send), len(exits) == 0, fmt.Sprintf("%d exit(s) reachable on the send's err == nil edge without Transport.Close", len(exits)))
	}
	r.Import(s, "C09", "R6", "R10", "each stage optional as configured — compression: the negotiation stage is not skipped when the single remaining compression option differs from the one in use", 1)
	r.Import(s, "C10", "R1", "R11", "each stage optional as configured — encryption: the negotiation stage is not skipped when the single remaining encryption option differs from the one in use (the server would go straight from 'new' to the authentication request)", 1)
}

func reasonText(v ssa.Value) string {
	for _, l := range leaves(v) {
		if al, ok := stripConv(l).(*ssa.Alloc); ok {
			for _, st := range storesInto(al, "Description") {
				if cs, ok := constString(stripConv(st.Val)); ok {
					return fmt.Sprintf("%q", cs)
				}
			}
		}
	}
	return describe(v)
}
