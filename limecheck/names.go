package main

import (
	"go/types"
	"strings"

	"golang.org/x/tools/go/ssa"
)

// Private identifiers are not part of any property: renaming one must not change a verdict. Rules are written against the
// pinned tree's names for readability, and every lookup goes through an alias table that maps those role names to the
// identifiers the *current* tree uses, resolved from types and shapes (never from the names themselves):
//
//	type:channel            the struct embedded by pointer in both exported channel types
//	field:channel.state     its field of type SessionState;  .transport: of type Transport;  .sessionID: its only string
//	                        field;  .client: its only bool field;  .localNode: the Node field the server-channel
//	                        constructor stores;  .remoteNode: the other Node field
//	type:rawEnvelope        the wire struct of the envelope codec (result type of Message's struct→wire method)
//	method:rawEnvelope.envelopeType / .toEnvelope   its methods returning (string, error) / (envelope interface, error)
//	method:<T>.toRawEnvelope / .populate            struct→wire / wire→struct method of each codec type (by signature)
//	type:tcpTransport       the Transport implementation holding an io.LimitedReader;  its fields .limitedReader (by
//	                        type), .encryption (of type SessionEncryption), .eof (the bool field Connected() reads)
//	type:ctxConn            the type carrying the Read/Write wrappers around net.Conn;  func:NewCtxConn its constructor
//	type:tcpTransportListener  the TransportListener whose Accept builds a tcpTransport
//	func:intersect / contains  the helper producing []interface{} from two interface{} operands / the bool helper it calls
//	func:acceptTransports   the function with a send-only chan of Transport parameter
//	func:sessionContext     the function (context.Context, *channel) context.Context
//	method:Client.buildChannel / getOrBuildChannel / stopListener   by what they call
//	type:<kind>Handler adapters and their predicate / handlerFunc fields  from the allocations in EnvelopeMux.<Kind>HandlerFunc
func (p *Prog) resolveAliases() {
	a := map[string]string{}
	p.alias = a
	sc := p.LimeT.Scope()
	named := func(n string) *types.Named {
		if o, ok := sc.Lookup(n).(*types.TypeName); ok {
			nt, _ := o.Type().(*types.Named)
			return nt
		}
		return nil
	}
	structOf := func(n *types.Named) *types.Struct {
		if n == nil {
			return nil
		}
		st, _ := n.Underlying().(*types.Struct)
		return st
	}
	embeddedPtr := func(n *types.Named) *types.Named {
		st := structOf(n)
		if st == nil {
			return nil
		}
		for i := 0; i < st.NumFields(); i++ {
			if st.Field(i).Embedded() {
				if pt, ok := st.Field(i).Type().(*types.Pointer); ok {
					if e, ok := pt.Elem().(*types.Named); ok {
						return e
					}
				}
			}
		}
		return nil
	}
	isNamed := func(t types.Type, name string) bool {
		if pt, ok := t.(*types.Pointer); ok {
			t = pt.Elem()
		}
		n, ok := t.(*types.Named)
		return ok && n.Obj().Name() == name && n.Obj().Pkg() == p.LimeT
	}
	methodBy := func(n *types.Named, pred func(sig *types.Signature) bool) string {
		if n == nil {
			return ""
		}
		for i := 0; i < n.NumMethods(); i++ {
			if pred(n.Method(i).Type().(*types.Signature)) {
				return n.Method(i).Name()
			}
		}
		return ""
	}
	// an identifier that still exists under its pinned name keeps it: the role search only finds what was renamed
	exists := func(k string) bool {
		kind, key, _ := strings.Cut(k, ":")
		typ, mem, hasMem := strings.Cut(key, ".")
		switch kind {
		case "type":
			return named(key) != nil
		case "func":
			_, ok := sc.Lookup(key).(*types.Func)
			return ok
		case "method", "field":
			if !hasMem {
				return false
			}
			if al := a["type:"+typ]; al != "" {
				typ = al
			}
			n := named(typ)
			if n == nil {
				return false
			}
			if kind == "method" {
				for i := 0; i < n.NumMethods(); i++ {
					if n.Method(i).Name() == mem {
						return true
					}
				}
				return false
			}
			if st := structOf(n); st != nil {
				for i := 0; i < st.NumFields(); i++ {
					if st.Field(i).Name() == mem {
						return true
					}
				}
			}
		}
		return false
	}
	set := func(k, v string) {
		if v == "" {
			return
		}
		if exists(k) {
			_, key, _ := strings.Cut(k, ":")
			if _, mem, hasMem := strings.Cut(key, "."); hasMem {
				key = mem
			}
			v = key // still there under its pinned name
		}
		a[k] = v
	}

	// ---- channel
	ch := embeddedPtr(named("ServerChannel"))
	if ch != nil && embeddedPtr(named("ClientChannel")) == ch {
		set("type:channel", ch.Obj().Name())
		st := structOf(ch)
		var nodeFields []*types.Var
		nStr, nBool := 0, 0
		var strF, boolF *types.Var
		for i := 0; i < st.NumFields(); i++ {
			f := st.Field(i)
			switch {
			case isNamed(f.Type(), "SessionState"):
				set("field:channel.state", f.Name())
			case isNamed(f.Type(), "Transport"):
				set("field:channel.transport", f.Name())
			case isNamed(f.Type(), "Node"):
				nodeFields = append(nodeFields, f)
			}
			if b, ok := f.Type().(*types.Basic); ok {
				if b.Kind() == types.String {
					nStr++
					strF = f
				}
				if b.Kind() == types.Bool {
					nBool++
					boolF = f
				}
			}
		}
		if nStr == 1 {
			set("field:channel.sessionID", strF.Name())
		}
		if nBool == 1 {
			set("field:channel.client", boolF.Name())
		}
		// local node: the Node field stored by the exported server-channel constructor
		if ctor := p.Lime.Func("NewServerChannel"); ctor != nil && len(nodeFields) == 2 {
			eachInstr(ctor, func(in ssa.Instruction) {
				if stv, ok := in.(*ssa.Store); ok {
					if fa, ok := stv.Addr.(*ssa.FieldAddr); ok {
						f := structField(fa.X.Type(), fa.Field)
						for k, nf := range nodeFields {
							if f == nf {
								set("field:channel.localNode", nf.Name())
								set("field:channel.remoteNode", nodeFields[1-k].Name())
							}
						}
					}
				}
			})
		}
	}

	// ---- wire envelope and codec methods
	var wire *types.Named
	for _, kind := range []string{"Message", "Envelope", "Command", "Notification", "RequestCommand", "ResponseCommand", "Session", "DocumentContainer", "DocumentCollection"} {
		n := named(kind)
		if n == nil {
			continue
		}
		enc := methodBy(n, func(sig *types.Signature) bool {
			if sig.Params().Len() != 0 || sig.Results().Len() != 2 || !isErrorType(sig.Results().At(1).Type()) {
				return false
			}
			pt, ok := sig.Results().At(0).Type().(*types.Pointer)
			if !ok {
				return false
			}
			w, ok := pt.Elem().(*types.Named)
			if !ok || w.Obj().Exported() || w.Obj().Pkg() != p.LimeT {
				return false
			}
			_, isStruct := w.Underlying().(*types.Struct)
			return isStruct
		})
		dec := methodBy(n, func(sig *types.Signature) bool {
			if sig.Params().Len() != 1 || sig.Results().Len() != 1 || !isErrorType(sig.Results().At(0).Type()) {
				return false
			}
			pt, ok := sig.Params().At(0).Type().(*types.Pointer)
			if !ok {
				return false
			}
			w, ok := pt.Elem().(*types.Named)
			return ok && !w.Obj().Exported() && w.Obj().Pkg() == p.LimeT
		})
		pinnedEnc, pinnedDec := "toRawEnvelope", "populate"
		if kind == "DocumentContainer" || kind == "DocumentCollection" {
			pinnedEnc = "raw"
		}
		set("method:"+kind+"."+pinnedEnc, enc)
		set("method:"+kind+"."+pinnedDec, dec)
		if kind == "Message" && enc != "" {
			for i := 0; i < n.NumMethods(); i++ {
				if n.Method(i).Name() == enc {
					wire = n.Method(i).Type().(*types.Signature).Results().At(0).Type().(*types.Pointer).Elem().(*types.Named)
				}
			}
		}
	}
	if wire != nil {
		set("type:rawEnvelope", wire.Obj().Name())
		set("method:rawEnvelope.envelopeType", methodBy(wire, func(sig *types.Signature) bool {
			if sig.Params().Len() != 0 || sig.Results().Len() != 2 {
				return false
			}
			b, ok := sig.Results().At(0).Type().(*types.Basic)
			return ok && b.Kind() == types.String && isErrorType(sig.Results().At(1).Type())
		}))
		set("method:rawEnvelope.toEnvelope", methodBy(wire, func(sig *types.Signature) bool {
			if sig.Params().Len() != 0 || sig.Results().Len() != 2 || !isErrorType(sig.Results().At(1).Type()) {
				return false
			}
			n, ok := sig.Results().At(0).Type().(*types.Named)
			return ok && types.IsInterface(n) && !n.Obj().Exported()
		}))
	}

	// ---- the envelope interface: what Transport.Send takes
	if trn := named("Transport"); trn != nil {
		if it, ok := trn.Underlying().(*types.Interface); ok {
			for i := 0; i < it.NumMethods(); i++ {
				if m := it.Method(i); m.Name() == "Send" {
					sig := m.Type().(*types.Signature)
					if sig.Params().Len() == 2 {
						if en, ok := sig.Params().At(1).Type().(*types.Named); ok && types.IsInterface(en) {
							set("type:envelope", en.Obj().Name())
						}
					}
				}
			}
		}
	}
	// ---- TCP transport
	tr := named("Transport")
	for _, n := range sc.Names() {
		nt := named(n)
		st := structOf(nt)
		if st == nil || tr == nil {
			continue
		}
		if !types.Implements(types.NewPointer(nt), tr.Underlying().(*types.Interface)) {
			continue
		}
		for i := 0; i < st.NumFields(); i++ {
			f := st.Field(i)
			if fn, ok := f.Type().(*types.Named); ok && fn.Obj().Pkg() != nil && fn.Obj().Pkg().Path() == "io" && fn.Obj().Name() == "LimitedReader" {
				set("type:tcpTransport", n)
				set("field:tcpTransport.limitedReader", f.Name())
			}
		}
		if a["type:tcpTransport"] == n {
			for i := 0; i < st.NumFields(); i++ {
				f := st.Field(i)
				if isNamed(f.Type(), "SessionEncryption") {
					set("field:tcpTransport.encryption", f.Name())
				}
			}
			// eof: the bool field read by Connected()
			for i := 0; i < nt.NumMethods(); i++ {
				if nt.Method(i).Name() == "Connected" {
					if fn := p.SSA.FuncValue(nt.Method(i)); fn != nil {
						eachInstr(fn, func(in ssa.Instruction) {
							if fa, ok := in.(*ssa.FieldAddr); ok {
								f := structField(fa.X.Type(), fa.Field)
								if b, ok := f.Type().(*types.Basic); ok && b.Kind() == types.Bool {
									set("field:tcpTransport.eof", f.Name())
								}
							}
						})
					}
				}
			}
		}
	}
	// ---- polling wrapper
	for _, w := range ioWrappers(p) {
		if n := namedOf(w.fn.Signature.Recv().Type()); n != nil {
			set("type:ctxConn", n.Obj().Name())
		}
	}
	if cc := a["type:ctxConn"]; cc != "" {
		for _, n := range sc.Names() {
			if f, ok := sc.Lookup(n).(*types.Func); ok {
				sig := f.Type().(*types.Signature)
				if sig.Recv() == nil && sig.Results().Len() == 1 && isNamed(sig.Results().At(0).Type(), cc) {
					set("func:NewCtxConn", n)
				}
			}
		}
	}
	// ---- TCP listener: the TransportListener whose Accept allocates the tcp transport
	if tl := named("TransportListener"); tl != nil && a["type:tcpTransport"] != "" {
		for _, n := range sc.Names() {
			nt := named(n)
			if structOf(nt) == nil || !types.Implements(types.NewPointer(nt), tl.Underlying().(*types.Interface)) {
				continue
			}
			for i := 0; i < nt.NumMethods(); i++ {
				if nt.Method(i).Name() != "Accept" {
					continue
				}
				if fn := p.SSA.FuncValue(nt.Method(i)); fn != nil {
					eachInstr(fn, func(in ssa.Instruction) {
						if al, ok := in.(*ssa.Alloc); ok && isNamed(al.Type(), a["type:tcpTransport"]) {
							set("type:tcpTransportListener", n)
						}
					})
				}
			}
		}
	}
	// ---- package functions by signature
	for _, n := range sc.Names() {
		f, ok := sc.Lookup(n).(*types.Func)
		if !ok {
			continue
		}
		sig := f.Type().(*types.Signature)
		if sig.Recv() != nil {
			continue
		}
		ps, rs := sig.Params(), sig.Results()
		isEmptyIface := func(t types.Type) bool {
			it, ok := t.Underlying().(*types.Interface)
			return ok && it.NumMethods() == 0
		}
		if ps.Len() == 2 && rs.Len() == 1 && isEmptyIface(ps.At(0).Type()) && isEmptyIface(ps.At(1).Type()) {
			if sl, ok := rs.At(0).Type().(*types.Slice); ok && isEmptyIface(sl.Elem()) {
				set("func:intersect", n)
			}
			if b, ok := rs.At(0).Type().(*types.Basic); ok && b.Kind() == types.Bool {
				set("func:contains", n)
			}
		}
		for i := 0; i < ps.Len(); i++ {
			if c, ok := ps.At(i).Type().(*types.Chan); ok && c.Dir() == types.SendOnly && isNamed(c.Elem(), "Transport") {
				set("func:acceptTransports", n)
			}
		}
		if ps.Len() == 2 && rs.Len() == 1 && strings.HasSuffix(ps.At(0).Type().String(), "context.Context") && strings.HasSuffix(rs.At(0).Type().String(), "context.Context") && a["type:channel"] != "" && isNamed(ps.At(1).Type(), a["type:channel"]) {
			set("func:sessionContext", n)
		}
	}
	// ---- Client methods by what they call
	if cl := named("Client"); cl != nil {
		var build *ssa.Function
		for i := 0; i < cl.NumMethods(); i++ {
			fn := p.SSA.FuncValue(cl.Method(i))
			if fn == nil {
				continue
			}
			eachCall(fn, func(c ssa.CallInstruction) {
				if g := staticCallee(c); g != nil && g.Name() == "NewClientChannel" {
					build = fn
				}
			})
		}
		if build != nil {
			set("method:Client.buildChannel", build.Name())
			for i := 0; i < cl.NumMethods(); i++ {
				fn := p.SSA.FuncValue(cl.Method(i))
				if fn == nil || fn == build {
					continue
				}
				eachCall(fn, func(c ssa.CallInstruction) {
					if staticCallee(c) == build {
						set("method:Client.getOrBuildChannel", fn.Name())
					}
				})
			}
		}
		// stopListener: calls a CancelFunc-typed field and receives from a channel field, no parameters
		for i := 0; i < cl.NumMethods(); i++ {
			fn := p.SSA.FuncValue(cl.Method(i))
			if fn == nil || fn.Signature.Params().Len() != 0 || fn.Signature.Results().Len() != 0 {
				continue
			}
			cancels, waits := false, false
			eachInstr(fn, func(in ssa.Instruction) {
				if c, ok := in.(ssa.CallInstruction); ok && !c.Common().IsInvoke() && staticCallee(c) == nil {
					if n := namedOf(c.Common().Value.Type()); n != nil && n.Obj().Name() == "CancelFunc" {
						cancels = true
					}
				}
				if u, ok := in.(*ssa.UnOp); ok && u.Op.String() == "<-" {
					waits = true
				}
			})
			if cancels && waits {
				set("method:Client.stopListener", fn.Name())
			}
		}
		// Client.channel: the field of type *ClientChannel
		if st := structOf(cl); st != nil {
			for i := 0; i < st.NumFields(); i++ {
				if isNamed(st.Field(i).Type(), "ClientChannel") {
					set("field:Client.channel", st.Field(i).Name())
				}
			}
		}
	}
	// ---- handler adapters: the struct allocated by EnvelopeMux.<Kind>HandlerFunc
	if mux := named("EnvelopeMux"); mux != nil {
		for _, k := range []struct{ reg, pinned string }{{"MessageHandlerFunc", "messageHandler"}, {"NotificationHandlerFunc", "notificationHandler"}, {"RequestCommandHandlerFunc", "requestCommandHandler"}, {"ResponseCommandHandlerFunc", "responseCommandHandler"}} {
			for i := 0; i < mux.NumMethods(); i++ {
				if mux.Method(i).Name() != k.reg {
					continue
				}
				fn := p.SSA.FuncValue(mux.Method(i))
				if fn == nil {
					continue
				}
				eachInstr(fn, func(in ssa.Instruction) {
					al, ok := in.(*ssa.Alloc)
					if !ok {
						return
					}
					n := namedOf(al.Type())
					st := structOf(n)
					if st == nil || n.Obj().Pkg() != p.LimeT {
						return
					}
					set("type:"+k.pinned, n.Obj().Name())
					for j := 0; j < st.NumFields(); j++ {
						if sig, ok := st.Field(j).Type().Underlying().(*types.Signature); ok && sig.Results().Len() == 1 {
							if b, ok := sig.Results().At(0).Type().(*types.Basic); ok && b.Kind() == types.Bool {
								set("field:"+k.pinned+".predicate", st.Field(j).Name())
							} else if isErrorType(sig.Results().At(0).Type()) {
								set("field:"+k.pinned+".handlerFunc", st.Field(j).Name())
							}
						}
					}
				})
			}
		}
	}
}

func (p *Prog) aliasOf(kind, key string) string {
	if p.alias == nil {
		return ""
	}
	return p.alias[kind+":"+key]
}
