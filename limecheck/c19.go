package main

import (
	"fmt"
	"go/constant"
	"go/token"
	"go/types"

	"golang.org/x/tools/go/ssa"
)

func init() {
	register("C19", "actual recovery against a real server and real faults (half-closed sockets, timing, repeated faults); that a rebuilt session's envelopes reach the handlers at run time", c19)
}

func c19(r *Report, s *Sem) {
	p := r.P
	a := s.anchors()
	R11 := r.Rule("R11", "nothing but a send waits for the send mutex: every function that locks it calls Transport.Send under it (a Close that takes it waits, with no context, behind a send blocked on a peer that stopped reading — and the rebuild that closes the dead channel wedges the client)", 1)
	defer checkSendMutexOnlyForSending(r, s, R11)
	R12 := r.Rule("R12", "no re-entrant read lock: no function calls, while holding a mutex, a function that locks the same mutex on the same receiver (a writer arriving between the two read-lock acquisitions deadlocks the client for good)", 1)
	defer checkNoRecursiveReadLock(r, s, R12)
	R9 := r.Rule("R9", "the listener cannot spin: the function the background listener calls in its retry-at-once loop returns an error only when its context ended — every non-nil error it returns derives from ctx.Err() (a refusal reported at once, with the context live, makes the loop dial back-to-back without the back-off)", 2)
	defer checkBuilderFailsOnlyWithContext(r, s, R9)
	R10 := r.Rule("R10", "the listener is not left deaf: a transport whose Close signals with a single token on a buffered channel has only its Receive as consumer of that token (a Send that also waits on it can take it and leave the receiver goroutine parked on a closed transport, so the client never rebuilds)", 1)
	defer checkDoneTokenConsumers(r, s, R10)
	defer r.Import(s, "C13", "R9", "R8", "a server-initiated end is always seen: the session hand-off queue has constant capacity ≥ 1 whatever buffer size is configured, so the receiver can park the terminal envelope, fold the state and close the transport even when nobody is waiting for a session envelope", 1)
	R1 := r.Rule("R1", "receiver exit ⇒ channel no longer counts as established (client role): every exit path of the receiver goroutine either leaves because the established predicate is false, or was requested by the stop routine (context cancelled), or passes Transport.Close — so the client's reuse test fails and it rebuilds", 1)
	R2 := r.Rule("R2", "no spin and no stale reuse: the client hands out its cached channel only under the facts state==established ∧ connected, otherwise only a freshly built one; the rebuild loop re-checks the context and sleeps a back-off, counted in milliseconds or more, that grows with the attempt counter on every retry; the background listener goes through getOrBuildChannel and the dispatch loop on every cycle", 6)
	R3 := r.Rule("R3", "replacement closes: every store of a new channel into Client.channel is preceded on all paths by a releasing call on the previous channel or by the edge 'previous channel is nil'", 1)
	R4 := r.Rule("R4", "truthful sends: each Client send operation returns either the error of getOrBuildChannel or the result of the channel's own guarded send (C06.R1)", 4)

	if a.receiver == nil {
		r.Undecided(R1, "anchor-unresolved:receiver", "-", "not found")
		return
	}
	// ---- R1
	clientF := p.Field("channel", "client")
	var ctxParam ssa.Value // the receiver's context: a parameter, or a captured variable when the receiver is a function literal
	for _, pr := range a.receiver.Params {
		if n := namedOf(pr.Type()); n != nil && n.Obj().Name() == "Context" {
			ctxParam = pr
		}
	}
	for _, fv := range a.receiver.FreeVars {
		if n := namedOf(fv.Type()); n != nil && n.Obj().Name() == "Context" {
			ctxParam = fv
		}
	}
	isCtxDone := func(v ssa.Value) bool {
		call, _ := callOf(v)
		return call != nil && call.Call.IsInvoke() && call.Call.Method.Name() == "Done" && ctxParam != nil && stripConv(call.Call.Value) == ctxParam
	}
	var bad []string
	walkFrom(a.receiver, nil, walkOpts{
		barrier: func(in ssa.Instruction) bool {
			c, ok := in.(ssa.CallInstruction)
			if !ok {
				return false
			}
			if _, isDefer := in.(*ssa.Defer); isDefer {
				return false
			}
			return s.isTransportCall(c, "Close")
		},
		cutEdge: func(from *ssa.BasicBlock, k int) bool {
			ifi := ifOf(from)
			if ifi == nil {
				return false
			}
			// (iv) leaving because the established predicate is false
			opp := s.atomsOfBool(ifi.Cond, k != 0, 0)
			if hasAtom(opp, "state==", "established") && hasAtom(opp, "connected", "") {
				return true
			}
			cd := condOn(ifi, k == 0)
			// stop requested: ctx.Err() != nil
			if cd.Op == token.NEQ || cd.Op == token.EQL {
				x, y := cd.X, cd.Y
				if isNilConst(x) {
					x, y = y, x
				}
				if isNilConst(y) {
					if call, _ := callOf(x); call != nil && call.Call.IsInvoke() && call.Call.Method.Name() == "Err" && stripConv(call.Call.Value) == ctxParam {
						return cd.Op == token.NEQ
					}
				}
			}
			// stop requested: the select chose the <-ctx.Done() arm
			if cd.Op == token.EQL {
				if ex, ok := stripConv(cd.X).(*ssa.Extract); ok && ex.Index == 0 {
					if sel, ok := ex.Tuple.(*ssa.Select); ok {
						if k2, ok := constInt(cd.Y); ok && int(k2) < len(sel.States) && isCtxDone(sel.States[k2].Chan) {
							return true
						}
					}
				}
			}
			// server role: the serving function finishes the session when the dispatch loop ends (C13.R3)
			if cd.Op == token.ILLEGAL && !cd.True && clientF != nil && readsField(cd.Val, clientF) {
				return true
			}
			return false
		},
		onExit: func(e ssa.Instruction, pred *ssa.BasicBlock) {
			bad = append(bad, p.instrPos(e))
		}})
	r.Check(R1, "func "+fnName(a.receiver)+" / every exit leaves the channel not established", p.pos(a.receiver.Pos()), len(bad) == 0,
		fmt.Sprintf("%d exit(s) %v where the receiver is gone but state==established and the transport still counts as connected: the client keeps handing out a deaf channel and its listener spins on the closed done signal", len(bad), bad))
	// the stop routine is reachable only from terminal arms / Close (so 'context cancelled' really means requested): C13.R2

	// ---- R6: the lifetime lock
	R6 := r.Rule("R6", "the channel-lifetime lock is released only by the caller that took it: every release (receive from the lock channel, usually deferred) is reachable only after that function's own acquire succeeded — a release registered before the acquire's error check lets a caller whose context ended while queueing steal the token of the goroutine that is rebuilding, which then blocks forever in its own release (a deaf listener, and Close hangs)", 2)
	if cl := p.Type("Client"); cl != nil {
		var lockF *types.Var
		if st, ok := cl.Underlying().(*types.Struct); ok {
			for i := 0; i < st.NumFields(); i++ {
				if ch, ok := st.Field(i).Type().Underlying().(*types.Chan); ok {
					if es, ok := ch.Elem().Underlying().(*types.Struct); ok && es.NumFields() == 0 {
						lockF = st.Field(i)
					}
				}
			}
		}
		if lockF == nil {
			r.Undecided(R6, "anchor-unresolved:Client lifetime lock", "-", "no chan struct{} field")
		} else {
			onLock := func(v ssa.Value) bool { return pathOf(v).Last() == lockF }
			for _, fn := range p.LimeFuncs() {
				if fn.Parent() != nil {
					continue
				}
				// release sites of fn: direct receives, and defers of a literal that receives
				var releases []ssa.Instruction
				eachInstr(fn, func(in ssa.Instruction) {
					switch x := in.(type) {
					case *ssa.UnOp:
						if x.Op == token.ARROW && onLock(x.X) {
							releases = append(releases, in)
						}
					case *ssa.Defer:
						// the deferred function: a literal, or a function value that may be a literal handed out by an
						// acquire helper (`unlock, err := c.lockLifetime(ctx); defer unlock()`)
						releasing := func(v ssa.Value) bool {
							found := false
							for _, l := range leaves(v) {
								mc, ok := stripConv(l).(*ssa.MakeClosure)
								if !ok {
									continue
								}
								eachInstr(mc.Fn.(*ssa.Function), func(in2 ssa.Instruction) {
									if u, ok := in2.(*ssa.UnOp); ok && u.Op == token.ARROW && onLock(u.X) {
										found = true
									}
								})
							}
							return found
						}
						if ph, isPhi := stripConv(x.Call.Value).(*ssa.Phi); isPhi {
							// the function value depends on the path: it releases only where the releasing literal arrives
							for i, e := range ph.Edges {
								if releasing(e) {
									pr := ph.Block().Preds[i]
									releases = append(releases, pr.Instrs[len(pr.Instrs)-1])
								}
							}
						} else if releasing(x.Call.Value) {
							releases = append(releases, in)
						}
					}
				})
				for _, rel := range releases {
					unheld := false
					walkFrom(fn, nil, walkOpts{seeDefers: true,
						barrier: func(in ssa.Instruction) bool {
							if in == rel {
								unheld = true
								return true
							}
							if sd, ok := in.(*ssa.Send); ok && onLock(sd.Chan) {
								return true // acquired (blocking send)
							}
							return false
						},
						cutEdge: func(from *ssa.BasicBlock, k int) bool {
							ifi := ifOf(from)
							if ifi == nil {
								return false
							}
							cd := condOn(ifi, k == 0)
							if cd.Op != token.EQL {
								return false
							}
							ex, ok := stripConv(cd.X).(*ssa.Extract)
							if !ok || ex.Index != 0 {
								return false
							}
							sel, ok := ex.Tuple.(*ssa.Select)
							if !ok {
								return false
							}
							idx, ok := constInt(cd.Y)
							if !ok || int(idx) >= len(sel.States) {
								return false
							}
							stt := sel.States[idx]
							return stt.Dir == types.SendOnly && onLock(stt.Chan) // the arm on which the token was put in
						}})
					r.Check(R6, "func "+fnName(fn)+" / release of the lifetime lock only after its own acquire", p.instrPos(rel), !unheld, "a path reaches this release (or its defer) without having put the token in")
				}
			}
		}
	}

	R5 := r.Rule("R5", "closing flips the transport to disconnected: Transport.Close implementations close the underlying connection unless the handle is nil and clear the handle whatever the close returned (R1's 'passes Transport.Close' relies on it), and channel.Close always reaches Transport.Close", 4)
	checkCloseReallyCloses(r, s, R5)

	// ---- R2
	gob := p.Method("Client", "getOrBuildChannel")
	build := p.Method("Client", "buildChannel")
	chanF := p.Field("Client", "channel")
	if gob == nil || build == nil || chanF == nil {
		r.Undecided(R2, "anchor-unresolved:Client.getOrBuildChannel", "-", "not found")
		return
	}
	// the builder itself hands out only an established channel: a handshake answered with failed/finished returns no
	// error, and a builder that passes such a channel on makes the rebuild loop return at once with a dead channel — no
	// back-off, and the listener spins
	if est := p.Method("ClientChannel", "EstablishSession"); est != nil {
		checkBuilderPublishesEstablished(r, s, R2, build, est)
	}
	var buildCall *ssa.Call
	for _, f := range withAnon(gob) {
		eachInstr(f, func(in ssa.Instruction) {
			if c, ok := in.(*ssa.Call); ok && c.Call.StaticCallee() == build {
				buildCall = c
			}
		})
	}
	nRet := 0
	for _, rl := range returnLeaves(gob, 0) {
		if isNilConst(rl.v) {
			continue
		}
		nRet++
		construct := "func " + fnName(gob) + " / hands out " + describe(rl.v)
		if call, idx := callOf(rl.v); call != nil && call == buildCall && idx == 0 {
			r.Check(R2, "func "+fnName(gob)+" / hands out a freshly built channel", p.instrPos(rl.in), errNilGuard(rl.b, buildCall), "only on the builder's err == nil edge")
			continue
		}
		if pathOf(rl.v).Last() == chanF {
			atoms := s.atomsAt(rl.b, 0)
			ok := hasAtom(atoms, "state==", "established") && hasAtom(atoms, "connected", "")
			r.Check(R2, "func "+fnName(gob)+" / reuses the cached channel only while established", p.instrPos(rl.in), ok, "facts: "+atomsString(atoms))
			continue
		}
		r.Check(R2, construct, p.instrPos(rl.in), false, "neither the cached channel under the established predicate nor a fresh one")
	}
	if buildCall == nil {
		r.Undecided(R2, "func "+fnName(gob)+" / rebuild loop", p.pos(gob.Pos()), "no call of the channel builder")
	} else {
		// every path from a failed build back to the next build passes time.Sleep and a ctx.Err() test
		var sleep *ssa.Call
		eachInstr(gob, func(in ssa.Instruction) {
			if c, ok := in.(*ssa.Call); ok {
				if g := c.Call.StaticCallee(); g != nil && g.Pkg != nil && g.Pkg.Pkg.Path() == "time" && g.Name() == "Sleep" {
					sleep = c
				}
			}
		})
		retryNoSleep := false
		walkFrom(gob, buildCall, walkOpts{
			barrier: func(in ssa.Instruction) bool {
				if sleep != nil && in == ssa.Instruction(sleep) {
					return true
				}
				if in == ssa.Instruction(buildCall) {
					retryNoSleep = true
					return true
				}
				return false
			}})
		r.Check(R2, "func "+fnName(gob)+" / every retry sleeps", p.instrPos(buildCall), sleep != nil && !retryNoSleep, "a failed build must not be retried without a back-off")
		grows := false
		if sleep != nil {
			for _, l := range backSlice(sleep.Call.Args[0], 12) {
				if ph, ok := l.(*ssa.Phi); ok {
					for _, e := range ph.Edges {
						if b, ok := e.(*ssa.BinOp); ok && b.Op == token.ADD && (b.X == ssa.Value(ph) || b.Y == ssa.Value(ph)) {
							grows = true
						}
					}
				}
			}
		}
		sleepPos := "-"
		if sleep != nil {
			sleepPos = p.instrPos(sleep)
		}
		r.Check(R2, "func "+fnName(gob)+" / back-off grows with the attempt counter", sleepPos, grows, "the sleep duration must depend on a counter incremented on every retry")
		// the slept value is scaled to at least milliseconds: constant factors of its multiplications reach 1e6 ns
		scale := 1.0
		if sleep != nil {
			for _, l := range backSlice(sleep.Call.Args[0], 12) {
				if b, ok := l.(*ssa.BinOp); ok && b.Op == token.MUL {
					for _, o := range []ssa.Value{b.X, b.Y} {
						if c, ok := o.(*ssa.Const); ok && c.Value != nil {
							f, _ := constant.Float64Val(constant.ToFloat(c.Value))
							if f < 0 {
								f = -f
							}
							scale *= f
						}
					}
				} else if c, ok := l.(*ssa.Const); ok && l == stripConv(sleep.Call.Args[0]) && c.Value != nil {
					if f, _ := constant.Float64Val(constant.ToFloat(c.Value)); f > scale {
						scale = f
					}
				}
			}
		}
		r.Check(R2, "func "+fnName(gob)+" / back-off is counted in milliseconds or more", sleepPos, scale >= 1e6, fmt.Sprintf("constant factors of the slept duration multiply to %.0f ns per unit: a bare number converted to time.Duration is nanoseconds, and the rebuild loop spins", scale))
		ctxCheck := condGuard(buildCall.Block(), func(cd Cond) bool {
			if cd.Op != token.EQL {
				return false
			}
			x, y := cd.X, cd.Y
			if isNilConst(x) {
				x, y = y, x
			}
			call, _ := callOf(x)
			return isNilConst(y) && call != nil && call.Call.IsInvoke() && call.Call.Method.Name() == "Err"
		})
		r.Check(R2, "func "+fnName(gob)+" / rebuild loop re-checks the context", p.instrPos(buildCall), ctxCheck, "each attempt is guarded by ctx.Err() == nil")
	}
	// listener goroutine
	var lst *ssa.Function
	for _, fn := range p.LimeFuncs() {
		if fn.Parent() == nil {
			continue
		}
		callsGob, callsListen := false, false
		eachCall(fn, func(c ssa.CallInstruction) {
			g := staticCallee(c)
			if g == gob {
				callsGob = true
			}
			if g != nil {
				for f := range p.reachableAny(g, 2) {
					if f == a.listenFn {
						callsListen = true
					}
				}
			}
		})
		if callsGob && callsListen {
			lst = fn
		}
	}
	if lst == nil {
		r.Undecided(R2, "anchor-unresolved:client listener goroutine", "-", "no function literal calling getOrBuildChannel and the dispatch loop")
	} else {
		var gobCall, listenCall ssa.Instruction
		eachCall(lst, func(c ssa.CallInstruction) {
			g := staticCallee(c)
			if g == gob {
				gobCall = c
			} else if g != nil {
				for f := range p.reachableAny(g, 2) {
					if f == a.listenFn {
						listenCall = c
					}
				}
			}
		})
		// every cycle through the dispatch call passes getOrBuildChannel again
		cycle := false
		walkFrom(lst, listenCall, walkOpts{barrier: func(in ssa.Instruction) bool {
			if in == gobCall {
				return true
			}
			if in == listenCall {
				cycle = true
				return true
			}
			return false
		}})
		r.Check(R2, "func "+fnName(lst)+" / each cycle re-validates the channel", p.instrPos(listenCall), !cycle && gobCall != nil, "the dispatch loop must not be re-entered on the same channel without going through getOrBuildChannel")
	}

	// ---- R3 (wherever a Client method stores a new channel: the rebuild loop, or the builder when it publishes itself)
	for _, f := range p.LimeFuncs() {
		if !typeIs(recvType(topLevel(f)), p.Type("Client")) {
			continue
		}
		for _, st := range fieldStores([]*ssa.Function{f}, chanF) {
			if isNilConst(st.Val) {
				continue
			}
			reached := false
			walkFrom(f, nil, walkOpts{
				barrier: func(in ssa.Instruction) bool {
					if in == ssa.Instruction(st) {
						reached = true
						return true
					}
					c, ok := in.(ssa.CallInstruction)
					if !ok {
						return false
					}
					if g := staticCallee(c); g != nil && len(c.Common().Args) > 0 {
						tgt := s.unwrap(g)
						if tgt != nil {
							if al, _ := s.releasing(tgt, 0); al && pathHasField(pathOf(c.Common().Args[0]), chanF) {
								return true
							}
						}
					}
					return false
				},
				cutEdge: func(from *ssa.BasicBlock, k int) bool {
					ifi := ifOf(from)
					if ifi == nil {
						return false
					}
					cd := condOn(ifi, k == 0)
					if cd.Op != token.EQL {
						return false
					}
					x, y := cd.X, cd.Y
					if isNilConst(x) {
						x, y = y, x
					}
					return isNilConst(y) && pathOf(x).Last() == chanF
				}})
			r.Check(R3, "func "+fnName(f)+" / store of a new channel", p.instrPos(st), !reached, "the store is reachable without closing the previous channel and without the edge 'previous channel == nil'")
		}
	}

	// ---- R4
	for _, m := range []string{"SendMessage", "SendNotification", "SendRequestCommand", "ProcessCommand"} {
		fn := p.Method("Client", m)
		if fn == nil {
			r.Undecided(R4, "anchor-unresolved:Client."+m, "-", "not found")
			continue
		}
		ok, n := true, 0
		var gcall *ssa.Call
		eachInstr(fn, func(in ssa.Instruction) {
			if c, ok := in.(*ssa.Call); ok && c.Call.StaticCallee() == gob {
				gcall = c
			}
		})
		ri := fn.Signature.Results().Len() - 1
		for _, rl := range returnLeaves(fn, ri) {
			n++
			call, _ := callOf(rl.v)
			switch {
			case call != nil && call == gcall:
			case call != nil && call.Call.StaticCallee() != nil:
				g := s.unwrap(call.Call.StaticCallee())
				deleg := false
				if g != nil && typeIs(recvType(g), s.channelT) {
					for f := range p.reachable(g) {
						if containsFn(a.dataSenders, f) {
							deleg = true
						}
					}
				}
				// and on the channel getOrBuildChannel returned
				if !deleg || gcall == nil || !errNilGuard(call.Block(), gcall) {
					ok = false
				}
			default:
				ok = false
			}
		}
		r.Check(R4, "func "+fnName(fn)+" / result", p.pos(fn.Pos()), ok && n >= 2, "success is reported only by the established-state write of the channel obtained from getOrBuildChannel")
	}
	_ = types.Typ
	r.Import(s, "C12", "R1", "R7", "a send reports success only if the whole envelope was written: the TCP write wrapper resumes after a transient timeout with the unsent remainder and every return reports the accumulated count — never a short count with a nil error, which encoding/json ignores", 2)
}

// backSlice collects the values v depends on through arithmetic/conversion/call-argument edges (bounded).
func backSlice(v ssa.Value, depth int) []ssa.Value {
	var out []ssa.Value
	seen := map[ssa.Value]bool{}
	var rec func(v ssa.Value, d int)
	rec = func(v ssa.Value, d int) {
		if v == nil || seen[v] || d > depth {
			return
		}
		seen[v] = true
		out = append(out, v)
		switch x := v.(type) {
		case *ssa.BinOp:
			rec(x.X, d+1)
			rec(x.Y, d+1)
		case *ssa.UnOp:
			rec(x.X, d+1)
		case *ssa.Convert:
			rec(x.X, d+1)
		case *ssa.ChangeType:
			rec(x.X, d+1)
		case *ssa.Call:
			for _, a := range x.Call.Args {
				rec(a, d+1)
			}
		case *ssa.Phi:
			for _, e := range x.Edges {
				if _, isBin := e.(*ssa.BinOp); !isBin {
					rec(e, d+1)
				}
			}
		}
	}
	rec(v, 0)
	return out
}

func pathHasField(ap AP, f *types.Var) bool {
	for _, x := range ap.Fields {
		if x == f {
			return true
		}
	}
	return false
}
