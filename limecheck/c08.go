package main

import (
	"fmt"
	"go/token"
	"sort"

	"golang.org/x/tools/go/ssa"
)

func init() {
	register("C08", "panics inside user-supplied selectors/authenticators (excluded by the statement; the default CompSelector indexes options[0] and panics on an empty offer — a library-provided callback, noted, not armed); blocking behaviour when the server skips the confirmation (C15)", c08)
}

// clientReadWrapper: the ClientChannel method that calls the handshake read and folds the reply into the channel.
func clientReadWrapper(s *Sem) *ssa.Function {
	a := s.anchors()
	for _, fn := range s.p.LimeFuncs() {
		if s.recvKind(fn) != "client" || fn.Parent() != nil {
			continue
		}
		calls := false
		eachCall(fn, func(c ssa.CallInstruction) {
			if containsFn(a.sessionReaders, staticCallee(c)) {
				calls = true
			}
		})
		if calls {
			return fn
		}
	}
	return nil
}

// returnsReadResult: g returns (as result #0) only what the client read wrapper returned (or nil).
func returnsReadResult(g, wrapper *ssa.Function, depth int) bool {
	if g == wrapper {
		return true
	}
	if depth > 3 || g == nil || len(g.Blocks) == 0 {
		return false
	}
	n := 0
	for _, rl := range returnLeaves(g, 0) {
		if isNilConst(rl.v) {
			continue
		}
		n++
		call, idx := callOf(rl.v)
		if call == nil || idx != 0 || !returnsReadResult(call.Call.StaticCallee(), wrapper, depth+1) {
			return false
		}
	}
	return n > 0
}

func c08(r *Report, s *Sem) {
	p := r.P
	a := s.anchors()
	R1 := r.Rule("R1", "panic inventory of the client handshake (roots ClientChannel.EstablishSession, Client.buildChannel): every reachable explicit panic is a listed caller-contract panic, and the state setter's monotonicity panic is never reachable with a peer-supplied state unless dominated by the edge Step(new) >= Step(current)", 5)
	R2 := r.Rule("R2", "truthfulness: the session EstablishSession returns is the result of the most recent handshake read on that path (no read result is discarded), and the client publishes the channel only on the edge State == established of that very value", 3)
	R3 := r.Rule("R3", "adoption: on client channels the local/remote node are stored only by the read wrapper from the reply's To/From on its State == established edge, and the session id only there, from the reply's ID, on every successful read", 3)
	R4 := r.Rule("R4", "echo: every session envelope a ClientChannel emits after the initial 'new' carries ID ← channel.sessionID", 3)
	R5 := r.Rule("R5", "credentials are put into an envelope only by a function that requires the channel state 'authenticating', called only on the edge where the latest reply's State == authenticating", 2)
	R6 := r.Rule("R6", "the read wrapper closes the transport on every path on which the reply's state is finished or failed, and on a rejected regression", 3)

	R8 := r.Rule("R8", "no use of a transport the read wrapper may have closed: in the client's establishment (a) the transport is upgraded only under the fact that the reply supplying the option is in state negotiating — a finished/failed/regressing reply has already closed the connection, and SetEncryption on a closed TCP transport dereferences nil — and (b) on the error edge of a handshake read nothing is invoked on the transport except Close/Connected (RemoteAddr on a closed WebSocket transport dereferences nil)", 3)
	defer checkNoUseOfClosedTransport(r, s, R8)
	est := p.Method("ClientChannel", "EstablishSession")
	build := p.Method("Client", "buildChannel")
	wrapper := clientReadWrapper(s)
	if est == nil || build == nil || wrapper == nil {
		r.Undecided(R1, "anchor-unresolved:client handshake", "-", "ClientChannel.EstablishSession / Client.buildChannel / read wrapper not found")
		return
	}

	// ---- R1
	// user-supplied callbacks are excluded by the statement ("given selector and authenticator callbacks that themselves
	// return normally"): do not follow dynamic calls of selector/authenticator/transport-factory values
	isUserCallback := func(site ssa.CallInstruction) bool {
		if site == nil || site.Common().IsInvoke() || staticCallee(site) != nil {
			return false
		}
		if n := namedOf(site.Common().Value.Type()); n != nil {
			switch n.Obj().Name() {
			case "Authenticator", "CompressionSelector", "EncryptionSelector":
				return true
			}
		}
		if f := pathOf(site.Common().Value).Last(); f != nil && f.Name() == "NewTransport" {
			return true
		}
		return false
	}
	reach := map[*ssa.Function]bool{}
	var visit func(f *ssa.Function)
	visit = func(f *ssa.Function) {
		if f == nil || reach[f] {
			return
		}
		if f.Pkg != p.Lime && f.Pkg != p.Chat && !(f.Synthetic != "" && f.Pkg == nil) {
			return
		}
		reach[f] = true
		if n := p.CG.Nodes[f]; n != nil {
			for _, e := range n.Out {
				if isUserCallback(e.Site) {
					r.Note("not followed (callback excluded by the statement): %s at %s → %s", describe(e.Site.Common().Value), p.instrPos(e.Site), fnName(e.Callee.Func))
					continue
				}
				visit(e.Callee.Func)
			}
		}
	}
	visit(est)
	visit(build)
	var fns []*ssa.Function
	for f := range reach {
		if f.Synthetic == "" && len(f.Blocks) > 0 {
			fns = append(fns, f)
		}
	}
	sort.Slice(fns, func(i, j int) bool { return fns[i].Pos() < fns[j].Pos() })
	contract := map[string]string{
		"the authenticator should not be nil": "caller contract: nil authenticator",
		"channel state is not new":            "caller contract: channel reused",
		"nil compression selector":            "caller contract: nil selector although negotiation is offered",
		"nil encrypt selector":                "caller contract: nil selector although negotiation is offered",
		"nil context":                         "caller contract: nil context",
		"transport cannot be nil":             "caller contract: transport factory returned nil without error",
		"nil conn":                            "caller contract",
		"nil read ctx":                        "caller contract: nil context",
		"nil write ctx":                       "caller contract: nil context",
		"nil envelope":                        "caller contract (the handshake always builds its envelopes)",
	}
	for _, fn := range fns {
		// transports' own dial/IO code is the transport properties' business
		eachInstr(fn, func(in ssa.Instruction) {
			pn, ok := in.(*ssa.Panic)
			if !ok {
				return
			}
			txt := panicText(pn)
			if !pn.Pos().IsValid() {
				return
			}
			construct := "func " + fnName(fn) + " / panic " + txt
			if s.stateSetters[fn] {
				return // handled below through its call sites
			}
			why, listed := "", false
			for k, v := range contract {
				if txt == fmt.Sprintf("%q", k) {
					why, listed = v, true
				}
			}
			if !listed && containsFn(a.dataSenders, fn) {
				why, listed = "caller contract: nil envelope (data path, not reachable from the handshake with peer data)", true
			}
			if !listed && fn.Name() == "processCommand" {
				why, listed = "caller contract of ProcessCommand (not part of the handshake)", true
			}
			if !listed && fn == a.receiver {
				why, listed = "receiver's default arm: discharged by C02.R3", true
			}
			if listed {
				r.Trivial(R1, construct, p.instrPos(in), true, why)
			} else {
				r.Check(R1, construct, p.instrPos(in), false, "explicit panic reachable from the client handshake and not a listed caller-contract panic")
			}
		})
	}
	for setter := range s.stateSetters {
		for _, c := range p.callersOf(setter) {
			caller := c.Parent()
			if !reach[caller] && !reach[topLevel(caller)] {
				continue
			}
			arg := c.Common().Args[len(c.Common().Args)-1]
			if _, isConst := stripConv(arg).(*ssa.Const); isConst {
				continue
			}
			// wrappers forwarding their own parameter: judge their call sites
			sites := []ssa.CallInstruction{c}
			if pr, ok := stripConv(arg).(*ssa.Parameter); ok && pr.Parent() == caller {
				sites = nil
				idx := paramIndex(pr)
				for _, c2 := range p.callersOf(caller) {
					if !reach[c2.Parent()] {
						continue
					}
					a2 := c2.Common().Args[idx]
					if _, isConst := stripConv(a2).(*ssa.Const); isConst {
						continue
					}
					sites = append(sites, c2)
				}
			}
			for _, site := range sites {
				args := site.Common().Args
				av := args[len(args)-1]
				ok := regressionGuarded(s, site.Block(), av)
				r.Check(R1, "func "+fnName(site.Parent())+" / peer state reaches the state setter", p.instrPos(site), ok,
					"a server may answer with an earlier state; without the guard Step(reply) >= Step(current) the monotonicity panic fires in the caller's goroutine")
			}
		}
	}

	checkReaderNeverNilNil(r, s, R1)

	// ---- R2
	nReads := 0
	okUsed := true
	var readCalls []*ssa.Call
	eachInstr(est, func(in ssa.Instruction) {
		c, ok := in.(*ssa.Call)
		if !ok {
			return
		}
		g := c.Call.StaticCallee()
		if g == nil || s.recvKind(g) != "client" || !returnsReadResult(g, wrapper, 0) {
			return
		}
		nReads++
		readCalls = append(readCalls, c)
		used := false
		for _, ref := range *c.Referrers() {
			if ex, ok := ref.(*ssa.Extract); ok && ex.Index == 0 && len(*ex.Referrers()) > 0 {
				used = true
			}
		}
		if !used {
			okUsed = false
			r.Check(R2, "func "+fnName(est)+" / read result discarded", p.instrPos(c), false, "a server reply is read and dropped, so what is returned is not the server's last word")
		}
	})
	okRet, nRet := true, 0
	for _, rl := range returnLeaves(est, 0) {
		if isNilConst(rl.v) {
			continue
		}
		nRet++
		call, idx := callOf(rl.v)
		isRead := false
		for _, rc := range readCalls {
			if call == rc && idx == 0 {
				isRead = true
			}
		}
		if !isRead {
			okRet = false
		}
	}
	r.Check(R2, "func "+fnName(est)+" / returns the latest reply", p.pos(est.Pos()), okRet && nRet > 0 && okUsed && nReads >= 3, fmt.Sprintf("%d read call(s), %d returned value source(s); every returned session must be the result of a handshake read", nReads, nRet))
	// no read can follow the last assignment: every path from a read call to a success return either returns that call's
	// result or passes another read
	for _, rc := range readCalls {
		bad := false
		walkFrom(est, rc, walkOpts{
			barrier: func(in ssa.Instruction) bool {
				for _, o := range readCalls {
					if in == ssa.Instruction(o) && o != rc {
						return true
					}
				}
				return false
			},
			onExit: func(e ssa.Instruction, pred *ssa.BasicBlock) {
				ret, ok := e.(*ssa.Return)
				if !ok || isNilConst(ret.Results[0]) {
					return
				}
				// resolve the returned value along pred
				v := ret.Results[0]
				if ph, ok := v.(*ssa.Phi); ok && ph.Block() == ret.Block() {
					for i, pb := range ph.Block().Preds {
						if pb == pred {
							v = ph.Edges[i]
						}
					}
				}
				okv := false
				for _, l := range leaves(v) {
					if call, idx := callOf(l); call == rc && idx == 0 {
						okv = true
					}
				}
				if !okv && !retIsError(ret) {
					bad = true
				}
			}})
		r.Check(R2, "func "+fnName(est)+" / reply of "+fnName(rc.Call.StaticCallee())+" is what is returned if no later read", p.instrPos(rc), !bad, "a path returns an older session after this read")
	}
	checkBuilderPublishesEstablished(r, s, R2, build, est)

	// ---- R3
	var clientFns []*ssa.Function
	for _, fn := range p.LimeFuncs() {
		if s.recvKind(fn) == "client" {
			clientFns = append(clientFns, fn)
		}
	}
	var reply ssa.Value
	eachInstr(wrapper, func(in ssa.Instruction) {
		if c, ok := in.(*ssa.Call); ok && containsFn(a.sessionReaders, c.Call.StaticCallee()) {
			for _, ref := range *c.Referrers() {
				if ex, ok := ref.(*ssa.Extract); ok && ex.Index == 0 {
					reply = ex
				}
			}
		}
	})
	estEdge := func(b *ssa.BasicBlock) bool {
		return condGuard(b, func(cd Cond) bool {
			if cd.Op != token.EQL {
				return false
			}
			x, y := cd.X, cd.Y
			if _, isC := stripConv(x).(*ssa.Const); isC {
				x, y = y, x
			}
			cs, ok := constString(stripConv(y))
			return ok && cs == "established" && reply != nil && fieldOf(x, reply, "State")
		})
	}
	for _, f := range []struct {
		fld  interface{}
		name string
		src  string
	}{{nil, "localNode", "To"}, {nil, "remoteNode", "From"}} {
		fld := s.localNodeF
		if f.name == "remoteNode" {
			fld = s.remoteNodeF
		}
		ok, n := true, 0
		for _, st := range fieldStores(clientFns, fld) {
			n++
			if st.Parent() != wrapper || !fieldOf(st.Val, reply, f.src) || !estEdge(st.Block()) {
				ok = false
			}
			// … and on nothing else about the channel: a store also conditioned on the previous state (adopt only on the
			// transition) keeps the nodes of an earlier envelope when the establishment is reported with a later one
			for _, me := range mustEdges(st.Block()) {
				for _, cd := range impliedConds(ifOf(me.from), me.succ == 0) {
					for _, v := range []ssa.Value{cd.X, cd.Y, cd.Val} {
						if v != nil && s.isStateRead(stripConv(v)) {
							ok = false
						}
					}
				}
			}
		}
		r.Check(R3, "client channel."+f.name+" / adopted from the established reply's "+f.src, p.pos(wrapper.Pos()), ok && n == 1, fmt.Sprintf("%d client-side store(s); each must be in the read wrapper, from reply.%s, on the State == established edge", n, f.src))
	}
	okID, nID := true, 0
	for _, st := range fieldStores(clientFns, s.sessionIDF) {
		nID++
		if st.Parent() != wrapper || !fieldOf(st.Val, reply, "ID") {
			okID = false
		}
		// on every successful read: the store dominates every return of a non-nil session
		for _, rl := range returnLeaves(wrapper, 0) {
			if !isNilConst(rl.v) && !instrDominates(st, rl.in) {
				okID = false
			}
		}
	}
	r.Check(R3, "client channel.sessionID / adopted from every reply", p.pos(wrapper.Pos()), okID && nID == 1, fmt.Sprintf("%d client-side store(s)", nID))

	// ---- R4
	for _, e := range sessionEmissions(s, "client") {
		if e.alloc == nil {
			r.Check(R4, "func "+fnName(e.fn)+" / emitted session", p.instrPos(e.call), false, "not a Session literal")
			continue
		}
		state := ""
		for _, st := range storesInto(e.alloc, "State") {
			state, _ = constString(stripConv(st.Val))
		}
		if state == "new" {
			r.Trivial(R4, "func "+fnName(e.fn)+" / emits new (no id yet)", p.instrPos(e.call), len(storesInto(e.alloc, "Envelope", "ID")) == 0, "the first envelope carries no id")
			continue
		}
		sts := storesInto(e.alloc, "Envelope", "ID")
		ok := len(sts) > 0
		for _, st := range sts {
			for _, l := range leaves(st.Val) {
				if pathOf(l).Last() != s.sessionIDF {
					ok = false
				}
			}
		}
		r.Check(R4, "func "+fnName(e.fn)+" / emits "+state+" with the channel's session id", p.instrPos(e.call), ok, "ID must be channel.sessionID, i.e. the id of the server's latest envelope (R3)")
	}

	// ---- R5
	authF := p.Field("Session", "Authentication")
	setAuth := p.Method("Session", "SetAuthentication")
	var credFns []*ssa.Function
	for _, fn := range clientFns {
		puts := false
		eachInstr(fn, func(in ssa.Instruction) {
			switch x := in.(type) {
			case *ssa.Store:
				if fa, ok := x.Addr.(*ssa.FieldAddr); ok && structField(fa.X.Type(), fa.Field) == authF {
					puts = true
				}
			case ssa.CallInstruction:
				if staticCallee(x) == setAuth && setAuth != nil {
					puts = true
				}
			}
		})
		if puts {
			credFns = appendFn(credFns, fn)
		}
	}
	r.Check(R5, "client functions that put credentials into an envelope", "-", len(credFns) == 1, fmt.Sprintf("%d function(s)", len(credFns)))
	for _, cf := range credFns {
		for _, e := range sessionEmissions(s, "client") {
			if e.fn != cf {
				continue
			}
			atoms := s.AtomsAt(e.call)
			r.Check(R5, "func "+fnName(cf)+" / requires state authenticating", p.instrPos(e.call), hasAtom(atoms, "state==", "authenticating"), "facts at the send: "+atomsString(atoms))
		}
		for _, c := range p.callersOf(cf) {
			// the reply tested is the latest: the value whose State guards the call
			ok := condGuard(c.Block(), func(cd Cond) bool {
				if cd.Op != token.EQL {
					return false
				}
				x, y := cd.X, cd.Y
				if _, isC := stripConv(x).(*ssa.Const); isC {
					x, y = y, x
				}
				cs, isC := constString(stripConv(y))
				ap := pathOf(x)
				if !isC || cs != "authenticating" || ap.Last() == nil || ap.Last().Name() != "State" {
					return false
				}
				// root: results of read calls only
				for _, l := range leaves(ap.Root) {
					call, idx := callOf(l)
					isRead := false
					for _, rc := range readCalls {
						if call == rc && idx == 0 {
							isRead = true
						}
					}
					if !isRead {
						return false
					}
				}
				return true
			})
			r.Check(R5, "func "+fnName(c.Parent())+" / credentials only in answer to an authentication request", p.instrPos(c), ok, "the call must be dominated by the edge latestReply.State == authenticating")
		}
	}

	// ---- R6
	if reply == nil {
		r.Undecided(R6, "func "+fnName(wrapper)+" / reply", p.pos(wrapper.Pos()), "reply value not found")
		return
	}
	var readCall ssa.Instruction
	if ex, ok := reply.(*ssa.Extract); ok {
		readCall = ex.Tuple.(*ssa.Call)
	}
	for _, T := range []string{"finished", "failed"} {
		bad := 0
		walkFrom(wrapper, readCall, walkOpts{
			barrier: func(in ssa.Instruction) bool {
				c, ok := in.(ssa.CallInstruction)
				return ok && s.isTransportCall(c, "Close")
			},
			cutEdge: func(from *ssa.BasicBlock, k int) bool {
				ifi := ifOf(from)
				if ifi == nil {
					return false
				}
				if isNil, ok := errTestOf(ifi, k == 0, readCall); ok && !isNil {
					return true
				}
				cd := condOn(ifi, k == 0)
				x, y := cd.X, cd.Y
				if x == nil || y == nil {
					return false
				}
				if _, isC := stripConv(x).(*ssa.Const); isC {
					x, y = y, x
				}
				cs, isC := constString(stripConv(y))
				if !isC || !fieldOf(x, reply, "State") {
					return false
				}
				return (cd.Op == token.EQL && cs != T) || (cd.Op == token.NEQ && cs == T)
			},
			onExit: func(e ssa.Instruction, pred *ssa.BasicBlock) { bad++ }})
		r.Check(R6, "func "+fnName(wrapper)+" / closes on a "+T+" reply", p.instrPos(readCall), bad == 0, fmt.Sprintf("%d exit(s) reachable with reply.State == %s without Transport.Close", bad, T))
	}
	// a rejected regression closes too: every error return after a successful read passes Close
	bad := 0
	walkFrom(wrapper, readCall, walkOpts{
		barrier: func(in ssa.Instruction) bool {
			c, ok := in.(ssa.CallInstruction)
			return ok && s.isTransportCall(c, "Close")
		},
		cutEdge: func(from *ssa.BasicBlock, k int) bool {
			ifi := ifOf(from)
			if ifi == nil {
				return false
			}
			isNil, ok := errTestOf(ifi, k == 0, readCall)
			return ok && !isNil
		},
		onExit: func(e ssa.Instruction, pred *ssa.BasicBlock) {
			if ret, ok := e.(*ssa.Return); ok && !retMayBeNilVia(ret, pred) {
				bad++
			}
		}})
	r.Check(R6, "func "+fnName(wrapper)+" / closes when it rejects a reply", p.instrPos(readCall), bad == 0, fmt.Sprintf("%d error exit(s) after a successful read without Transport.Close", bad))
	r.Import(s, "C13", "R9", "R7", "the session hand-off queue of a channel has constant capacity ≥ 1 whatever buffer size is configured: with an unbuffered queue a session envelope the server sends on its own after 'established' parks the client's receiver before it can fold the state or close the transport, and the client keeps reporting an established channel", 1)
}

func retIsError(ret *ssa.Return) bool {
	if len(ret.Results) == 0 {
		return false
	}
	return !retMayBeNil(ret)
}

// checkNoUseOfClosedTransport: C08.R8.
func checkNoUseOfClosedTransport(r *Report, s *Sem, R string) {
	p := r.P
	est := p.Method("ClientChannel", "EstablishSession")
	wrapper := clientReadWrapper(s)
	if est == nil || wrapper == nil {
		r.Undecided(R, "anchor-unresolved:client establishment / read wrapper", "-", "not found")
		return
	}
	// (a) upgrades under state == negotiating of the reply that supplies the value
	for _, set := range []string{"SetCompression", "SetEncryption"} {
		found := false
		eachInstr(est, func(in ssa.Instruction) {
			c, ok := in.(*ssa.Call)
			if !ok || !s.isTransportCall(c, set) {
				return
			}
			found = true
			arg := c.Call.Args[len(c.Call.Args)-1]
			root := pathOf(arg).Root
			guard := condGuard(c.Block(), func(cd Cond) bool {
				if cd.Op != token.EQL {
					return false
				}
				x, y := cd.X, cd.Y
				if _, isC := stripConv(x).(*ssa.Const); isC {
					x, y = y, x
				}
				cs, ok := constString(stripConv(y))
				if !ok || cs != "negotiating" {
					return false
				}
				ap := pathOf(x)
				return ap.Last() != nil && ap.Last().Name() == "State" && ap.Root == root
			})
			r.Check(R, "func "+fnName(est)+" / "+set+" only for a reply in state negotiating", p.instrPos(c), guard, "the option comes from "+describe(root)+"; without the state test a terminal reply (whose handling closed the transport) still triggers the upgrade")
		})
		if !found {
			r.Undecided(R, "func "+fnName(est)+" / "+set, p.pos(est.Pos()), "no call found")
		}
	}
	// (b) on the error edge of a read (a call that reaches the wrapper) only Close/Connected on the transport
	n := 0
	reachW := func(g *ssa.Function) bool { return g == wrapper || p.reachable(g)[wrapper] }
	eachInstr(est, func(in ssa.Instruction) {
		c, ok := in.(*ssa.Call)
		if !ok {
			return
		}
		g := c.Call.StaticCallee()
		if g == nil || !reachW(g) {
			return
		}
		n++
		bad := ""
		walkFrom(est, c, walkOpts{
			cutEdge: func(from *ssa.BasicBlock, k int) bool {
				ifi := ifOf(from)
				if ifi == nil {
					return false
				}
				isNil, ok := errTestOf(ifi, k == 0, c)
				return ok && isNil // stay on the error edge
			},
			barrier: func(x ssa.Instruction) bool {
				cc, ok := x.(ssa.CallInstruction)
				if !ok {
					return false
				}
				if g2 := staticCallee(cc); g2 != nil && reachW(g2) {
					return true // the next read starts a new obligation
				}
				if inv := invokeOn(cc, s.transportT); inv != "" && inv != "Close" && inv != "Connected" {
					bad = inv + " at " + p.instrPos(x)
				}
				return false
			}})
		r.Check(R, "func "+fnName(est)+" / after a failed read of "+fnName(g)+" the transport is only closed", p.instrPos(c), bad == "", "Transport."+bad+" is invoked on the error path: the read wrapper may already have closed the connection")
	})
	if n == 0 {
		r.Undecided(R, "func "+fnName(est)+" / handshake reads", p.pos(est.Pos()), "no call that reaches the read wrapper")
	}
}
