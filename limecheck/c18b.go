package main

import (
	"fmt"
	"go/token"
	"go/types"
	"strings"

	"golang.org/x/tools/go/ssa"
)

// checkNeverCopied: a value of the named struct type is never loaded, stored, passed or returned as a whole.
func checkNeverCopied(r *Report, R string, tt *types.Named, why string) {
	p := r.P
	if tt == nil {
		r.Undecided(R, "anchor-unresolved:type", "-", "not found")
		return
	}
	isT := func(t types.Type) bool { return types.Identical(t, tt) }
	copies := 0
	for _, fn := range p.LimeFuncs() {
		for _, prm := range fn.Params {
			if isT(prm.Type()) {
				copies++
				r.Check(R, "func "+fnName(fn)+" / parameter "+prm.Name()+" by value", p.pos(fn.Pos()), false, why)
			}
		}
		eachInstr(fn, func(in ssa.Instruction) {
			if v, ok := in.(ssa.Value); ok && isT(v.Type()) {
				if _, isCall := in.(*ssa.Call); isCall {
					return
				}
				copies++
				r.Check(R, "func "+fnName(fn)+" / "+tt.Obj().Name()+" value "+describe(v), p.instrPos(in), false, why)
			}
		})
	}
	// struct fields holding the type by value
	sc := p.LimeT.Scope()
	for _, name := range sc.Names() {
		tn, ok := sc.Lookup(name).(*types.TypeName)
		if !ok {
			continue
		}
		st, ok := tn.Type().Underlying().(*types.Struct)
		if !ok {
			continue
		}
		for i := 0; i < st.NumFields(); i++ {
			if isT(st.Field(i).Type()) {
				copies++
				r.Check(R, "type "+name+" / field "+st.Field(i).Name()+" holds a "+tt.Obj().Name()+" by value", p.pos(st.Field(i).Pos()), false, why)
			}
		}
	}
	r.Check(R, "type "+tt.Obj().Name()+" / only ever handled through pointers", "-", copies == 0, fmt.Sprintf("%d by-value use(s)", copies))
}

// checkUnregistersWhatItRegistered (C18.R12): a listener that registers itself in a package-level table in Listen removes,
// in Close, the entry under a field that Listen stores from the very key it registered under.
func checkUnregistersWhatItRegistered(r *Report, s *Sem, R string) {
	p := r.P
	tl := p.Type("TransportListener")
	if tl == nil {
		r.Undecided(R, "anchor-unresolved:TransportListener", "-", "not found")
		return
	}
	n := 0
	for _, closeFn := range p.Implementations(tl, "Close") {
		nt := namedOf(recvType(closeFn))
		if nt == nil {
			continue
		}
		listenFn := p.Method(nt.Obj().Name(), "Listen")
		if listenFn == nil {
			continue
		}
		// registrations in Listen
		var regKey ssa.Value
		var table *ssa.Global
		eachInstr(listenFn, func(in ssa.Instruction) {
			if mu, ok := in.(*ssa.MapUpdate); ok {
				if g, ok := pathOf(mu.Map).Root.(*ssa.Global); ok {
					regKey, table = mu.Key, g
				}
			}
		})
		if table == nil {
			continue
		}
		n++
		// the delete in Close
		var delKey ssa.Value
		for f := range p.reachable(closeFn) {
			eachCall(f, func(c ssa.CallInstruction) {
				if b, ok := c.Common().Value.(*ssa.Builtin); ok && b.Name() == "delete" {
					if g, ok := pathOf(c.Common().Args[0]).Root.(*ssa.Global); ok && g == table {
						delKey = c.Common().Args[1]
					}
				}
			})
		}
		if delKey == nil {
			r.Check(R, "func "+fnName(closeFn)+" / removes its registration", p.pos(closeFn.Pos()), false, "Listen registers the listener in "+table.Name()+" but Close never deletes from it")
			continue
		}
		fld := pathOf(delKey).Last()
		ok := false
		if fld != nil {
			for _, st := range fieldStores([]*ssa.Function{listenFn}, fld) {
				if stripConv(st.Val) == stripConv(regKey) {
					ok = true
				}
			}
		}
		r.Check(R, "func "+fnName(closeFn)+" / removes the entry Listen registered", p.pos(closeFn.Pos()), ok,
			"Close deletes under "+describe(delKey)+"; Listen must store the key it registers under ("+describe(regKey)+") into that field, or Close removes another listener's entry and leaves its own")
	}
	if n == 0 {
		r.Undecided(R, "listeners registering in a package-level table", "-", "none found (the in-process listener does)")
	}
}

// checkBuilderFailsOnlyWithContext (C19.R9): the function behind every client operation and behind the background
// listener's loop returns an error only when its context ended — any other error return lets the listener loop,
// which retries at once, spin without the back-off.
func checkBuilderFailsOnlyWithContext(r *Report, s *Sem, R string) {
	p := r.P
	gob := p.Method("Client", "getOrBuildChannel")
	if gob == nil {
		r.Undecided(R, "anchor-unresolved:Client.getOrBuildChannel", "-", "not found")
		return
	}
	n := 0
	for _, rl := range returnLeaves(gob, 1) {
		if isNilConst(stripConv(rl.v)) {
			continue
		}
		n++
		fromCtx := false
		for _, l := range backSlice(rl.v, 10) {
			if c, ok := l.(*ssa.Call); ok && c.Call.IsInvoke() && c.Call.Method.Name() == "Err" {
				if nm := namedOf(c.Call.Value.Type()); nm != nil && nm.Obj().Name() == "Context" && ctxFromParam(c.Call.Value, 0) {
					fromCtx = true
				}
			}
		}
		// varargs of fmt.Errorf: the wrapped operand
		if !fromCtx {
			if call, _ := callOf(rl.v); call != nil {
				for _, a := range call.Call.Args {
					for _, e := range sliceOriginsElems(a) {
						for _, l := range backSlice(stripConv(e), 8) {
							if c, ok := l.(*ssa.Call); ok && c.Call.IsInvoke() && c.Call.Method.Name() == "Err" {
								fromCtx = true
							}
						}
					}
				}
			}
		}
		r.Check(R, fmt.Sprintf("func %s / error return #%d is the context's error", fnName(gob), n), p.instrPos(rl.in), fromCtx,
			"the error is "+describe(rl.v)+": the listener goroutine calls this function in a loop that retries at once on error, so an error while the context is live makes it spin (and open connections back-to-back)")
	}
	if n == 0 {
		r.Undecided(R, "func "+fnName(gob)+" / error returns", p.pos(gob.Pos()), "none")
	}
}

// checkDoneTokenConsumers (C19.R10): a transport whose Close signals by sending a single token on a buffered channel
// (never closing it) has exactly one kind of consumer — its Receive. Any other receive steals the token and leaves the
// receiver goroutine parked on a closed transport: the client's listener never learns that the session is gone.
func checkDoneTokenConsumers(r *Report, s *Sem, R string) {
	p := r.P
	n := 0
	for _, cs := range p.chanSendSites(p.LimeFuncs()) {
		fn := topLevel(cs.in.Parent())
		if fn.Name() != "Close" || fn.Signature.Recv() == nil || !implementsTransport(s, fn.Signature.Recv().Type()) {
			continue
		}
		f := cs.field
		if f == nil {
			continue
		}
		closed := false
		for _, cc := range p.chanCloseSites(p.LimeFuncs()) {
			if cc.field == f {
				closed = true
			}
		}
		if closed {
			continue
		}
		n++
		bad := ""
		for _, g := range p.LimeFuncs() {
			eachInstr(g, func(in ssa.Instruction) {
				var ch ssa.Value
				switch x := in.(type) {
				case *ssa.UnOp:
					if x.Op == token.ARROW {
						ch = x.X
					}
				case *ssa.Select:
					for _, st := range x.States {
						if st.Dir == types.RecvOnly && pathOf(st.Chan).Last() == f {
							ch = st.Chan
						}
					}
				}
				if ch == nil || pathOf(ch).Last() != f {
					return
				}
				if topLevel(g).Name() != "Receive" {
					bad = fnName(g) + " at " + p.instrPos(in)
				}
			})
		}
		r.Check(R, "field "+f.Name()+" / the close token is consumed only by Receive", p.instrPos(cs.in), bad == "", "also received in "+bad+": whoever takes the single token first leaves the other waiter parked for ever")
	}
	if n == 0 {
		r.Undecided(R, "transports signalling Close with a token", "-", "none found (the in-process transport does)")
	}
}

// checkSendMutexOnlyForSending (C19.R11): the channel's send mutex is acquired only by functions that then call
// Transport.Send under it. Anything else that waits for it (Close, say) waits behind a send blocked on a peer that
// stopped reading — with no context to give up on — and the client's rebuild, which closes the dead channel while
// holding the lifetime lock, wedges every later operation.
func checkSendMutexOnlyForSending(r *Report, s *Sem, R string) {
	p := r.P
	a := s.anchors()
	if a.sendMu == nil {
		r.Undecided(R, "anchor-unresolved:send mutex", "-", "not found")
		return
	}
	n := 0
	for _, fn := range p.LimeFuncs() {
		eachCall(fn, func(c ssa.CallInstruction) {
			op, mu := mutexOp(c)
			if op != "Lock" || !(mu == a.sendMu.Name() || strings.HasSuffix(mu, "."+a.sendMu.Name())) {
				return
			}
			n++
			sends := false
			eachCall(fn, func(c2 ssa.CallInstruction) {
				if s.isTransportCall(c2, "Send") {
					sends = true
				}
			})
			r.Check(R, "func "+fnName(fn)+" / takes the send mutex only to send", p.instrPos(c), sends, "the function locks the send mutex but never calls Transport.Send: it can only be waiting behind someone else's blocked send")
		})
	}
	if n == 0 {
		r.Undecided(R, "send mutex / lock sites", "-", "none found")
	}
}

// checkNoRecursiveReadLock (C19.R12): no function calls, while holding a read lock, a function of the package that
// read-locks the same mutex again: a writer arriving between the two acquisitions blocks the inner one for ever
// (sync.RWMutex read locks are not re-entrant), and every later operation on the client queues behind it.
func checkNoRecursiveReadLock(r *Report, s *Sem, R string) {
	p := r.P
	locksOf := func(g *ssa.Function) map[string]bool {
		out := map[string]bool{}
		eachCall(g, func(c ssa.CallInstruction) {
			if _, isDefer := c.(*ssa.Defer); isDefer {
				return
			}
			if op, mu := mutexOp(c); op == "RLock" || op == "Lock" {
				out[mu] = true
			}
		})
		return out
	}
	n := 0
	for _, fn := range p.LimeFuncs() {
		hl := heldLocks(fn)
		eachCall(fn, func(c ssa.CallInstruction) {
			g := staticCallee(c)
			if g == nil || g.Pkg != p.Lime {
				return
			}
			held := hl[c.(ssa.Instruction)]
			if len(held) == 0 {
				return
			}
			// same receiver: the callee's receiver is the caller's receiver
			if len(g.Params) == 0 || len(fn.Params) == 0 || len(c.Common().Args) == 0 {
				return
			}
			same := false
			recv := stripConv(c.Common().Args[0])
			if recv == ssa.Value(fn.Params[0]) {
				same = true
			} else if u, ok := recv.(*ssa.UnOp); ok && u.Op == token.MUL {
				// the receiver spilled to a cell (captured by a closure)
				if al, ok := u.X.(*ssa.Alloc); ok {
					if sv := singleStore(al); sv != nil && stripConv(sv) == ssa.Value(fn.Params[0]) {
						same = true
					}
				}
			}
			if !same {
				return
			}
			inner := locksOf(g)
			for k := range held {
				mu := k[2:]
				if !inner[mu] {
					continue
				}
				n++
				r.Check(R, "func "+fnName(fn)+" / calls "+fnName(g)+" while holding "+k, p.instrPos(c), false, fnName(g)+" locks "+mu+" again on the same receiver: with a writer waiting in between, the second acquisition never succeeds")
			}
		})
	}
	r.Trivial(R, "nested acquisitions of one mutex on the same receiver", "-", true, fmt.Sprintf("%d found", n))
}

// checkSendPathReadsOnly (C17.R9): the channel's data sender hands the caller's envelope to the transport as it is — it
// invokes nothing on it and stores nothing into it (an address resolved in place sticks to the envelope object, and the
// next session it is sent on receives the first session's address).
func checkSendPathReadsOnly(r *Report, s *Sem, R string) {
	p := r.P
	a := s.anchors()
	n := 0
	for _, fn := range a.dataSenders {
		var env *ssa.Parameter
		for _, pr := range fn.Params {
			if _, isIface := pr.Type().Underlying().(*types.Interface); isIface {
				if nm := namedOf(pr.Type()); nm != nil && nm.Obj().Pkg() == p.LimeT && nm.Obj().Name() != "Transport" {
					env = pr
				}
			}
		}
		if env == nil {
			continue
		}
		n++
		bad := ""
		eachCall(fn, func(c ssa.CallInstruction) {
			if c.Common().IsInvoke() && stripConv(c.Common().Value) == ssa.Value(env) {
				bad = "invokes " + c.Common().Method.Name() + " on the envelope at " + p.instrPos(c)
			}
		})
		r.Check(R, "func "+fnName(fn)+" / the envelope is handed to the transport untouched", p.pos(fn.Pos()), bad == "", bad)
	}
	if n == 0 {
		r.Undecided(R, "data senders with an envelope parameter", "-", "none found")
	}
}
