package main

import (
	"fmt"
	"go/token"
	"go/types"

	"golang.org/x/tools/go/ssa"
)

// checkNeverCopied: a value of the named struct type is never loaded, stored, passed or returned as a whole.
func checkNeverCopied(r *Report, R string, tt *types.Named, why string) {
	p := r.P
	if tt == nil {
		r.Undecided(R, "anchor-unresolved:type", "-", "not found")
		return
	}
	isT := func(t types.Type) bool { return types.Identical(t, tt) }
	copies := 0
	for _, fn := range p.LimeFuncs() {
		for _, prm := range fn.Params {
			if isT(prm.Type()) {
				copies++
				r.Check(R, "func "+fnName(fn)+" / parameter "+prm.Name()+" by value", p.pos(fn.Pos()), false, why)
			}
		}
		eachInstr(fn, func(in ssa.Instruction) {
			if v, ok := in.(ssa.Value); ok && isT(v.Type()) {
				if _, isCall := in.(*ssa.Call); isCall {
					return
				}
				copies++
				r.Check(R, "func "+fnName(fn)+" / "+tt.Obj().Name()+" value "+describe(v), p.instrPos(in), false, why)
			}
		})
	}
	// struct fields holding the type by value
	sc := p.LimeT.Scope()
	for _, name := range sc.Names() {
		tn, ok := sc.Lookup(name).(*types.TypeName)
		if !ok {
			continue
		}
		st, ok := tn.Type().Underlying().(*types.Struct)
		if !ok {
			continue
		}
		for i := 0; i < st.NumFields(); i++ {
			if isT(st.Field(i).Type()) {
				copies++
				r.Check(R, "type "+name+" / field "+st.Field(i).Name()+" holds a "+tt.Obj().Name()+" by value", p.pos(st.Field(i).Pos()), false, why)
			}
		}
	}
	r.Check(R, "type "+tt.Obj().Name()+" / only ever handled through pointers", "-", copies == 0, fmt.Sprintf("%d by-value use(s)", copies))
}

// checkUnregistersWhatItRegistered (C18.R12): a listener that registers itself in a package-level table in Listen removes,
// in Close, the entry under a field that Listen stores from the very key it registered under.
func checkUnregistersWhatItRegistered(r *Report, s *Sem, R string) {
	p := r.P
	tl := p.Type("TransportListener")
	if tl == nil {
		r.Undecided(R, "anchor-unresolved:TransportListener", "-", "not found")
		return
	}
	n := 0
	for _, closeFn := range p.Implementations(tl, "Close") {
		nt := namedOf(recvType(closeFn))
		if nt == nil {
			continue
		}
		listenFn := p.Method(nt.Obj().Name(), "Listen")
		if listenFn == nil {
			continue
		}
		// registrations in Listen
		var regKey ssa.Value
		var table *ssa.Global
		eachInstr(listenFn, func(in ssa.Instruction) {
			if mu, ok := in.(*ssa.MapUpdate); ok {
				if g, ok := pathOf(mu.Map).Root.(*ssa.Global); ok {
					regKey, table = mu.Key, g
				}
			}
		})
		if table == nil {
			continue
		}
		n++
		// the delete in Close
		var delKey ssa.Value
		for f := range p.reachable(closeFn) {
			eachCall(f, func(c ssa.CallInstruction) {
				if b, ok := c.Common().Value.(*ssa.Builtin); ok && b.Name() == "delete" {
					if g, ok := pathOf(c.Common().Args[0]).Root.(*ssa.Global); ok && g == table {
						delKey = c.Common().Args[1]
					}
				}
			})
		}
		if delKey == nil {
			r.Check(R, "func "+fnName(closeFn)+" / removes its registration", p.pos(closeFn.Pos()), false, "Listen registers the listener in "+table.Name()+" but Close never deletes from it")
			continue
		}
		fld := pathOf(delKey).Last()
		ok := false
		if fld != nil {
			for _, st := range fieldStores([]*ssa.Function{listenFn}, fld) {
				if stripConv(st.Val) == stripConv(regKey) {
					ok = true
				}
			}
		}
		r.Check(R, "func "+fnName(closeFn)+" / removes the entry Listen registered", p.pos(closeFn.Pos()), ok,
			"Close deletes under "+describe(delKey)+"; Listen must store the key it registers under ("+describe(regKey)+") into that field, or Close removes another listener's entry and leaves its own")
	}
	if n == 0 {
		r.Undecided(R, "listeners registering in a package-level table", "-", "none found (the in-process listener does)")
	}
}

// checkBuilderFailsOnlyWithContext (C19.R9): the function behind every client operation and behind the background
// listener's loop returns an error only when its context ended — any other error return lets the listener loop,
// which retries at once, spin without the back-off.
func checkBuilderFailsOnlyWithContext(r *Report, s *Sem, R string) {
	p := r.P
	gob := p.Method("Client", "getOrBuildChannel")
	if gob == nil {
		r.Undecided(R, "anchor-unresolved:Client.getOrBuildChannel", "-", "not found")
		return
	}
	n := 0
	for _, rl := range returnLeaves(gob, 1) {
		if isNilConst(stripConv(rl.v)) {
			continue
		}
		n++
		fromCtx := false
		for _, l := range backSlice(rl.v, 10) {
			if c, ok := l.(*ssa.Call); ok && c.Call.IsInvoke() && c.Call.Method.Name() == "Err" {
				if nm := namedOf(c.Call.Value.Type()); nm != nil && nm.Obj().Name() == "Context" && ctxFromParam(c.Call.Value, 0) {
					fromCtx = true
				}
			}
		}
		// varargs of fmt.Errorf: the wrapped operand
		if !fromCtx {
			if call, _ := callOf(rl.v); call != nil {
				for _, a := range call.Call.Args {
					for _, e := range sliceOriginsElems(a) {
						for _, l := range backSlice(stripConv(e), 8) {
							if c, ok := l.(*ssa.Call); ok && c.Call.IsInvoke() && c.Call.Method.Name() == "Err" {
								fromCtx = true
							}
						}
					}
				}
			}
		}
		r.Check(R, fmt.Sprintf("func %s / error return #%d is the context's error", fnName(gob), n), p.instrPos(rl.in), fromCtx,
			"the error is "+describe(rl.v)+": the listener goroutine calls this function in a loop that retries at once on error, so an error while the context is live makes it spin (and open connections back-to-back)")
	}
	if n == 0 {
		r.Undecided(R, "func "+fnName(gob)+" / error returns", p.pos(gob.Pos()), "none")
	}
}

// checkDoneTokenConsumers (C19.R10): a transport whose Close signals by sending a single token on a buffered channel
// (never closing it) has exactly one kind of consumer — its Receive. Any other receive steals the token and leaves the
// receiver goroutine parked on a closed transport: the client's listener never learns that the session is gone.
func checkDoneTokenConsumers(r *Report, s *Sem, R string) {
	p := r.P
	n := 0
	for _, cs := range p.chanSendSites(p.LimeFuncs()) {
		fn := topLevel(cs.in.Parent())
		if fn.Name() != "Close" || fn.Signature.Recv() == nil || !implementsTransport(s, fn.Signature.Recv().Type()) {
			continue
		}
		f := cs.field
		if f == nil {
			continue
		}
		closed := false
		for _, cc := range p.chanCloseSites(p.LimeFuncs()) {
			if cc.field == f {
				closed = true
			}
		}
		if closed {
			continue
		}
		n++
		bad := ""
		for _, g := range p.LimeFuncs() {
			eachInstr(g, func(in ssa.Instruction) {
				var ch ssa.Value
				switch x := in.(type) {
				case *ssa.UnOp:
					if x.Op == token.ARROW {
						ch = x.X
					}
				case *ssa.Select:
					for _, st := range x.States {
						if st.Dir == types.RecvOnly && pathOf(st.Chan).Last() == f {
							ch = st.Chan
						}
					}
				}
				if ch == nil || pathOf(ch).Last() != f {
					return
				}
				if topLevel(g).Name() != "Receive" {
					bad = fnName(g) + " at " + p.instrPos(in)
				}
			})
		}
		r.Check(R, "field "+f.Name()+" / the close token is consumed only by Receive", p.instrPos(cs.in), bad == "", "also received in "+bad+": whoever takes the single token first leaves the other waiter parked for ever")
	}
	if n == 0 {
		r.Undecided(R, "transports signalling Close with a token", "-", "none found (the in-process transport does)")
	}
}
