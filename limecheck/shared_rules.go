package main

import (
	"fmt"
	"go/token"
	"go/types"
	"sort"
	"strings"

	"golang.org/x/tools/go/ssa"
)

// Rules shared by several properties. Each takes the report and the (already declared) rule id to file obligations
// under, so one analysis can serve every property whose statement contains the clause.

// ---------------------------------------------------------------------------------------------
// verbatim text parsing (C01)

// derivesVerbatim: v is built from the parser's input parameter only by splitting/slicing — no call may transform the
// characters on the way (case folding, trimming, MIME normalisation…).
func derivesVerbatim(v ssa.Value, param ssa.Value, d int) bool {
	if d > 12 {
		return false
	}
	ok, n := true, 0
	for _, l := range leaves(v) {
		n++
		l = stripConv(l)
		switch x := l.(type) {
		case *ssa.Parameter:
			if ssa.Value(x) != param {
				ok = false
			}
		case *ssa.Const:
			// defaults ("" for a missing part)
		case *ssa.Slice:
			if !derivesVerbatim(x.X, param, d+1) {
				ok = false
			}
		case *ssa.UnOp:
			if x.Op != token.MUL {
				ok = false
				break
			}
			ia, isIdx := x.X.(*ssa.IndexAddr)
			if !isIdx {
				ok = false
				break
			}
			call, _ := callOf(ia.X)
			if call == nil {
				ok = false
				break
			}
			g := call.Call.StaticCallee()
			if g == nil || g.Pkg == nil || g.Pkg.Pkg.Path() != "strings" || !(g.Name() == "Split" || g.Name() == "SplitN" || g.Name() == "SplitAfter" || g.Name() == "SplitAfterN") {
				ok = false
				break
			}
			if !derivesVerbatim(call.Call.Args[0], param, d+1) {
				ok = false
			}
		case *ssa.Extract:
			call, _ := callOf(x)
			if call == nil {
				ok = false
				break
			}
			g := call.Call.StaticCallee()
			if g == nil || g.Pkg == nil || g.Pkg.Pkg.Path() != "strings" || g.Name() != "Cut" || !derivesVerbatim(call.Call.Args[0], param, d+1) {
				ok = false
			}
		default:
			ok = false
		}
	}
	return ok && n > 0
}

// checkVerbatimParsers: every part a text-form parser returns is a verbatim piece of its input (or the result of another
// text-form parser applied to a verbatim piece).
func checkVerbatimParsers(r *Report, rule string) {
	p := r.P
	parsers := map[string]bool{"ParseNode": true, "ParseIdentity": true, "ParseMediaType": true}
	for _, name := range []string{"ParseNode", "ParseIdentity", "ParseMediaType"} {
		fn := p.Func(name)
		if fn == nil {
			r.Undecided(rule, "anchor-unresolved:"+name, "-", "exported parser not found")
			continue
		}
		param := ssa.Value(fn.Params[0])
		okAll, n := true, 0
		why := ""
		for _, rl := range returnLeaves(fn, 0) {
			// the returned struct: a load of a local composite, or a zero value on the error path
			u, ok := stripConv(rl.v).(*ssa.UnOp)
			if !ok {
				continue
			}
			al, ok := u.X.(*ssa.Alloc)
			if !ok {
				continue
			}
			var visit func(addr ssa.Value)
			visit = func(addr ssa.Value) {
				for _, ref := range *addr.Referrers() {
					switch x := ref.(type) {
					case *ssa.FieldAddr:
						visit(x)
					case *ssa.Store:
						if x.Addr != addr {
							continue
						}
						n++
						val := x.Val
						good := derivesVerbatim(val, param, 0)
						if !good {
							// a nested text form parsed by a sibling parser from a verbatim piece
							for _, l := range leaves(val) {
								if call, _ := callOf(l); call != nil {
									if g := call.Call.StaticCallee(); g != nil && parsers[g.Name()] && derivesVerbatim(call.Call.Args[0], param, 0) {
										good = true
									}
								}
								if uu, isU := stripConv(l).(*ssa.UnOp); isU {
									if a2, isA := uu.X.(*ssa.Alloc); isA {
										for _, r2 := range *a2.Referrers() {
											if st2, isS := r2.(*ssa.Store); isS && st2.Addr == ssa.Value(a2) {
												if call, _ := callOf(st2.Val); call != nil {
													if g := call.Call.StaticCallee(); g != nil && parsers[g.Name()] && derivesVerbatim(call.Call.Args[0], param, 0) {
														good = true
													}
												}
											}
										}
									}
								}
							}
						}
						if !good {
							okAll = false
							why = "a returned part is " + describe(val) + ": not a verbatim piece of the input"
						}
					}
				}
			}
			visit(al)
		}
		r.Check(rule, "func "+name+" / returned parts are verbatim pieces of the input", p.pos(fn.Pos()), okAll && n > 0,
			why+" — the printer writes the fields verbatim, so a parser that normalises (case folding, trimming, MIME parsing) cannot return the value that produced the text")
	}
}

// ---------------------------------------------------------------------------------------------
// fresh decode target (C01)

func checkFreshDecodeTarget(r *Report, s *Sem, rule string) {
	p := r.P
	for _, recv := range p.Implementations(s.transportT, "Receive") {
		for _, f := range withAnon(recv) {
			eachCall(f, func(c ssa.CallInstruction) {
				g := staticCallee(c)
				if g == nil || (g.Name() != "Decode" && g.Name() != "ReadJSON") {
					return
				}
				args := c.Common().Args
				tgt := stripConv(args[len(args)-1])
				al, isLocal := tgt.(*ssa.Alloc)
				var fld *ssa.FieldAddr
				if fa, ok := tgt.(*ssa.FieldAddr); ok && !isLocal {
					// a member of a local value declared for this call (a result struct of the helper goroutine)
					if base, ok := stripConv(fa.X).(*ssa.Alloc); ok && base.Parent() == f {
						al, isLocal, fld = base, true, fa
					}
				}
				fresh := isLocal
				if isLocal {
					for _, ref := range *al.Referrers() {
						switch x := ref.(type) {
						case *ssa.Store:
							if x.Addr == ssa.Value(al) && !reachesInstr(c, x) {
								fresh = false // pre-filled before decoding
							}
						case *ssa.FieldAddr:
							if fld != nil && x.Field == fld.Field {
								for _, r2 := range *x.Referrers() {
									if st, ok := r2.(*ssa.Store); ok && st.Addr == ssa.Value(x) && !reachesInstr(c, st) {
										fresh = false
									}
								}
							}
						}
					}
					if reachesInstr(c, c) {
						fresh = false // decoded into repeatedly inside a loop without re-declaration
					}
				}
				r.Check(rule, "func "+fnName(f)+" / decodes into a fresh wire struct", p.instrPos(c), fresh,
					"the decode target is "+describe(tgt)+"; state that survives a Receive (a field, a reused variable) lets members of a rejected or previous envelope leak into the next one (encoding/json leaves absent members untouched)")
			})
		}
	}
}

// ---------------------------------------------------------------------------------------------
// co-presence symmetry between encoder and decoder (C01, C02)

// presenceGuards returns, for the block of a store, the names of the fields of `root`'s struct whose presence
// (`!= nil`, `!= ""`, `!= zero`) every path to the block has established.
func presenceGuards(b *ssa.BasicBlock, root ssa.Value) map[string]bool {
	out := map[string]bool{}
	for _, e := range mustEdges(b) {
		for _, cd := range impliedConds(ifOf(e.from), e.succ == 0) {
			if cd.Op != token.NEQ {
				continue
			}
			x, y := cd.X, cd.Y
			if isZeroish(x) {
				x, y = y, x
			}
			if !isZeroish(y) {
				continue
			}
			ap := pathOf(x)
			if ap.Root == root && ap.Last() != nil {
				out[ap.Last().Name()] = true
			}
		}
	}
	return out
}

func isZeroish(v ssa.Value) bool {
	v = stripConv(v)
	c, ok := v.(*ssa.Const)
	if !ok {
		return false
	}
	if c.Value == nil {
		return true
	}
	s := c.Value.ExactString()
	return s == `""` || s == "0"
}

func checkCoPresence(r *Report, rule string) {
	p := r.P
	for _, cp := range codecPairs(p) {
		// encoder: wire field name -> guards (intersection over its stores)
		enc := map[string]map[string]bool{}
		var wireRoots []ssa.Value
		eachInstr(cp.Enc, func(in ssa.Instruction) {
			st, ok := in.(*ssa.Store)
			if !ok {
				return
			}
			fa, ok := st.Addr.(*ssa.FieldAddr)
			if !ok || !typeIs(fa.X.Type(), cp.W) {
				return
			}
			if isNilConst(st.Val) {
				return
			}
			name := structField(fa.X.Type(), fa.Field).Name()
			g := presenceGuards(st.Block(), cp.Enc.Params[0])
			if prev, seen := enc[name]; seen {
				for k := range prev {
					if !g[k] {
						delete(prev, k)
					}
				}
			} else {
				enc[name] = g
			}
			wireRoots = append(wireRoots, fa.X)
		})
		// decoder: struct field name -> guards on wire fields
		dec := map[string]map[string]bool{}
		var rawParam ssa.Value
		for _, pr := range cp.Dec.Params {
			if typeIs(pr.Type(), cp.W) {
				rawParam = pr
			}
		}
		eachInstr(cp.Dec, func(in ssa.Instruction) {
			st, ok := in.(*ssa.Store)
			if !ok {
				return
			}
			fa, ok := st.Addr.(*ssa.FieldAddr)
			if !ok || !typeIs(fa.X.Type(), cp.T) {
				return
			}
			name := structField(fa.X.Type(), fa.Field).Name()
			g := presenceGuards(st.Block(), rawParam)
			if prev, seen := dec[name]; seen {
				for k := range prev {
					if !g[k] {
						delete(prev, k)
					}
				}
			} else {
				dec[name] = g
			}
		})
		var names []string
		for n := range enc {
			names = append(names, n)
		}
		sort.Strings(names)
		for _, n := range names {
			dg, decoded := dec[n]
			if !decoded {
				continue // field coverage is R1's business
			}
			var missing []string
			for g := range enc[n] {
				if g == n {
					continue
				}
				if !dg[g] {
					missing = append(missing, g)
				}
			}
			sort.Strings(missing)
			r.Check(rule, "type "+cp.name+" / field "+n+" co-presence", p.pos(cp.Dec.Pos()), len(missing) == 0,
				fmt.Sprintf("the encoder emits %q only together with %v, but the decoder stores it without requiring %v on the wire: an accepted envelope then re-encodes to something that decodes differently", n, keysOf(enc[n]), missing))
		}
	}
}

func keysOf(m map[string]bool) []string {
	var out []string
	for k := range m {
		out = append(out, k)
	}
	sort.Strings(out)
	return out
}

// ---------------------------------------------------------------------------------------------
// pending-entry cleanup (C04, C05): shared implementation lives in c05 (checkPendingCleanup)

// ---------------------------------------------------------------------------------------------
// terminal folding on the client (C06, C13)

// checkClientFoldsTerminal: in the receiver's session arm, on the client role, the received session's state is handed to
// the state setter (guarded only by the regression test), so a server-initiated finished/failed moves the client to the
// terminal state.
func checkClientFoldsTerminal(r *Report, s *Sem, rule string) {
	p := r.P
	a := s.anchors()
	if a.receiver == nil {
		r.Undecided(rule, "anchor-unresolved:receiver", "-", "not found")
		return
	}
	var ta *ssa.TypeAssert
	eachInstr(a.receiver, func(in ssa.Instruction) {
		if t, ok := in.(*ssa.TypeAssert); ok && t.CommaOk && typeIs(t.AssertedType, s.sessionT) {
			ta = t
		}
	})
	if ta == nil {
		r.Check(rule, "receiver / session arm", p.pos(a.receiver.Pos()), false, "the receiver has no arm for session envelopes")
		return
	}
	var ses ssa.Value
	for _, ref := range *ta.Referrers() {
		if ex, ok := ref.(*ssa.Extract); ok && ex.Index == 0 {
			ses = ex
		}
	}
	folded := false
	eachCall(a.receiver, func(c ssa.CallInstruction) {
		g := staticCallee(c)
		if g == nil || !(containsFn(a.setterLocked, g) || containsFn(a.setterFull, g)) {
			return
		}
		arg := c.Common().Args[len(c.Common().Args)-1]
		if ses != nil && fieldOf(arg, ses, "State") {
			// reachable for a terminal state: the only state-dependent guard may be the regression test
			folded = true
		}
	})
	r.Check(rule, "func "+fnName(a.receiver)+" / client folds a received session's state", p.instrPos(ta), folded,
		"a server-initiated finished/failed session must move the client channel to that state as soon as the receiver sees it; otherwise sends keep succeeding on a session the server has ended")
}

// checkTerminatingCallsTerminal: FinishSession / FailSession leave the channel terminal on every return on which the
// transport can still be used (abstract interpretation).
func checkTerminatingCallsTerminal(r *Report, s *Sem, rule string) {
	p := r.P
	h := newHS(s)
	for _, m := range []struct{ name, want string }{{"FinishSession", "finished"}, {"FailSession", "failed"}} {
		fn := p.Method("ServerChannel", m.name)
		if fn == nil {
			r.Undecided(rule, "anchor-unresolved:ServerChannel."+m.name, "-", "not found")
			continue
		}
		ok, detail := true, ""
		for _, st := range h.allStates {
			if !h.senderOK[st] || (m.name == "FinishSession" && st != "established") {
				continue
			}
			for _, o := range h.exec(fn, hsIn{S: st}) {
				if !o.Dead && o.S != m.want {
					ok = false
					detail = fmt.Sprintf("entered in %s, may return in state %s (errNil=%v)", st, o.S, o.ErrNil)
				}
			}
		}
		r.Check(rule, "func "+fnName(fn)+" / leaves the channel "+m.want+" whatever the write did", p.pos(fn.Pos()), ok,
			detail+" — a failed write of the terminal envelope must not leave the session looking established")
	}
}

// ---------------------------------------------------------------------------------------------
// id check after every session read (C07)

func checkIDAfterEveryRead(r *Report, s *Sem, rule string) {
	p := r.P
	a := s.anchors()
	authCalls := callbackCalls(p.LimeFuncs(), authSig)
	regCalls := callbackCalls(p.LimeFuncs(), registerSig)
	for _, fn := range p.LimeFuncs() {
		if s.recvKind(fn) != "server" || fn.Parent() != nil {
			continue
		}
		eachInstr(fn, func(in ssa.Instruction) {
			rd, ok := in.(*ssa.Call)
			if !ok {
				return
			}
			g := rd.Call.StaticCallee()
			if g == nil || (s.recvKind(g) != "server" && !containsFn(a.sessionReaders, g)) || g == fn {
				return
			}
			res := g.Signature.Results()
			if res.Len() != 2 || !typeIs(res.At(0).Type(), s.sessionT) || !readsPeer(s, g, 0) {
				return
			}
			ses := extractOf(rd, 0)
			if ses == nil {
				return
			}
			isIDRead := func(v ssa.Value) bool {
				ap := pathOf(v)
				if ap.Last() == nil || ap.Last().Name() != "ID" || pathHasField(ap, s.sessionIDF) {
					return false
				}
				for _, l := range leaves(ap.Root) {
					if l == ses {
						return true
					}
				}
				return false
			}
			var reached ssa.Instruction
			walkFrom(fn, rd, walkOpts{
				barrier: func(x ssa.Instruction) bool {
					c, isCall := x.(*ssa.Call)
					if !isCall || c == rd {
						return false
					}
					// a later read supersedes this one
					if g2 := c.Call.StaticCallee(); g2 != nil && (s.recvKind(g2) == "server" || containsFn(a.sessionReaders, g2)) {
						r2 := g2.Signature.Results()
						if r2.Len() == 2 && typeIs(r2.At(0).Type(), s.sessionT) && readsPeer(s, g2, 0) {
							return true
						}
					}
					for _, ac := range authCalls {
						if c == ac {
							reached = x
							return true
						}
					}
					for _, rc := range regCalls {
						if c == rc {
							reached = x
							return true
						}
					}
					if g2 := c.Call.StaticCallee(); g2 != nil && s.recvKind(g2) == "server" && emitsSession(s, g2, 0) {
						if onlyEmitsFailed(s, g2, 0) {
							return true // the failing answer (directly or through a helper)
						}
						reached = x
						return true
					}
					return false
				},
				cutEdge: func(from *ssa.BasicBlock, k int) bool {
					ifi := ifOf(from)
					if ifi == nil {
						return false
					}
					if isNil, ok := errTestOf(ifi, k == 0, rd); ok && !isNil {
						return true
					}
					for _, cd := range impliedConds(ifi, k == 0) {
						if cd.Op != token.EQL {
							continue
						}
						x, y := cd.X, cd.Y
						if !isIDRead(x) {
							x, y = y, x
						}
						if !isIDRead(x) {
							continue
						}
						// against the channel's id, or against "" for the very first envelope
						if pathOf(y).Last() == s.sessionIDF {
							return true
						}
						if cs, ok := constString(stripConv(y)); ok && cs == "" {
							return true
						}
					}
					return false
				}})
			_ = a
			ok2 := reached == nil
			where := ""
			if reached != nil {
				where = " (reaches " + p.instrPos(reached) + " unchecked)"
			}
			r.Check(rule, "func "+fnName(fn)+" / id of the reply to "+g.Name()+" checked before it is acted upon", p.instrPos(rd), ok2,
				"every client session envelope must have its id compared with the channel's id (empty for the first one) before any callback or non-failing emission"+where)
		})
	}
}

// readsPeer: g (transitively, static) returns what the handshake reader returned.
func readsPeer(s *Sem, g *ssa.Function, d int) bool {
	a := s.anchors()
	if d > 3 || g == nil || len(g.Blocks) == 0 {
		return false
	}
	if containsFn(a.sessionReaders, g) {
		return true
	}
	ok, n := true, 0
	for _, rl := range returnLeaves(g, 0) {
		if isNilConst(rl.v) {
			continue
		}
		n++
		call, idx := callOf(rl.v)
		if call == nil || idx != 0 {
			ok = false
			continue
		}
		c := call.Call.StaticCallee()
		if !(containsFn(a.sessionReaders, c) || readsPeer(s, c, d+1)) {
			ok = false
		}
	}
	return ok && n > 0
}

// emitsSession: g (transitively, static, bounded) calls the session sender.
func emitsSession(s *Sem, g *ssa.Function, d int) bool {
	a := s.anchors()
	if d > 3 || g == nil {
		return false
	}
	found := false
	eachCall(g, func(c ssa.CallInstruction) {
		c2 := staticCallee(c)
		if containsFn(a.sessionSenders, c2) {
			found = true
		} else if c2 != nil && c2.Pkg == s.p.Lime && s.recvKind(c2) != "" && emitsSession(s, c2, d+1) {
			found = true
		}
	})
	return found
}

// ---------------------------------------------------------------------------------------------
// the handshake reader never yields (nil, nil) (C06, C08)

func checkReaderNeverNilNil(r *Report, s *Sem, rule string) {
	p := r.P
	a := s.anchors()
	for _, rd := range a.sessionReaders {
		for _, rl := range returnLeaves(rd, 0) {
			if isNilConst(rl.v) {
				// nil session must come with a non-nil error
				if retMayBeNilVia(rl.in, nil) && len(returnLeavesOf(rl.in, 0)) == 1 {
					r.Check(rule, "func "+fnName(rd)+" / nil session with nil error", p.instrPos(rl.in), false, "callers dereference the session whenever the error is nil")
				}
				continue
			}
			v := stripConv(rl.v)
			ex, isEx := v.(*ssa.Extract)
			if !isEx {
				continue
			}
			sel, isSel := ex.Tuple.(*ssa.Select)
			var okVal ssa.Value
			if isSel {
				for _, ref := range *sel.Referrers() {
					if e2, ok := ref.(*ssa.Extract); ok && e2.Index == 1 {
						okVal = e2
					}
				}
			} else if u, isU := ex.Tuple.(*ssa.UnOp); isU && u.Op == token.ARROW && u.CommaOk {
				for _, ref := range *u.Referrers() {
					if e2, ok := ref.(*ssa.Extract); ok && e2.Index == 1 {
						okVal = e2
					}
				}
			} else {
				continue // the checked type assertion: C06.R3
			}
			guarded := okVal != nil && condGuard(rl.b, func(cd Cond) bool {
				if cd.Op != token.ILLEGAL || !cd.True {
					return false
				}
				e2, ok := stripConv(cd.Val).(*ssa.Extract)
				return ok && e2.Index == 1 && e2.Tuple == ex.Tuple
			})
			r.Check(rule, "func "+fnName(rd)+" / session taken from the stream only when the stream is open", p.instrPos(rl.in), guarded,
				"a receive from the closed session stream yields nil: returning it with a nil error makes the caller dereference a nil session (the receiver closes the stream when the connection drops)")
		}
		// a bare receive (no comma-ok at all)
		eachInstr(rd, func(in ssa.Instruction) {
			if u, ok := in.(*ssa.UnOp); ok && u.Op == token.ARROW && !u.CommaOk && typeIs(u.Type(), s.sessionT) {
				r.Check(rule, "func "+fnName(rd)+" / bare receive from the session stream", p.instrPos(in), false, "the stream is closed by the receiver on every exit")
			}
		})
	}
	_ = types.Typ
	_ = strings.Join
}

// ---------------------------------------------------------------------------------------------
// session stream capacity (C13)

func checkSessionStreamCapacity(r *Report, s *Sem, rule string) {
	p := r.P
	var sesStream *types.Var
	for _, f := range s.anchors().streams {
		if ch, ok := f.Type().Underlying().(*types.Chan); ok && typeIs(ch.Elem(), s.sessionT) {
			sesStream = f
		}
	}
	if sesStream == nil {
		r.Undecided(rule, "anchor-unresolved:session stream", "-", "no chan *Session field in channel")
		return
	}
	n := 0
	for _, st := range fieldStores(p.LimeFuncs(), sesStream) {
		n++
		mk, ok := stripConv(st.Val).(*ssa.MakeChan)
		capOK := false
		if ok {
			if k, isC := constInt(mk.Size); isC && k >= 1 {
				capOK = true
			}
		}
		r.Check(rule, "func "+fnName(st.Parent())+" / session stream has constant capacity ≥ 1", p.instrPos(st), capOK,
			"the receiver hands a session envelope over and must then exit; on the server nobody reads the stream while the dispatch loop waits for the receiver to be done, so an unbuffered (or configurable, possibly zero) stream deadlocks the teardown")
	}
	if n == 0 {
		r.Undecided(rule, "channel."+sesStream.Name()+" / creation", "-", "no store found")
	}
}

// ---------------------------------------------------------------------------------------------
// pending-entry cleanup (C04, also decided in more detail by C05.R2)

func pendingTableField(s *Sem) *types.Var {
	st, ok := s.channelT.Underlying().(*types.Struct)
	if !ok {
		return nil
	}
	for _, f := range flatStructFields(s.p, st) {
		if m, ok := f.Type().Underlying().(*types.Map); ok {
			if ch, ok := m.Elem().Underlying().(*types.Chan); ok && typeIs(ch.Elem(), s.p.Type("ResponseCommand")) {
				return f
			}
		}
	}
	return nil
}

// flatStructFields: the fields of st and, two levels deep, of its plain struct-typed fields declared in the package
// (a group of related fields moved into a small private type keeps its meaning).
func flatStructFields(p *Prog, st *types.Struct) []*types.Var {
	var flat []*types.Var
	var collect func(st *types.Struct, d int)
	collect = func(st *types.Struct, d int) {
		for i := 0; i < st.NumFields(); i++ {
			f := st.Field(i)
			flat = append(flat, f)
			if n := namedOf(f.Type()); n != nil && d < 2 && n.Obj().Pkg() == p.LimeT {
				if _, isPtr := f.Type().(*types.Pointer); isPtr {
					continue
				}
				if sub, ok := n.Underlying().(*types.Struct); ok {
					collect(sub, d+1)
				}
			}
		}
	}
	collect(st, 0)
	return flat
}

func checkPendingCleanup(r *Report, s *Sem, rule string) {
	p := r.P
	tableF := pendingTableField(s)
	if tableF == nil {
		r.Undecided(rule, "anchor-unresolved:pending table", "-", "no map[string]chan *ResponseCommand field in channel")
		return
	}
	isDelete := func(in ssa.Instruction) bool {
		ci, ok := in.(ssa.CallInstruction)
		if !ok {
			return false
		}
		b, ok := ci.Common().Value.(*ssa.Builtin)
		return ok && b.Name() == "delete" && readsField(ci.Common().Args[0], tableF)
	}
	n := 0
	for _, fn := range p.LimeFuncs() {
		if fn.Parent() != nil {
			continue
		}
		eachInstr(fn, func(in ssa.Instruction) {
			mu, ok := in.(*ssa.MapUpdate)
			if !ok || !readsField(mu.Map, tableF) {
				return
			}
			n++
			exits := walkFrom(fn, in, walkOpts{
				cutEdge: contradicts(in.Block()),
				barrier: func(x ssa.Instruction) bool {
					if _, isDefer := x.(*ssa.Defer); isDefer {
						return false
					}
					return isDelete(x)
				},
				deferBarrier: func(d *ssa.Defer) bool {
					var f *ssa.Function
					switch x := d.Call.Value.(type) {
					case *ssa.MakeClosure:
						f = x.Fn.(*ssa.Function)
					case *ssa.Function:
						f = x
					}
					if f == nil {
						return false
					}
					found := false
					eachInstr(f, func(y ssa.Instruction) {
						if isDelete(y) {
							found = true
						}
					})
					return found
				}})
			r.Check(rule, "func "+fnName(fn)+" / pending entry removed on every exit", p.instrPos(in), len(exits) == 0,
				fmt.Sprintf("%d exit(s) after registering the request leave its entry in the table: a response arriving later is pushed into the abandoned slot and reported as handled, so it reaches neither a caller nor the response stream", len(exits)))
		})
	}
	if n == 0 {
		r.Undecided(rule, "pending table / registration site", "-", "no insert into the pending table found")
	}
}

// ---------------------------------------------------------------------------------------------
// membership gates (C07, C09.R2, C10)

// offeredSetLookupGuard: block b is reached only through the ok edge of a lookup of ses.<field> in a map built only from
// elements of slice parameters of fn.
func offeredSetLookupGuard(b *ssa.BasicBlock, fn *ssa.Function, ses ssa.Value, field string) bool {
	// the offered list of the same kind as the member looked up ('none' is a name in both kinds: a set that mixes the
	// compression and the encryption offer accepts an encryption 'none' that was never offered)
	sameKind := func(pr *ssa.Parameter) bool {
		sl, ok := pr.Type().Underlying().(*types.Slice)
		if !ok {
			return false
		}
		n := namedOf(sl.Elem())
		if n == nil {
			return false
		}
		// the type of the member looked up (Session.<field>, possibly behind a pointer)
		if curProg != nil {
			if f := curProg.Field("Session", field); f != nil {
				ft := f.Type()
				if pt, ok := ft.(*types.Pointer); ok {
					ft = pt.Elem()
				}
				if fn := namedOf(ft); fn != nil {
					return fn.Obj() == n.Obj()
				}
			}
		}
		return n.Obj().Name() == "Session"+field
	}
	return condGuard(b, func(cd Cond) bool {
		// a hand-written scan: the edge `offered[i] == peer.field` for an element of the offered list handed to this function
		if cd.Op == token.EQL {
			x, y := cd.X, cd.Y
			if !fieldOf(x, ses, field) {
				x, y = y, x
			}
			if fieldOf(x, ses, field) {
				if pr := sliceElemParam(y); pr != nil && pr.Parent() == fn && sameKind(pr) {
					return true
				}
			}
		}
		if cd.Op != token.ILLEGAL || !cd.True {
			return false
		}
		// a membership test of the peer's value directly in the offered list handed to this function
		if call, _ := callOf(cd.Val); call != nil {
			if list, elem, isMember := membershipCall(curProg, call); isMember && fieldOf(elem, ses, field) {
				for _, o := range sliceOrigins(list) {
					if pr, isParam := stripConv(o).(*ssa.Parameter); !isParam || pr.Parent() != fn || !sameKind(pr) {
						return false
					}
				}
				return len(sliceOrigins(list)) > 0
			}
		}
		ex, ok := stripConv(cd.Val).(*ssa.Extract)
		if !ok || ex.Index != 1 {
			return false
		}
		lk, ok := ex.Tuple.(*ssa.Lookup)
		if !ok || !lk.CommaOk || !fieldOf(lk.Index, ses, field) {
			return false
		}
		mm, ok := stripConv(lk.X).(*ssa.MakeMap)
		if !ok {
			return false
		}
		n, okAll := 0, true
		for _, ref := range *mm.Referrers() {
			if mu, ok := ref.(*ssa.MapUpdate); ok {
				n++
				pr := sliceElemParam(mu.Key)
				if pr == nil || pr.Parent() != fn || !sameKind(pr) {
					okAll = false
				}
			}
		}
		return okAll && n > 0
	})
}

// checkNegotiationGate: the confirmation of a negotiation is sent only for a compression/encryption pair looked up in
// the offered sets.
func checkNegotiationGate(r *Report, s *Sem, rule string) {
	p := r.P
	na, why := negotiationAnchors(s)
	if na == nil {
		r.Undecided(rule, "anchor-unresolved:negotiation", "-", why)
		return
	}
	var C *ssa.Call
	eachInstr(na.negDriver, func(in ssa.Instruction) {
		if c, ok := in.(*ssa.Call); ok && c.Call.StaticCallee() == na.confirmFn {
			C = c
		}
	})
	var ses ssa.Value
	eachInstr(na.negDriver, func(in ssa.Instruction) {
		if c, ok := in.(*ssa.Call); ok && c.Call.StaticCallee() == na.optionsEmit.fn {
			ses = extractOf(c, 0)
		}
	})
	if C == nil || ses == nil {
		r.Undecided(rule, "func "+fnName(na.negDriver)+" / confirmation", p.pos(na.negDriver.Pos()), "confirmation call or peer reply not found")
		return
	}
	base := "func " + fnName(na.negDriver)
	for _, f := range []string{"Compression", "Encryption"} {
		r.Check(rule, base+" / confirmation only for "+strings.ToLower(f)+" ∈ offer", p.instrPos(C), offeredSetLookupGuard(C.Block(), na.negDriver, ses, f),
			"the confirmation (and the upgrade that follows) must sit on the ok edge of a lookup of the peer's "+strings.ToLower(f)+" in a set built only from the offered list; a value the transport merely supports, or an omitted one, was not offered")
	}
	pairOK := fieldOf(C.Call.Args[len(C.Call.Args)-2], ses, "Compression") && fieldOf(C.Call.Args[len(C.Call.Args)-1], ses, "Encryption")
	r.Check(rule, base+" / confirms the looked-up pair itself", p.instrPos(C), pairOK, "the values confirmed and applied must be the ones that were looked up in the offer")
	r.Check(rule, base+" / confirmation only for an answer in state negotiating", p.instrPos(C), peerStateGuard(C.Block(), ses, "negotiating"),
		"an answer to the options in any other state is out of order and must be refused with a failed session, not confirmed")
}

// peerStateGuard: b is reached only through the edge `ses.State == want` of the peer envelope ses.
func peerStateGuard(b *ssa.BasicBlock, ses ssa.Value, want string) bool {
	return condGuard(b, func(cd Cond) bool {
		if cd.Op != token.EQL {
			return false
		}
		x, y := cd.X, cd.Y
		if _, isC := stripConv(x).(*ssa.Const); isC {
			x, y = y, x
		}
		cs, ok := constString(stripConv(y))
		return ok && cs == want && fieldOf(x, ses, "State")
	})
}

// checkSchemeGate: the authentication callback runs only for a scheme looked up in the offered scheme set.
func checkSchemeGate(r *Report, s *Sem, rule string) {
	p := r.P
	authCalls := callbackCalls(p.LimeFuncs(), authSig)
	if len(authCalls) != 1 {
		r.Undecided(rule, "anchor-unresolved:authentication callback call", "-", fmt.Sprintf("%d call sites", len(authCalls)))
		return
	}
	A := authCalls[0]
	fn := A.Parent()
	var ses ssa.Value
	if len(A.Call.Args) == 3 {
		ses = pathOf(A.Call.Args[2]).Root
	}
	ok := ses != nil && offeredSetLookupGuard(A.Block(), fn, ses, "Scheme")
	r.Check(rule, "func "+fnName(fn)+" / credentials evaluated only for an offered scheme", p.instrPos(A), ok,
		"on every path (every round trip) the callback must sit on the ok edge of a lookup of the peer's scheme in the offered set")
	r.Check(rule, "func "+fnName(fn)+" / credentials evaluated only for an envelope in state authenticating", p.instrPos(A), ses != nil && peerStateGuard(A.Block(), ses, "authenticating"),
		"an envelope in any other state at this point is out of order and must be refused with a failed session")
}

// ---------------------------------------------------------------------------------------------
// closing really closes (C14, C13)

// nonNilFacts: facts that hold whenever fn returns a non-nil error.
func (s *Sem) nonNilFacts(fn *ssa.Function) []Atom {
	var sets [][]Atom
	ri := fn.Signature.Results().Len() - 1
	if ri < 0 {
		return nil
	}
	for _, rl := range returnLeaves(fn, ri) {
		if isNilConst(rl.v) {
			continue
		}
		sets = append(sets, s.atomsAt(rl.b, 0))
	}
	return intersectAtoms(sets)
}

// checkCloseReallyCloses: (a) every Transport.Close implementation with an underlying connection closes it on every
// path except where the handle itself is nil; (b) channel.Close reaches Transport.Close on every path.
func checkCloseReallyCloses(r *Report, s *Sem, rule string) {
	p := r.P
	for _, cl := range p.Implementations(s.transportT, "Close") {
		// underlying close: a call named Close on a field of the receiver
		var under []ssa.Instruction
		eachCall(cl, func(c ssa.CallInstruction) {
			name := ""
			var recv ssa.Value
			if c.Common().IsInvoke() {
				name, recv = c.Common().Method.Name(), c.Common().Value
			} else if g := staticCallee(c); g != nil && len(c.Common().Args) > 0 {
				name, recv = g.Name(), c.Common().Args[0]
			}
			if name != "Close" || recv == nil {
				return
			}
			ap := pathOf(recv)
			if ap.Root == ssa.Value(cl.Params[0]) && len(ap.Fields) == 1 {
				// not the peer transport of an in-process pair
				if typeIs(ap.Fields[0].Type(), namedOf(cl.Params[0].Type())) {
					return
				}
				under = append(under, c)
			}
		})
		if len(under) == 0 {
			r.Trivial(rule, "func "+fnName(cl)+" / no underlying connection handle", p.pos(cl.Pos()), true, "in-memory transport")
			continue
		}
		handleNil := func(atoms []Atom) bool {
			for _, a := range atoms {
				if a.Kind == "nil:" && !strings.Contains(a.Val, ".") {
					return true
				}
			}
			return false
		}
		bad := 0
		walkFrom(cl, nil, walkOpts{
			barrier: func(in ssa.Instruction) bool {
				for _, u := range under {
					if in == u {
						return true
					}
				}
				return false
			},
			cutEdge: func(from *ssa.BasicBlock, k int) bool {
				ifi := ifOf(from)
				if ifi == nil {
					return false
				}
				if handleNil(s.atomsOfBool(ifi.Cond, k == 0, 0)) {
					return true
				}
				if call, _, isNil, ok := errTest(ifi, k == 0); ok && !isNil {
					if g := call.Call.StaticCallee(); g != nil && g.Pkg == p.Lime && handleNil(s.nonNilFacts(g)) {
						return true
					}
				}
				return false
			},
			onExit: func(e ssa.Instruction, pred *ssa.BasicBlock) { bad++ }})
		r.Check(rule, "func "+fnName(cl)+" / closes the underlying connection unless the handle is nil", p.pos(cl.Pos()), bad == 0,
			fmt.Sprintf("%d exit(s) skip the underlying Close on a condition broader than 'handle == nil' (e.g. an end-of-stream flag): after the peer disconnected the socket is then never closed", bad))
		// (c) once the underlying close was attempted, the transport reports itself disconnected whatever that close returned
		connected := p.SSA.FuncValue(methodOf(namedOf(cl.Params[0].Type()), "Connected"))
		readByConnected := map[*types.Var]bool{}
		if connected != nil {
			eachInstr(connected, func(in ssa.Instruction) {
				if fa, ok := in.(*ssa.FieldAddr); ok {
					readByConnected[structField(fa.X.Type(), fa.Field)] = true
				}
			})
		}
		stale := 0
		for _, u := range under {
			walkFrom(cl, u, walkOpts{
				barrier: func(in ssa.Instruction) bool {
					st, ok := in.(*ssa.Store)
					if !ok {
						return false
					}
					fa, ok := st.Addr.(*ssa.FieldAddr)
					return ok && readByConnected[structField(fa.X.Type(), fa.Field)] && (isNilConst(st.Val) || isTrueConst(st.Val))
				},
				onExit: func(e ssa.Instruction, pred *ssa.BasicBlock) { stale++ }})
		}
		r.Check(rule, "func "+fnName(cl)+" / reports disconnected after closing, even when the close returned an error", p.pos(cl.Pos()), stale == 0 && connected != nil,
			fmt.Sprintf("%d exit(s) after the underlying Close leave the handle set: Connected() keeps answering true for a closed socket (e.g. tls.Conn.Close returns an error after a reset), so the channel still counts as established", stale))
	}
	if cc := p.Method("channel", "Close"); cc != nil {
		exits := walkFrom(cc, nil, walkOpts{barrier: func(in ssa.Instruction) bool {
			c, ok := in.(ssa.CallInstruction)
			if !ok {
				return false
			}
			if _, isDefer := in.(*ssa.Defer); isDefer {
				return false
			}
			return s.isTransportCall(c, "Close")
		}})
		r.Check(rule, "func "+fnName(cc)+" / always reaches Transport.Close", p.pos(cc.Pos()), len(exits) == 0,
			fmt.Sprintf("%d exit(s) skip Transport.Close: 'not connected' is not 'closed' (a TCP transport reports disconnected after the peer's EOF while its socket is still open)", len(exits)))
	} else {
		r.Undecided(rule, "anchor-unresolved:channel.Close", "-", "not found")
	}
}

func isTrueConst(v ssa.Value) bool {
	c, ok := stripConv(v).(*ssa.Const)
	return ok && c.Value != nil && c.Value.String() == "true"
}

func methodOf(n *types.Named, name string) *types.Func {
	if n == nil {
		return nil
	}
	for i := 0; i < n.NumMethods(); i++ {
		if n.Method(i).Name() == name {
			return n.Method(i)
		}
	}
	return nil
}

// pendingSlotsBuffered: every channel ever put into the pending-request table is made on the spot with constant
// capacity ≥ 1 (so the receiver's hand-off can never block).
func pendingSlotsBuffered(s *Sem) bool {
	tableF := pendingTableField(s)
	if tableF == nil {
		return false
	}
	ok, n := true, 0
	for _, fn := range s.p.LimeFuncs() {
		eachInstr(fn, func(in ssa.Instruction) {
			mu, isMU := in.(*ssa.MapUpdate)
			if !isMU || !readsField(mu.Map, tableF) {
				return
			}
			n++
			for _, l := range leaves(mu.Value) {
				mk, isMk := stripConv(l).(*ssa.MakeChan)
				if !isMk {
					// through a helper returning the channel
					if call, _ := callOf(l); call != nil {
						if g := call.Call.StaticCallee(); g != nil && g.Pkg == s.p.Lime {
							for _, rl := range returnLeaves(g, 0) {
								m2, ok2 := stripConv(rl.v).(*ssa.MakeChan)
								if !ok2 {
									ok = false
									continue
								}
								if k, isC := constInt(m2.Size); !isC || k < 1 {
									ok = false
								}
							}
							continue
						}
					}
					ok = false
					continue
				}
				if k, isC := constInt(mk.Size); !isC || k < 1 {
					ok = false
				}
			}
		})
	}
	return ok && n > 0
}

// onlyEmitsFailed: every session envelope g can emit (statically, bounded depth) has the constant state "failed".
func onlyEmitsFailed(s *Sem, g *ssa.Function, d int) bool {
	a := s.anchors()
	if d > 3 || g == nil {
		return false
	}
	ok, n := true, 0
	eachInstr(g, func(in ssa.Instruction) {
		c, isCall := in.(*ssa.Call)
		if !isCall {
			return
		}
		c2 := c.Call.StaticCallee()
		if containsFn(a.sessionSenders, c2) {
			n++
			st := ""
			for _, l := range leaves(c.Call.Args[len(c.Call.Args)-1]) {
				if al, isA := stripConv(l).(*ssa.Alloc); isA {
					for _, sto := range storesInto(al, "State") {
						st, _ = constString(stripConv(sto.Val))
					}
				}
			}
			if st != "failed" {
				ok = false
			}
			return
		}
		if c2 != nil && c2.Pkg == s.p.Lime && s.recvKind(c2) == "server" && emitsSession(s, c2, d+1) {
			n++
			if !onlyEmitsFailed(s, c2, d+1) {
				ok = false
			}
		}
	})
	return ok && n > 0
}

// ---------------------------------------------------------------------------------------------
// first-envelope rule (C07, C14)

// checkFirstEnvelopeGate: in the server handshake driver, negotiation and authentication are reachable only through
// the edges `first.ID == ""` and `first.State == "new"`, where first is the session envelope read first from the peer —
// the envelope's own fields, not the channel's state (which is always 'new' at that point).
func checkFirstEnvelopeGate(r *Report, s *Sem, rule string) {
	p := r.P
	a := s.anchors()
	na, why := negotiationAnchors(s)
	if na == nil {
		r.Undecided(rule, "anchor-unresolved:negotiation", "-", why)
		return
	}
	est := na.serverEst
	// the first read of the peer in the driver
	var first *ssa.Call
	eachInstr(est, func(in ssa.Instruction) {
		c, ok := in.(*ssa.Call)
		if !ok || first != nil {
			return
		}
		g := c.Call.StaticCallee()
		if g == nil || (s.recvKind(g) != "server" && !containsFn(a.sessionReaders, g)) {
			return
		}
		res := g.Signature.Results()
		if res.Len() == 2 && typeIs(res.At(0).Type(), s.sessionT) && readsPeer(s, g, 0) && !emitsSession(s, g, 0) {
			first = c
		}
	})
	if first == nil {
		r.Undecided(rule, "func "+fnName(est)+" / first read of the peer", p.pos(est.Pos()), "no call that only reads a session envelope")
		return
	}
	ses := extractOf(first, 0)
	for _, first2 := range []*ssa.Call{na.negCall, na.authCall} {
		if !instrDominates(first, first2) && !reachesInstr(first, first2) {
			continue
		}
	}
	gate := func(target *ssa.Call, field, want string) bool {
		return guardedBy(target.Block(), func(ifi *ssa.If, br bool) bool {
			for _, cd := range impliedConds(ifi, br) {
				if cd.Op != token.EQL {
					continue
				}
				x, y := cd.X, cd.Y
				if !fieldOf(x, ses, field) && !fieldOf(x, ses, "Envelope", field) {
					x, y = y, x
				}
				if !fieldOf(x, ses, field) && !fieldOf(x, ses, "Envelope", field) {
					continue
				}
				if cs, ok := constString(stripConv(y)); ok && cs == want {
					return true
				}
			}
			return false
		})
	}
	for _, t := range []struct {
		call *ssa.Call
		what string
	}{{na.negCall, "negotiation"}, {na.authCall, "authentication"}} {
		okState := gate(t.call, "State", "new")
		okID := gate(t.call, "ID", "")
		r.Check(rule, "func "+fnName(est)+" / "+t.what+" only for a first envelope in state new with an empty id", p.instrPos(t.call), okState && okID,
			fmt.Sprintf("guarded by first.State == new: %v, by first.ID == \"\": %v — any other first envelope must be answered with a failed session and nothing else", okState, okID))
	}
}

// checkCallbackErrorsPropagate: in the function that calls the registration callback, the non-nil edge of the callback's
// error and of the establishing send's error reach only returns of a non-nil error.
func checkCallbackErrorsPropagate(r *Report, s *Sem, rule string) {
	p := r.P
	regCalls := callbackCalls(p.LimeFuncs(), registerSig)
	if len(regCalls) != 1 {
		r.Undecided(rule, "anchor-unresolved:registration callback call", "-", fmt.Sprintf("%d call sites", len(regCalls)))
		return
	}
	reg := regCalls[0]
	fn := reg.Parent()
	check := func(c *ssa.Call, what string) {
		if len(*c.Referrers()) == 0 {
			r.Check(rule, "func "+fnName(fn)+" / error of "+what+" is returned", p.instrPos(c), false, "the result is discarded")
			return
		}
		tested := false
		bad := 0
		walkFrom(fn, c, walkOpts{
			cutEdge: func(from *ssa.BasicBlock, k int) bool {
				ifi := ifOf(from)
				if ifi == nil {
					return false
				}
				isNil, ok := errTestOf(ifi, k == 0, c)
				if ok {
					tested = true
				}
				return ok && isNil
			},
			barrier: func(in ssa.Instruction) bool {
				// any further handshake step on the error path means the error was not acted upon
				if cc, ok := in.(*ssa.Call); ok && cc != c {
					if g := cc.Call.StaticCallee(); g != nil && s.recvKind(g) == "server" && (emitsSession(s, g, 0) || readsPeer(s, g, 0)) {
						bad++
						return true
					}
					for _, ac := range callbackCalls([]*ssa.Function{fn}, authSig) {
						if cc == ac {
							bad++
							return true
						}
					}
				}
				return false
			},
			onExit: func(e ssa.Instruction, pred *ssa.BasicBlock) {
				if ret, ok := e.(*ssa.Return); ok && retMayBeNilVia(ret, pred) {
					bad++
				}
			}})
		r.Check(rule, "func "+fnName(fn)+" / error of "+what+" is returned", p.instrPos(c), tested && bad == 0,
			fmt.Sprintf("error tested=%v; %d path(s) from a non-nil error to a nil return or to a further handshake step", tested, bad))
	}
	check(reg, "the registration callback")
	// the establishing send that follows it
	var est *ssa.Call
	walkFrom(fn, reg, walkOpts{barrier: func(in ssa.Instruction) bool {
		if cc, ok := in.(*ssa.Call); ok && cc != reg && est == nil {
			if g := cc.Call.StaticCallee(); g != nil && s.recvKind(g) == "server" && emitsSession(s, g, 0) && cc.Call.Signature().Results().Len() == 1 {
				est = cc
				return true
			}
		}
		return false
	}})
	if est == nil {
		r.Undecided(rule, "func "+fnName(fn)+" / establishing send after registration", p.instrPos(reg), "not found")
		return
	}
	check(est, "the establishing send")
}

// checkOnlyReceiverFeedsStreams: every send on an inbound stream is made by the receiver goroutine (or a literal nested in it).
func checkOnlyReceiverFeedsStreams(r *Report, s *Sem, rule string) {
	p := r.P
	a := s.anchors()
	if a.receiver == nil {
		r.Undecided(rule, "anchor-unresolved:receiver", "-", "receiver goroutine not found")
		return
	}
	for _, fn := range p.LimeFuncs() {
		eachInstr(fn, func(in ssa.Instruction) {
			var chans []ssa.Value
			switch x := in.(type) {
			case *ssa.Send:
				chans = append(chans, x.Chan)
			case *ssa.Select:
				for _, st := range x.States {
					if st.Dir == types.SendOnly {
						chans = append(chans, st.Chan)
					}
				}
			}
			for _, ch := range chans {
				for _, l := range leaves(ch) {
					f := s.chanField(l)
					if f == nil {
						continue
					}
					for _, sf := range a.streams {
						if sf == f {
							r.Check(rule, "func "+fnName(fn)+" / feeds "+f.Name(), p.instrPos(in), enclosedBy(fn, a.receiver),
								"only the receiver goroutine — which runs only while the session is established — may put an envelope on an inbound stream; a handshake read that parks a data envelope there delivers it once the session is established")
						}
					}
				}
			}
		})
	}
}

// checkBuilderPublishesEstablished: the client's channel builder returns a channel only on the edge
// ses.State == established (and err == nil) of the handshake's own result.
func checkBuilderPublishesEstablished(r *Report, s *Sem, R2 string, build, est *ssa.Function) {
	p := r.P
	var estCall *ssa.Call
	eachInstr(build, func(in ssa.Instruction) {
		if c, ok := in.(*ssa.Call); ok && c.Call.StaticCallee() == est {
			estCall = c
		}
	})
	if estCall == nil {
		r.Undecided(R2, "func "+fnName(build)+" / EstablishSession call", p.pos(build.Pos()), "not found")
	} else {
		var ses ssa.Value
		for _, ref := range *estCall.Referrers() {
			if ex, ok := ref.(*ssa.Extract); ok && ex.Index == 0 {
				ses = ex
			}
		}
		okPub, n := true, 0
		for _, rl := range returnLeaves(build, 0) {
			if isNilConst(rl.v) {
				continue
			}
			n++
			g := condGuard(rl.b, func(cd Cond) bool {
				if cd.Op != token.EQL {
					return false
				}
				x, y := cd.X, cd.Y
				if _, isC := stripConv(x).(*ssa.Const); isC {
					x, y = y, x
				}
				cs, ok := constString(stripConv(y))
				return ok && cs == "established" && ses != nil && fieldOf(x, ses, "State")
			})
			if !g || !errNilGuard(rl.b, estCall) {
				okPub = false
			}
		}
		r.Check(R2, "func "+fnName(build)+" / publishes only an established channel", p.instrPos(estCall), okPub && n > 0, "the channel may be returned only on the edge ses.State == established (and err == nil) of EstablishSession's own result")
	}

}
