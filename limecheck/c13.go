package main

import (
	"fmt"
	"go/token"
	"go/types"
	"strings"

	"golang.org/x/tools/go/ssa"
)

func init() {
	register("C13", "absence of leaked goroutines/connections for every timing (helper goroutines inside WebSocket Send/Receive, the in-process dial hand-off goroutine); whether the peer actually observes the terminal envelope (it must keep consuming); the race between a client's FinishSession read and its own receiver folding the 'finished' reply", c13)
}

func c13(r *Report, s *Sem) {
	p := r.P
	a := s.anchors()
	defer r.Import(s, "C19", "R1", "R15", "the observer moves to the terminal state it saw: every exit of the client's receiver either folded the peer's session state, was requested by the stop routine, or closed the transport — and a server-initiated failed is folded like a finished", 1)
	defer r.Import(s, "C12", "R5", "R16", "the connection stays closable after the end of the stream: EOF is recorded in a flag that Connected() reads — the connection handle itself is kept, so the terminating call's Close still releases the socket", 2, "EOF", "end-of-stream")
	R14 := r.Rule("R14", "a terminal state set outside the receiver stops the receiver: the lock-only state setter is called with a terminal constant only inside the receiver goroutine's own call tree — terminating calls use the full setter, which cancels the receiver and waits for it (otherwise a receiver parked on a full inbound stream is never released)", 1)
	checkTerminalThroughFullSetter(r, s, R14)
	defer r.Import(s, "C08", "R6", "R13", "the initiator's connection is closed by the terminating call whatever terminal answer it gets: the client's read wrapper closes the transport for a failed as for a finished session (Client.Close drops the channel without closing it again)", 1)
	R1 := r.Rule("R1", "the receiver goroutine registers, before any return, a deferred closure that closes the done signal and every inbound stream exactly once; these are their only close sites and the done parameter is the channel's own done field", 8)
	R2 := r.Rule("R2", "entering a terminal state stops the receiver exactly once (per-channel sync.Once shared with Close) and the stop routine cancels the receiver's context and then waits for the done signal, under the receiver mutex, skipping both when the receiver never started", 5)
	R3 := r.Rule("R3", "terminating calls: the server's serving function finishes the session in its deferred block on the established edge; the client's FinishSession emits 'finishing' and then reads the reply through the wrapper that closes on a terminal state; Client.Close finishes an established channel or closes it", 4)
	R4 := r.Rule("R4", "the dispatch loop returns when the receiver is done: its select has an arm on the done signal whose body returns, and every stream arm uses the comma-ok form and returns when the stream is closed", 5)
	R5 := r.Rule("R5", "session envelopes (finishing/finished/failed) are written under the same send mutex as data envelopes, so a terminal envelope is never interleaved with traffic in flight", 1)
	R7 := r.Rule("R7", "the stop-and-wait routine is never reachable from the receiver goroutine itself (it would wait for its own exit)", 1)

	if a.receiver == nil || a.stopFn == nil || a.doneField == nil {
		r.Undecided(R1, "anchor-unresolved:receiver/stop routine/done signal", "-", "not found")
		return
	}
	// ---- R1
	var def *ssa.Defer
	var closure *ssa.Function
	eachInstr(a.receiver, func(in ssa.Instruction) {
		if d, ok := in.(*ssa.Defer); ok {
			if mc, ok := d.Call.Value.(*ssa.MakeClosure); ok {
				f := mc.Fn.(*ssa.Function)
				n := 0
				eachCall(f, func(c ssa.CallInstruction) {
					if b, ok := c.Common().Value.(*ssa.Builtin); ok && b.Name() == "close" {
						n++
					}
				})
				if n > 0 {
					def, closure = d, f
				}
			}
		}
	})
	if def == nil {
		r.Check(R1, "func "+fnName(a.receiver)+" / deferred closing closure", p.pos(a.receiver.Pos()), false, "the receiver has no deferred closure closing its channels")
	} else {
		covered := true
		eachInstr(a.receiver, func(in ssa.Instruction) {
			if ret, ok := in.(*ssa.Return); ok && !instrDominates(def, ret) && ret.Block() != a.receiver.Recover {
				covered = false
			}
		})
		r.Check(R1, "func "+fnName(a.receiver)+" / defer registered before any return", p.instrPos(def), covered, "an exit before the defer would leave consumers blocked forever")
		closed := map[string]int{}
		eachCall(closure, func(c ssa.CallInstruction) {
			if b, ok := c.Common().Value.(*ssa.Builtin); ok && b.Name() == "close" {
				arg := c.Common().Args[0]
				if f := pathOf(arg).Last(); f != nil {
					closed[f.Name()]++
				} else {
					// the done parameter
					for _, l := range leaves(arg) {
						if pr, ok := pathOf(l).Root.(*ssa.Parameter); ok && pr.Parent() == a.receiver {
							closed["<done param>"]++
						}
					}
				}
			}
		})
		for _, sf := range a.streams {
			r.Check(R1, "receiver's deferred closure / closes "+sf.Name(), p.pos(closure.Pos()), closed[sf.Name()] == 1, fmt.Sprintf("%d close(s)", closed[sf.Name()]))
		}
		// the done signal: closed through the parameter bound to c.rcvDone at the go site, or directly
		doneOK := closed[a.doneField.Name()] == 1
		if closed["<done param>"] == 1 {
			for i, arg := range a.goSite.Call.Args {
				if pathOf(arg).Last() == a.doneField && i < len(a.receiver.Params) {
					doneOK = true
				}
			}
		}
		r.Check(R1, "receiver's deferred closure / closes the done signal", p.pos(closure.Pos()), doneOK, "the done signal consumers wait on must be the channel's own done field")
		// not in a loop / conditional inside the closure
		straight := true
		eachCall(closure, func(c ssa.CallInstruction) {
			if b, ok := c.Common().Value.(*ssa.Builtin); ok && b.Name() == "close" && c.Block() != closure.Blocks[0] {
				straight = false
			}
		})
		r.Check(R1, "receiver's deferred closure / closes unconditionally", p.pos(closure.Pos()), straight, "every close must run on every exit")
	}
	// only close sites
	for _, site := range p.chanCloseSites(p.LimeFuncs()) {
		if site.field == a.doneField || (site.field == nil && enclosedBy(site.fn, a.receiver)) {
			ok := site.fn == closure
			r.Check(R1, "func "+fnName(site.fn)+" / close of the done signal", p.instrPos(site.in), ok, "only the receiver's deferred closure may close it")
		}
	}

	// ---- R2
	stopRefs := p.methodRefs(a.stopFn)
	var onceField *types.Var
	okOnce := len(stopRefs) >= 2
	inSetter, inClose := false, false
	for _, ref := range stopRefs {
		mc, isClosure := ref.(*ssa.MakeClosure)
		via := false
		if isClosure {
			for _, u := range *mc.Referrers() {
				if c, ok := u.(ssa.CallInstruction); ok {
					if f := staticCallee(c); f != nil && f.Pkg != nil && f.Pkg.Pkg.Path() == "sync" && f.Name() == "Do" {
						of := pathOf(c.Common().Args[0]).Last()
						if onceField == nil {
							onceField = of
						}
						if of == onceField && of != nil {
							via = true
						}
					}
				}
			}
		}
		if !via {
			okOnce = false
		}
		if containsFn(a.setterFull, ref.Parent()) {
			// reachable for both terminal states, and for no other
			setter := ref.Parent()
			var stParam *ssa.Parameter
			for _, pr := range setter.Params {
				if typeIs(pr.Type(), p.Type("SessionState")) {
					stParam = pr
				}
			}
			term := stParam != nil
			for _, T := range []string{"new", "negotiating", "authenticating", "established", "finishing", "finished", "failed"} {
				got := reachableIfParamIs(setter, stParam, T, ref.Block())
				want := T == "finished" || T == "failed"
				if got != want {
					term = false
				}
			}
			inSetter = term
		} else if ref.Parent().Name() == "Close" && typeIs(recvType(ref.Parent()), s.channelT) {
			inClose = true
		} else {
			okOnce = false
		}
	}
	r.Check(R2, "func "+fnName(a.stopFn)+" / invoked only through one per-channel sync.Once", p.pos(a.stopFn.Pos()), okOnce, fmt.Sprintf("%d reference(s)", len(stopRefs)))
	r.Check(R2, "state setter / terminal arms stop the receiver", "-", inSetter, "the setter's finished/failed arms must call the stop routine")
	r.Check(R2, "func (*channel).Close / stops the receiver through the same Once", "-", inClose, "Close must not race a second stop")
	// stop routine body
	var cancelCall ssa.Instruction
	var wait ssa.Instruction
	eachInstr(a.stopFn, func(in ssa.Instruction) {
		if c, ok := in.(ssa.CallInstruction); ok && !c.Common().IsInvoke() && staticCallee(c) == nil {
			if n := namedOf(c.Common().Value.Type()); n != nil && n.Obj().Name() == "CancelFunc" {
				cancelCall = in
			}
		}
		if u, ok := in.(*ssa.UnOp); ok && u.Op == token.ARROW && readsField(u.X, a.doneField) {
			wait = in
		}
	})
	okBody := cancelCall != nil && wait != nil && instrDominates(cancelCall, wait)
	guard := false
	if okBody {
		guard = condGuard(cancelCall.Block(), func(cd Cond) bool {
			if cd.Op != token.NEQ {
				return false
			}
			x, y := cd.X, cd.Y
			if isNilConst(x) {
				x, y = y, x
			}
			return isNilConst(y) && namedOf(x.Type()) != nil && namedOf(x.Type()).Obj().Name() == "CancelFunc"
		})
	}
	hl := heldLocks(a.stopFn)
	locked := false
	if wait != nil {
		for k := range hl[wait] {
			if len(k) > 2 {
				locked = true
			}
		}
	}
	r.Check(R2, "func "+fnName(a.stopFn)+" / cancels, then waits for the done signal, only if started", p.pos(a.stopFn.Pos()), okBody && guard && locked,
		fmt.Sprintf("cancel before wait=%v, guarded by cancel != nil=%v, under the receiver mutex=%v", okBody, guard, locked))
	// the start routine stores cancel under the same mutex before spawning
	if a.startFn != nil {
		hs := heldLocks(a.startFn)
		r.Check(R2, "func "+fnName(a.startFn)+" / publishes cancel and spawns under the receiver mutex", p.instrPos(a.goSite), len(hs[a.goSite]) > 0, fmt.Sprintf("locks at the go statement: %v", hs[a.goSite]))
	}

	// ---- R3
	serving, _ := servingFunc(s)
	finS := p.Method("ServerChannel", "FinishSession")
	if serving != nil && finS != nil {
		ok := false
		var finCall ssa.CallInstruction
		for _, f := range withAnon(serving) {
			if f == serving || !isDeferredClosure(serving, f) {
				continue
			}
			eachCall(f, func(c ssa.CallInstruction) {
				if staticCallee(c) == finS {
					atoms := s.AtomsAt(c)
					if hasAtom(atoms, "state==", "established") {
						ok = true
						finCall = c
					}
				}
			})
		}
		r.Check(R3, "func "+fnName(serving)+" / deferred block finishes an established session", p.pos(serving.Pos()), ok, "when the dispatch loop ends (handler error, shutdown, peer's finishing) the server must answer 'finished' and close")
		if finCall != nil {
			// the dispatch loop ends, among other reasons, because the server's own context was cancelled (Server.Close):
			// the finishing envelope must then be written under a context that is still alive
			fresh, why := freshContext(finCall.Common().Args[1], 0)
			r.Check(R3, "func "+fnName(serving)+" / the finishing call runs under a context of its own", p.instrPos(finCall.(ssa.Instruction)), fresh, "the context must derive from context.Background(), not from the serving context that shutdown cancels"+why)
		}
	} else {
		r.Undecided(R3, "anchor-unresolved:serving function", "-", "not found")
	}
	finC := p.Method("ClientChannel", "FinishSession")
	wrapper := clientReadWrapper(s)
	if finC != nil && wrapper != nil {
		var emit, read ssa.Instruction
		eachInstr(finC, func(in ssa.Instruction) {
			c, ok := in.(*ssa.Call)
			if !ok {
				return
			}
			g := c.Call.StaticCallee()
			if g == nil {
				return
			}
			for _, e := range sessionEmissions(s, "client") {
				// the emission is made by a helper FinishSession calls, or by FinishSession itself
				if (e.fn == g || ssa.Instruction(e.call) == in) && e.alloc != nil {
					for _, st := range storesInto(e.alloc, "State") {
						if cs, _ := constString(stripConv(st.Val)); cs == "finishing" {
							emit = in
						}
					}
				}
			}
			if returnsReadResult(g, wrapper, 0) {
				read = in
			}
		})
		ok := emit != nil && read != nil && instrDominates(emit, read)
		r.Check(R3, "func "+fnName(finC)+" / emits finishing, then reads the reply through the closing wrapper", p.pos(finC.Pos()), ok, "the client's finishing handshake")
		// the finishing emitter requires established
		for _, e := range sessionEmissions(s, "client") {
			for _, st := range storesInto(e.alloc, "State") {
				if cs, _ := constString(stripConv(st.Val)); cs == "finishing" {
					atoms := s.AtomsAt(e.call)
					r.Check(R3, "func "+fnName(e.fn)+" / finishing only from established", p.instrPos(e.call), hasAtom(atoms, "state==", "established"), atomsString(atoms))
				}
			}
		}
	} else {
		r.Undecided(R3, "anchor-unresolved:ClientChannel.FinishSession", "-", "not found")
	}
	if cc := p.Method("Client", "Close"); cc != nil {
		calls := map[string]bool{}
		eachCall(cc, func(c ssa.CallInstruction) {
			if g := staticCallee(c); g != nil {
				if tgt := s.unwrap(g); tgt != nil {
					g = tgt
				}
				calls[g.Name()] = true
			}
		})
		// stopping the listener = waiting for its done signal (a receive from a channel field of Client that the listener
		// goroutine closes), in Close itself or in a Client method it calls
		stops := false
		for f := range p.reachable(cc) {
			if !typeIs(recvType(topLevel(f)), p.Type("Client")) {
				continue
			}
			eachInstr(f, func(in ssa.Instruction) {
				u, ok := in.(*ssa.UnOp)
				if !ok || u.Op != token.ARROW {
					return
				}
				fld := pathOf(u.X).Last()
				if fld == nil {
					return
				}
				if p.Field("Client", fld.Name()) != fld {
					return
				}
				// a pure signal: never sent on (the lifetime lock is), only closed by the listener goroutine
				sent := false
				for _, site := range p.chanSendSites(p.LimeFuncs()) {
					if site.field == fld {
						sent = true
					}
				}
				if !sent {
					stops = true
				}
			})
		}
		r.Check(R3, "func (*Client).Close / stops the listener, then finishes or closes the channel", p.pos(cc.Pos()), stops && calls["FinishSession"] && calls["Close"], fmt.Sprintf("waits for the listener's done signal=%v; calls %v", stops, sortedKeys(calls)))
	}

	// terminating calls leave the channel in the terminal state whatever the send did (abstract interpretation)
	if finS != nil {
		h := newHS(s)
		okT := true
		detail := ""
		for _, o := range h.exec(finS, hsIn{S: "established"}) {
			if !o.Dead && o.S != "finished" {
				okT = false
				detail = fmt.Sprintf("may return in state %s (errNil=%v)", o.S, o.ErrNil)
			}
		}
		r.Check(R3, "func "+fnName(finS)+" / always leaves the channel finished", p.pos(finS.Pos()), okT, detail+" — otherwise a failed send leaves the receiver running and the streams open")
	}

	// ---- R4
	if a.listenFn != nil {
		eachInstr(a.listenFn, func(in ssa.Instruction) {
			sel, ok := in.(*ssa.Select)
			if !ok || len(sel.States) < 5 {
				return
			}
			recvIdx := 2
			for i, st := range sel.States {
				if st.Dir != types.RecvOnly {
					continue
				}
				f := s.chanField(st.Chan)
				myIdx := recvIdx
				recvIdx++
				if f == a.doneField {
					// the arm's body returns: block reached when index == i has no path back to the select
					armReturns := selectArmReturns(sel, i)
					r.Check(R4, "func "+fnName(a.listenFn)+" / done arm returns", p.instrPos(in), armReturns, "the dispatch loop must end when the receiver is gone")
					continue
				}
				isStream := false
				for _, sf := range a.streams {
					if sf == f {
						isStream = true
					}
				}
				if !isStream {
					continue
				}
				// comma-ok: the select's recvOk (#1) is tested on this arm and !ok returns
				okForm := selectArmChecksOk(sel, i)
				_ = myIdx
				r.Check(R4, "func "+fnName(a.listenFn)+" / stream "+f.Name()+" arm handles closure", p.instrPos(in), okForm, "a closed stream must end the loop instead of yielding nil envelopes forever")
			}
		})
	}

	// ---- R5
	for _, c := range a.transportSends {
		if !containsFn(a.sessionSenders, c.Parent()) {
			continue
		}
		hl := heldLocks(c.Parent())[c]
		ok := a.sendMu != nil && hl["W:"+a.sendMu.Name()]
		r.Check(R5, "func "+fnName(c.Parent())+" / session send under the send mutex", p.instrPos(c), ok, fmt.Sprintf("locks held: %v — FinishSession/FailSession concurrent with a data send from another goroutine are otherwise two writers on one connection", hl))
	}

	R8 := r.Rule("R8", "the observing side moves to the terminal state: the client's receiver folds a received session's state into the channel", 1)
	checkClientFoldsTerminal(r, s, R8)
	R9 := r.Rule("R9", "the session stream has constant capacity ≥ 1, so the receiver's hand-off of a session envelope never waits for a reader and the receiver always exits", 1)
	checkSessionStreamCapacity(r, s, R9)

	R10 := r.Rule("R10", "the connection is really closed by the terminating/closing calls: Transport.Close implementations close the underlying connection unless the handle is nil, and channel.Close always reaches Transport.Close", 3)
	checkCloseReallyCloses(r, s, R10)

	// ---- R7
	reach := p.reachable(a.receiver)
	r.Check(R7, "receiver goroutine / cannot reach the stop-and-wait routine", p.pos(a.receiver.Pos()), !reach[a.stopFn], "the receiver may only use the lock-only setter")

	// ---- R11: the stop routine waits for the receiver; the receiver must therefore be interruptible wherever it can wait
	R11 := r.Rule("R11", "the receiver can always be stopped: every hand-off to an inbound stream made by the receiver goroutine or by what it calls is an arm of a select that also waits on the receiver's context (a plain send would park the goroutine the terminating call is waiting for, as soon as a consumer stops reading)", 4)
	isStreamChan := func(v ssa.Value) *types.Var {
		for _, l := range leaves(v) {
			if f := s.chanField(l); f != nil {
				for _, sf := range a.streams {
					if sf == f {
						return f
					}
				}
			}
		}
		return nil
	}
	for _, fn := range p.LimeFuncs() {
		if !reach[fn] && !enclosedBy(fn, a.receiver) {
			continue
		}
		eachInstr(fn, func(in ssa.Instruction) {
			switch x := in.(type) {
			case *ssa.Send:
				if f := isStreamChan(x.Chan); f != nil {
					r.Check(R11, "func "+fnName(fn)+" / hand-off to "+f.Name(), p.instrPos(in), false, "plain send on an inbound stream in the receiver's call tree: it cannot be interrupted by the stop routine")
				}
			case *ssa.Select:
				for _, st := range x.States {
					if st.Dir != types.SendOnly {
						continue
					}
					f := isStreamChan(st.Chan)
					if f == nil {
						continue
					}
					hasDone := false
					for _, st2 := range x.States {
						if _, isDone := isCtxDoneChan(st2.Chan); isDone && st2.Dir == types.RecvOnly {
							hasDone = true
						}
					}
					// the session stream is buffered and written at most once (R9): its hand-off may also be non-blocking
					r.Check(R11, "func "+fnName(fn)+" / hand-off to "+f.Name(), p.instrPos(in), hasDone || !x.Blocking, "a blocking select handing an envelope to a stream needs the arm <-ctx.Done()")
				}
			}
		})
	}
	r.Import(s, "C19", "R3", "R12", "the high-level client releases the ended session on its own: every store of a new channel into Client.channel is preceded on all paths by a releasing call on the previous channel (closing it only after a new session could be established keeps the connection of the finished session while the server is down)", 1)
}

// selectArmBlock finds the block executed when select `sel` chose state i.
func selectArmBlock(sel *ssa.Select, i int) *ssa.BasicBlock {
	var idx ssa.Value
	for _, ref := range *sel.Referrers() {
		if ex, ok := ref.(*ssa.Extract); ok && ex.Index == 0 {
			idx = ex
		}
	}
	if idx == nil {
		return nil
	}
	for _, b := range sel.Parent().Blocks {
		ifi := ifOf(b)
		if ifi == nil {
			continue
		}
		cd := condOn(ifi, true)
		if cd.Op == token.EQL && cd.X == idx {
			if k, ok := constInt(cd.Y); ok && int(k) == i {
				return b.Succs[0]
			}
		}
	}
	return nil
}

// selectArmReturns: the body of arm i cannot flow back to the select.
func selectArmReturns(sel *ssa.Select, i int) bool {
	b := selectArmBlock(sel, i)
	if b == nil {
		return false
	}
	seen := reachBlocks(b, nil)
	return !seen[sel.Block()]
}

// selectArmChecksOk: arm i tests the select's recvOk and leaves the loop when it is false.
func selectArmChecksOk(sel *ssa.Select, i int) bool {
	b := selectArmBlock(sel, i)
	if b == nil {
		return false
	}
	okvs := map[ssa.Value]bool{}
	for _, ref := range *sel.Referrers() {
		if ex, ok := ref.(*ssa.Extract); ok && ex.Index == 1 {
			okvs[ex] = true
		}
	}
	if len(okvs) == 0 {
		return false
	}
	// find an If on okv reachable from b before any handler call, whose false edge cannot return to the select
	work := []*ssa.BasicBlock{b}
	seen := map[*ssa.BasicBlock]bool{}
	for len(work) > 0 {
		x := work[len(work)-1]
		work = work[:len(work)-1]
		if seen[x] {
			continue
		}
		seen[x] = true
		if ifi := ifOf(x); ifi != nil {
			cd := normCond(ifi.Cond, true)
			if cd.Op == token.ILLEGAL && okvs[cd.Val] {
				// successor taken when ok is false
				falseSucc := x.Succs[1]
				if !cd.True {
					falseSucc = x.Succs[0]
				}
				return !reachBlocks(falseSucc, nil)[sel.Block()]
			}
			return false
		}
		work = append(work, x.Succs...)
	}
	return false
}

// reachableIfParamIs: can block target be reached from fn's entry when parameter prm equals constant T?
func reachableIfParamIs(fn *ssa.Function, prm *ssa.Parameter, T string, target *ssa.BasicBlock) bool {
	if prm == nil || len(fn.Blocks) == 0 {
		return false
	}
	seen := reachBlocks(fn.Blocks[0], func(from *ssa.BasicBlock, k int) bool {
		ifi := ifOf(from)
		if ifi == nil {
			return false
		}
		cd := condOn(ifi, k == 0)
		if cd.Op != token.EQL && cd.Op != token.NEQ {
			return false
		}
		x, y := stripConv(cd.X), stripConv(cd.Y)
		if _, isC := x.(*ssa.Const); isC {
			x, y = y, x
		}
		cs, ok := constString(y)
		if !ok || x != ssa.Value(prm) {
			return false
		}
		return (cd.Op == token.EQL) != (cs == T)
	})
	return seen[target]
}

// freshContext: v is context.Background()/TODO() or a context.With* derivation of one (never of a parameter or captured context).
func freshContext(v ssa.Value, d int) (bool, string) {
	if d > 6 {
		return false, ""
	}
	n := 0
	for _, l := range leaves(v) {
		n++
		l = stripConv(l)
		call, _ := callOf(l)
		if call == nil {
			return false, "; derives from " + describe(l)
		}
		g := call.Call.StaticCallee()
		if g == nil || g.Pkg == nil || g.Pkg.Pkg.Path() != "context" {
			return false, "; derives from " + describe(l)
		}
		switch {
		case g.Name() == "Background" || g.Name() == "TODO":
		case strings.HasPrefix(g.Name(), "With"):
			if ok, why := freshContext(call.Call.Args[0], d+1); !ok {
				return false, why
			}
		default:
			return false, "; derives from " + describe(l)
		}
	}
	return n > 0, ""
}
