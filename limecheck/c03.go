package main

import (
	"fmt"
	"go/token"
	"go/types"
	"strings"

	"golang.org/x/tools/go/ssa"
)

func init() {
	register("C03", "what the user's authentication/registration callbacks return; a callback returning (nil, nil) panics on result.Role (callback contract); the in-process transport hands over Go objects without (de)serialisation, so the scheme↔credential-type binding of the wire decoder does not bind a same-process peer", c03)
}

// sigString renders a signature without parameter names.
func sigString(t types.Type) string {
	sig, ok := t.Underlying().(*types.Signature)
	if !ok {
		return ""
	}
	var ps, rs []string
	for i := 0; i < sig.Params().Len(); i++ {
		ps = append(ps, types.TypeString(sig.Params().At(i).Type(), func(p *types.Package) string { return p.Name() }))
	}
	for i := 0; i < sig.Results().Len(); i++ {
		rs = append(rs, types.TypeString(sig.Results().At(i).Type(), func(p *types.Package) string { return p.Name() }))
	}
	return "func(" + strings.Join(ps, ", ") + ") (" + strings.Join(rs, ", ") + ")"
}

const authSig = "func(context.Context, lime.Identity, lime.Authentication) (*lime.AuthenticationResult, error)"
const registerSig = "func(context.Context, lime.Node, *lime.ServerChannel) (lime.Node, error)"

// callbackCalls finds calls in value mode (callee is a parameter/field/free variable, not a static function) whose
// callee has the given signature.
func callbackCalls(fns []*ssa.Function, sig string) []*ssa.Call {
	var out []*ssa.Call
	for _, fn := range fns {
		eachInstr(fn, func(in ssa.Instruction) {
			c, ok := in.(*ssa.Call)
			if !ok || c.Call.IsInvoke() || c.Call.StaticCallee() != nil {
				return
			}
			if _, isBuiltin := c.Call.Value.(*ssa.Builtin); isBuiltin {
				return
			}
			if sigString(c.Call.Value.Type()) == sig {
				out = append(out, c)
			}
		})
	}
	return out
}

// condGuard: every path to b crosses an edge whose normalised condition satisfies pred.
func condGuard(b *ssa.BasicBlock, pred func(c Cond) bool) bool {
	return guardedBy(b, func(ifi *ssa.If, br bool) bool {
		for _, c := range impliedConds(ifi, br) {
			if pred(c) {
				return true
			}
		}
		return false
	})
}

// condGuardEdge: like condGuard for the edge b→to (to == nil: for block b): the edge itself may be the guarding branch.
func condGuardEdge(b, to *ssa.BasicBlock, pred func(c Cond) bool) bool {
	if to != nil && len(b.Instrs) > 0 {
		if ifi, ok := b.Instrs[len(b.Instrs)-1].(*ssa.If); ok && b.Succs[0] != b.Succs[1] {
			br := b.Succs[0] == to
			if br || b.Succs[1] == to {
				for _, c := range impliedConds(ifi, br) {
					if pred(c) {
						return true
					}
				}
			}
		}
	}
	return condGuard(b, pred)
}

// errNilGuard: b is only reached on the `err == nil` edge of call (its error result).
func errNilGuard(b *ssa.BasicBlock, call *ssa.Call) bool {
	return guardedBy(b, func(ifi *ssa.If, br bool) bool {
		isNil, ok := errTestOf(ifi, br, call)
		return ok && isNil
	})
}

func fieldOf(v ssa.Value, root ssa.Value, names ...string) bool {
	ap := pathOf(v)
	if ap.Root != root {
		return false
	}
	got := ap.FieldNames()
	if len(got) != len(names) {
		return false
	}
	for i := range got {
		if got[i] != names[i] {
			return false
		}
	}
	return true
}

func c03(r *Report, s *Sem) {
	p := r.P
	a := s.anchors()
	R8 := r.Rule("R8", "the credentials judged are the ones this peer presented: the session decoder unmarshals the authentication member into a value created for this decode (the product of a factory call, or an allocation in the decoder) — never into a value looked up in a table shared between connections, which keeps the fields a previous peer sent when the member omits them", 1)
	checkAuthDecodeFresh(r, s, R8)
	defer r.Import(s, "C18", "R3", "R7", "the server treats as established only what is established: the Established callback has one call site, gated by the fact state == established (not merely 'not failed'), before the dispatch loop, and the Finished callback is paired with it", 4)
	R1 := r.Rule("R1", "single gate: exactly one site can put a server channel into 'established' (constant state passed to the state setter from server-side code); non-constant setter calls are fenced to the client role; the gate's function is called only from the authentication loop", 3)
	R2 := r.Rule("R2", "dominance chain: the call that establishes is dominated by the authentication callback call, its err==nil edge, the edges Role != \"\" and Role != unknown on that same result, the registration call and its err==nil edge; the callback call itself is dominated by state==authenticating, id==session id and the ok edge of a lookup of the peer's scheme in a map filled only from the offered scheme list; callback arguments and the registered node come from the peer's envelope of this round", 12)
	R3 := r.Rule("R3", "freshness: the session envelope inspected in a round is only ever a reply to this server's authenticating / round-trip envelope (no stale copy), and the result tested is the one returned in this round", 2)
	R5 := r.Rule("R5", "announced = registered: the established envelope's To and the channel's remote node both come from the node handed in by the authentication loop, which is result #0 of the registration callback", 3)
	R6 := r.Rule("R6", "the builder's authenticator: a known role is returned only from the guest arm after uuid.Parse succeeded, or by the user's callback for that scheme (called only when non-nil, on the matching credential type); every other exit returns an error or the unknown role; Build installs exactly this closure", 8)

	srvFns := []*ssa.Function{}
	for _, fn := range p.LimeFuncs() {
		if s.recvKind(fn) == "server" {
			srvFns = append(srvFns, fn)
		}
	}

	// ---- R1
	var gates []ssa.CallInstruction
	allSetters := append(append([]*ssa.Function{}, a.setterLocked...), a.setterFull...)
	for _, fn := range p.LimeFuncs() {
		kind := s.recvKind(fn)
		eachCall(fn, func(c ssa.CallInstruction) {
			g := staticCallee(c)
			if g == nil || !containsFn(allSetters, g) || containsFn(allSetters, fn) {
				return
			}
			arg := stripConv(c.Common().Args[len(c.Common().Args)-1])
			if cs, ok := stateConst(arg); ok {
				if cs == "established" && kind != "client" {
					gates = append(gates, c)
				}
				return
			}
			// non-constant state: must not be reachable for a server channel
			if kind == "client" {
				r.Trivial(R1, "func "+fnName(fn)+" / non-constant state (client method)", p.instrPos(c), true, "method of ClientChannel")
				return
			}
			clientF := p.Field("channel", "client")
			fenced := clientF != nil && condGuard(c.Block(), func(cd Cond) bool {
				return cd.Op == token.ILLEGAL && cd.True && readsField(cd.Val, clientF)
			})
			r.Check(R1, "func "+fnName(fn)+" / non-constant state", p.instrPos(c), fenced, "a peer-supplied state may be folded into the channel only on the client role (guard on channel.client)")
		})
	}
	r.Check(R1, "server-side transitions to established", "-", len(gates) == 1, fmt.Sprintf("%d site(s) set a non-client channel to established", len(gates)))
	authCalls := callbackCalls(p.LimeFuncs(), authSig)
	var authFn *ssa.Function
	if len(authCalls) == 1 {
		authFn = authCalls[0].Parent()
	}
	var gateFn *ssa.Function
	for _, g := range gates {
		gateFn = g.Parent()
		callers := p.callersOf(gateFn)
		ok := len(callers) > 0
		for _, c := range callers {
			if c.Parent() != authFn {
				ok = false
			}
		}
		r.Check(R1, "func "+fnName(gateFn)+" / called only from the authentication loop", p.instrPos(g), ok, fmt.Sprintf("%d caller(s); all must be the function that invokes the authentication callback", len(callers)))
	}

	// ---- R2/R3
	if len(authCalls) != 1 || authFn == nil {
		r.Undecided(R2, "anchor-unresolved:authentication callback call", "-", fmt.Sprintf("%d calls of a value of type %s", len(authCalls), authSig))
		return
	}
	A := authCalls[0]
	regCalls := callbackCalls([]*ssa.Function{authFn}, registerSig)
	var E *ssa.Call
	eachInstr(authFn, func(in ssa.Instruction) {
		if c, ok := in.(*ssa.Call); ok && gateFn != nil && c.Call.StaticCallee() == gateFn {
			E = c
		}
	})
	base := "func " + fnName(authFn)
	if E == nil || len(regCalls) != 1 {
		r.Undecided(R2, base+" / establishing call and registration call", p.pos(authFn.Pos()), "the function calling the authentication callback must also call the registration callback and the establishing function")
		return
	}
	Rg := regCalls[0]
	var resA ssa.Value // extract #0 of A
	for _, ref := range *A.Referrers() {
		if ex, ok := ref.(*ssa.Extract); ok && ex.Index == 0 {
			resA = ex
		}
	}
	r.Check(R2, base+" / (i) callback before establishing", p.instrPos(E), instrDominates(A, E), "the authentication callback call must dominate the establishing call")
	r.Check(R2, base+" / (ii) callback err == nil", p.instrPos(E), errNilGuard(E.Block(), A), "establishing must be on the err == nil edge of the callback")
	roleField := p.Field("AuthenticationResult", "Role")
	roleNE := func(val string) bool {
		return condGuard(E.Block(), func(cd Cond) bool {
			if cd.Op != token.NEQ {
				return false
			}
			x, y := cd.X, cd.Y
			if _, isC := stripConv(x).(*ssa.Const); isC {
				x, y = y, x
			}
			cs, ok := constString(stripConv(y))
			if !ok || cs != val {
				return false
			}
			ap := pathOf(x)
			return ap.Last() == roleField && resA != nil && ap.Root == resA
		})
	}
	r.Check(R2, base+" / (iii) Role != \"\"", p.instrPos(E), roleNE(""), "on the result of this round's callback call")
	r.Check(R2, base+" / (iii) Role != unknown", p.instrPos(E), roleNE("unknown"), "on the result of this round's callback call (|| instead of && leaves this edge off some path)")
	r.Check(R2, base+" / (iv) registration before establishing", p.instrPos(E), instrDominates(Rg, E) && errNilGuard(E.Block(), Rg), "registration call dominates and its err == nil edge guards the establishing call")
	r.Check(R2, base+" / (iv) registration after successful authentication", p.instrPos(Rg), instrDominates(A, Rg) && roleNEat(Rg.Block(), resA, roleField, "unknown"), "the registration callback is only asked for authenticated peers")
	// node argument provenance
	nodeArg := E.Call.Args[len(E.Call.Args)-1]
	okNode := true
	for _, l := range leaves(nodeArg) {
		ex, ok := stripConv(l).(*ssa.Extract)
		if !ok || ex.Tuple != ssa.Value(Rg) || ex.Index != 0 {
			okNode = false
		}
	}
	r.Check(R2, base+" / established node is the registered one", p.instrPos(E), okNode, "node argument: "+describe(nodeArg)+" must be result #0 of the registration callback only")

	// the session value of this round
	var ses ssa.Value
	if len(A.Call.Args) == 3 {
		ses = pathOf(A.Call.Args[2]).Root
	}
	argsOK := ses != nil && fieldOf(A.Call.Args[1], ses, "From", "Identity") == false
	// Identity is an embedded field of Node: FieldNames() drops embedded hops, so ses.From.Identity reads as [From]
	argsOK = ses != nil && (fieldOf(A.Call.Args[1], ses, "From") || fieldOf(A.Call.Args[1], ses, "From", "Identity")) && fieldOf(A.Call.Args[2], ses, "Authentication")
	r.Check(R2, base+" / callback receives the peer's identity and credentials", p.instrPos(A), argsOK, "arguments must be ses.From.Identity and ses.Authentication of one session value; got "+describe(A.Call.Args[1])+", "+describe(A.Call.Args[2]))
	regArgOK := ses != nil && fieldOf(Rg.Call.Args[1], ses, "From")
	r.Check(R2, base+" / registration receives the peer's node", p.instrPos(Rg), regArgOK, "candidate must be ses.From of the same session value")
	if ses != nil {
		stGuard := condGuard(A.Block(), func(cd Cond) bool {
			if cd.Op != token.EQL {
				return false
			}
			x, y := cd.X, cd.Y
			if _, isC := stripConv(x).(*ssa.Const); isC {
				x, y = y, x
			}
			cs, ok := constString(stripConv(y))
			return ok && cs == "authenticating" && fieldOf(x, ses, "State")
		})
		r.Check(R2, base+" / peer state == authenticating", p.instrPos(A), stGuard, "the callback must only run for an envelope in the authenticating state")
		idGuard := condGuard(A.Block(), func(cd Cond) bool {
			if cd.Op != token.EQL {
				return false
			}
			x, y := cd.X, cd.Y
			if !fieldOf(x, ses, "ID") {
				x, y = y, x
			}
			return fieldOf(x, ses, "ID") && pathOf(y).Last() == s.sessionIDF
		})
		r.Check(R2, base+" / peer echoed the session id", p.instrPos(A), idGuard, "ses.ID == channel.sessionID must guard the callback")
		// scheme lookup
		var param *ssa.Parameter
		schemeGuard := condGuard(A.Block(), func(cd Cond) bool {
			if cd.Op != token.ILLEGAL || !cd.True {
				return false
			}
			ex, ok := stripConv(cd.Val).(*ssa.Extract)
			if !ok || ex.Index != 1 {
				return false
			}
			lk, ok := ex.Tuple.(*ssa.Lookup)
			if !ok || !lk.CommaOk || !fieldOf(lk.Index, ses, "Scheme") {
				return false
			}
			// the map is filled only from one slice parameter
			mm, ok := stripConv(lk.X).(*ssa.MakeMap)
			if !ok {
				return false
			}
			okAll, n := true, 0
			for _, ref := range *mm.Referrers() {
				mu, ok := ref.(*ssa.MapUpdate)
				if !ok {
					continue
				}
				n++
				pr := sliceElemParam(mu.Key)
				if pr == nil || (param != nil && pr != param) {
					okAll = false
				}
				param = pr
			}
			return okAll && n > 0
		})
		if !schemeGuard || param == nil {
			// other membership forms (a scan, a membership helper, slices.Contains) over the offered list parameter
			condGuard(A.Block(), func(cd Cond) bool {
				var list ssa.Value
				if cd.Op == token.EQL {
					x, y := cd.X, cd.Y
					if !fieldOf(x, ses, "Scheme") {
						x, y = y, x
					}
					if fieldOf(x, ses, "Scheme") {
						if pr := sliceElemParam(y); pr != nil && pr.Parent() == A.Parent() {
							param, schemeGuard = pr, true
							return true
						}
					}
				}
				if call, _ := callOf(cd.Val); call != nil && cd.Op == token.ILLEGAL && cd.True {
					if l, elem, isMember := membershipCall(p, call); isMember && fieldOf(elem, ses, "Scheme") {
						list = l
					}
				}
				if list != nil {
					for _, o := range sliceOrigins(list) {
						if pr, isParam := stripConv(o).(*ssa.Parameter); isParam && pr.Parent() == A.Parent() {
							param, schemeGuard = pr, true
							return true
						}
					}
				}
				return false
			})
		}
		r.Check(R2, base+" / scheme was offered", p.instrPos(A), schemeGuard && param != nil, "the callback must be guarded by the ok edge of a lookup of ses.Scheme in a set built only from the offered scheme list")
		// same list offered: the call producing the first session value receives that parameter
		offered := false
		if param != nil {
			for _, l := range leaves(ses) {
				if call, idx := callOf(l); call != nil && idx == 0 {
					for _, arg := range call.Call.Args {
						if stripConv(arg) == ssa.Value(param) {
							offered = true
						}
					}
				}
			}
		}
		r.Check(R2, base+" / the list checked is the list offered", p.instrPos(A), offered, "the scheme set must be built from the same parameter that is handed to the function emitting the authenticating envelope")

		// ---- R3
		fresh, why := true, ""
		n := 0
		for _, l := range leaves(ses) {
			if isNilConst(stripConv(l)) {
				continue // no envelope at all (the error path of a helper): nothing that could be mistaken for a reply
			}
			call, idx := callOf(l)
			if call == nil || idx != 0 {
				fresh, why = false, "session value may come from "+describe(l)
				continue
			}
			g := call.Call.StaticCallee()
			if g == nil || s.recvKind(g) != "server" || !returnsSessionRead(s, g) {
				fresh, why = false, "session value comes from "+describe(l)+", which is not an emit-then-read of this server channel"
				continue
			}
			n++
		}
		r.Check(R3, base+" / inspected session is a fresh reply", p.instrPos(A), fresh && n >= 1, why)
		_, resIsExtract := resA.(*ssa.Extract)
		r.Check(R3, base+" / result tested is this round's", p.instrPos(A), resIsExtract, "the role test reads the callback result of the same iteration (no loop-carried copy)")
	}

	// ---- R5
	if gateFn != nil {
		var nodeParam *ssa.Parameter
		for _, pr := range gateFn.Params {
			if typeIs(pr.Type(), p.Type("Node")) {
				nodeParam = pr
			}
		}
		okRemote, n := true, 0
		for _, st := range fieldStores([]*ssa.Function{gateFn}, s.remoteNodeF) {
			n++
			for _, l := range leaves(st.Val) {
				if stripConv(l) != ssa.Value(nodeParam) {
					okRemote = false
				}
			}
		}
		r.Check(R5, "func "+fnName(gateFn)+" / remote node stored from the node parameter", p.pos(gateFn.Pos()), okRemote && n == 1 && nodeParam != nil, fmt.Sprintf("%d store(s) to channel.remoteNode", n))
		// the emitted session's To
		okTo, nTo := true, 0
		eachInstr(gateFn, func(in ssa.Instruction) {
			al, ok := in.(*ssa.Alloc)
			if !ok || !typeIs(al.Type(), s.sessionT) {
				return
			}
			for _, st := range storesInto(al, "Envelope", "To") {
				nTo++
				for _, l := range leaves(st.Val) {
					l = stripConv(l)
					if l == ssa.Value(nodeParam) {
						continue
					}
					// or a read of channel.remoteNode after it was stored from the parameter
					if pathOf(l).Last() == s.remoteNodeF && okRemote {
						continue
					}
					okTo = false
				}
			}
		})
		r.Check(R5, "func "+fnName(gateFn)+" / established envelope announces that node", p.pos(gateFn.Pos()), okTo && nTo == 1, fmt.Sprintf("%d store(s) to Session.To", nTo))
		// the node handed in is used as it is: a by-value parameter that is modified (qualified, normalised) between the two
		// uses makes the channel remember another address than the one it announces
		modified := 0
		if nodeParam != nil {
			for _, ref := range *nodeParam.Referrers() {
				st, ok := ref.(*ssa.Store)
				if !ok || st.Val != ssa.Value(nodeParam) {
					continue
				}
				if cell, ok := st.Addr.(*ssa.Alloc); ok {
					// the parameter's own cell: any further write into it (whole or a field) is a modification
					var walk func(addr ssa.Value)
					walk = func(addr ssa.Value) {
						for _, r2 := range *addr.Referrers() {
							switch x := r2.(type) {
							case *ssa.Store:
								if x.Addr == addr && x != st {
									modified++
								}
							case *ssa.FieldAddr:
								walk(x)
							}
						}
					}
					walk(cell)
				}
			}
		}
		r.Check(R5, "func "+fnName(gateFn)+" / the registered node is used unmodified", p.pos(gateFn.Pos()), modified == 0, fmt.Sprintf("%d write(s) into the node parameter", modified))
		// remoteNode of server channels is stored nowhere else
		other := 0
		for _, st := range fieldStores(srvFns, s.remoteNodeF) {
			if st.Parent() != gateFn {
				other++
			}
		}
		r.Check(R5, "channel.remoteNode / stored only when establishing (server side)", "-", other == 0, fmt.Sprintf("%d other server-side store(s)", other))
	}

	// ---- R6
	c03Builder(r, s, R6)
}

func roleNEat(b *ssa.BasicBlock, res ssa.Value, roleField *types.Var, val string) bool {
	return condGuard(b, func(cd Cond) bool {
		if cd.Op != token.NEQ {
			return false
		}
		x, y := cd.X, cd.Y
		if _, isC := stripConv(x).(*ssa.Const); isC {
			x, y = y, x
		}
		cs, ok := constString(stripConv(y))
		if !ok || cs != val {
			return false
		}
		ap := pathOf(x)
		return ap.Last() == roleField && ap.Root == res
	})
}

// sliceElemParam: v is an element of a slice parameter (range over the parameter); returns that parameter.
func sliceElemParam(v ssa.Value) *ssa.Parameter {
	v = stripConv(v)
	u, ok := v.(*ssa.UnOp)
	if !ok || u.Op != token.MUL {
		return nil
	}
	ia, ok := u.X.(*ssa.IndexAddr)
	if !ok {
		return nil
	}
	pr, _ := stripConv(ia.X).(*ssa.Parameter)
	return pr
}

// returnsSessionRead: every non-nil *Session returned by g is the result of the handshake read, and g emits a session
// before reading (emit-then-read helper).
func returnsSessionRead(s *Sem, g *ssa.Function) bool {
	a := s.anchors()
	ok, n := true, 0
	for _, rl := range returnLeaves(g, 0) {
		if isNilConst(rl.v) {
			continue
		}
		n++
		call, idx := callOf(rl.v)
		if call == nil || idx != 0 || !containsFn(a.sessionReaders, call.Call.StaticCallee()) {
			ok = false
		}
	}
	emits := false
	eachCall(g, func(c ssa.CallInstruction) {
		if containsFn(a.sessionSenders, staticCallee(c)) {
			emits = true
		}
	})
	return ok && n > 0 && emits
}

func c03Builder(r *Report, s *Sem, R6 string) {
	p := r.P
	// the function that ServerBuilder.Build (or what it calls) installs as ServerConfig.Authenticate: a function literal,
	// the literal returned by a maker function, or a method value
	var closure *ssa.Function
	build := p.Method("ServerBuilder", "Build")
	authF := p.Field("ServerConfig", "Authenticate")
	installed := false
	var resolve func(v ssa.Value, d int) *ssa.Function
	resolve = func(v ssa.Value, d int) *ssa.Function {
		if d > 4 {
			return nil
		}
		for _, l := range leaves(v) {
			l = stripConv(l)
			switch x := l.(type) {
			case *ssa.MakeClosure:
				f := x.Fn.(*ssa.Function)
				if f.Synthetic != "" {
					// bound method value: the wrapper's only static callee
					var tgt *ssa.Function
					eachCall(f, func(c ssa.CallInstruction) {
						if g := staticCallee(c); g != nil {
							tgt = g
						}
					})
					return tgt
				}
				return f
			case *ssa.Function:
				return x
			case *ssa.Call:
				if g := x.Call.StaticCallee(); g != nil && g.Pkg == p.Lime && len(g.Blocks) > 0 {
					for _, rl := range returnLeaves(g, 0) {
						if f := resolve(rl.v, d+1); f != nil {
							return f
						}
					}
				}
			}
		}
		return nil
	}
	if build != nil && authF != nil {
		for f := range p.reachable(build) {
			if f.Pkg != p.Lime {
				continue
			}
			for _, st := range fieldStores([]*ssa.Function{f}, authF) {
				if g := resolve(st.Val, 0); g != nil && sigString(types.NewSignatureType(nil, nil, nil, g.Signature.Params(), g.Signature.Results(), false)) == authSig {
					closure = g
					installed = true
				}
			}
		}
	}
	if closure == nil {
		r.Undecided(R6, "anchor-unresolved:builder authenticator", "-", "ServerBuilder.Build installs no analysable authentication function")
		return
	}
	base := "func " + fnName(closure)
	var identityParam *ssa.Parameter
	for _, pr := range closure.Params {
		if n := namedOf(pr.Type()); n != nil && n.Obj().Name() == "Identity" {
			identityParam = pr
		}
	}
	if identityParam == nil {
		r.Undecided(R6, base+" / identity parameter", p.pos(closure.Pos()), "not found")
		return
	}
	knownCtor := func(f *ssa.Function) (known bool, isCtor bool) {
		// a function returning &AuthenticationResult{Role: const}
		if f == nil || f.Pkg != p.Lime || f.Signature.Params().Len() != 0 {
			return false, false
		}
		for _, rl := range returnLeaves(f, 0) {
			al, ok := stripConv(rl.v).(*ssa.Alloc)
			if !ok || !typeIs(al.Type(), p.Type("AuthenticationResult")) {
				return false, false
			}
			for _, st := range storesInto(al, "Role") {
				if cs, ok := constString(stripConv(st.Val)); ok {
					return cs != "" && cs != "unknown", true
				}
			}
			return false, true
		}
		return false, false
	}
	uuidOK := func(b *ssa.BasicBlock) bool {
		return guardedBy(b, func(ifi *ssa.If, br bool) bool {
			call, _, isNil, ok := errTest(ifi, br)
			if !ok || !isNil {
				return false
			}
			f := call.Call.StaticCallee()
			if f == nil || f.Pkg == nil || !strings.HasSuffix(f.Pkg.Pkg.Path(), "google/uuid") || f.Name() != "Parse" {
				return false
			}
			ap := pathOf(call.Call.Args[0])
			return ap.Root == ssa.Value(identityParam) && ap.Last() != nil && ap.Last().Name() == "Name"
		})
	}
	assertedType := func(b *ssa.BasicBlock) string {
		// the credential type whose type-switch arm dominates b
		name := ""
		for _, e := range mustEdges(b) {
			cd := condOn(ifOf(e.from), e.succ == 0)
			if cd.Op != token.ILLEGAL || !cd.True {
				continue
			}
			if ex, ok := stripConv(cd.Val).(*ssa.Extract); ok && ex.Index == 1 {
				if ta, ok := ex.Tuple.(*ssa.TypeAssert); ok {
					name = shortType(ta.AssertedType.String())
				}
			}
		}
		return name
	}
	schemeOf := map[string]string{"lime.PlainAuthenticator": "*PlainAuthentication", "lime.KeyAuthenticator": "*KeyAuthentication", "lime.ExternalAuthenticator": "*ExternalAuthentication"}
	n := 0
	for _, rl := range returnLeaves(closure, 0) {
		n++
		pos := p.instrPos(rl.in)
		if isNilConst(rl.v) {
			// must come with a non-nil error
			errNonNil := true
			for _, el := range returnLeavesOf(rl.in, 1) {
				if isNilConst(el) {
					errNonNil = false
				}
			}
			r.Check(R6, base+" / exit (nil result) in arm "+assertedType(rl.b), pos, errNonNil, "a nil result must be accompanied by an error")
			continue
		}
		call, _ := callOf(rl.v)
		if call == nil {
			r.Check(R6, base+" / exit "+describe(rl.v), pos, false, "result is neither a constructor call nor a user callback result")
			continue
		}
		if g := call.Call.StaticCallee(); g != nil {
			known, isCtor := knownCtor(g)
			switch {
			case !isCtor:
				r.Check(R6, base+" / exit via "+fnName(g), pos, false, "unrecognised result source")
			case !known:
				r.Trivial(R6, base+" / exit unknown-role in arm "+assertedType(rl.b), pos, true, "unknown role never establishes")
			default:
				arm := assertedType(rl.b)
				ok := arm == "*GuestAuthentication" && uuidOK(rl.b)
				r.Check(R6, base+" / exit known-role via "+g.Name()+" in arm "+arm, pos, ok, "a known role may be returned directly only in the guest arm after uuid.Parse(identity.Name) succeeded")
			}
			continue
		}
		// user callback: a call of a captured variable
		cbType := types.TypeString(call.Call.Value.Type(), func(pk *types.Package) string { return pk.Name() })
		arm := assertedType(rl.b)
		nonNil := condGuard(rl.b, func(cd Cond) bool {
			if cd.Op != token.NEQ {
				return false
			}
			x, y := cd.X, cd.Y
			if isNilConst(x) {
				x, y = y, x
			}
			return isNilConst(y) && sameCaptured(x, call.Call.Value)
		})
		ok := schemeOf[cbType] == arm && nonNil
		r.Check(R6, base+" / exit via user callback "+cbType, pos, ok, fmt.Sprintf("arm %s, callback non-nil guarded=%v; the callback for a scheme must run only on that scheme's credential type and only when configured", arm, nonNil))
	}
	r.Check(R6, base+" / exits inventoried", p.pos(closure.Pos()), n >= 6, fmt.Sprintf("%d exits", n))
	r.Check(R6, "func (*ServerBuilder).Build / installs the builder authenticator", "-", installed, "config.Authenticate must be the closure analysed above")
}

func sameCaptured(a, b ssa.Value) bool {
	a, b = stripConv(a), stripConv(b)
	if a == b {
		return true
	}
	// the same field of the same receiver / captured struct
	if pa, pb := pathOf(a), pathOf(b); pa.Root == pb.Root && len(pa.Fields) > 0 && len(pa.Fields) == len(pb.Fields) {
		same := true
		for i := range pa.Fields {
			if pa.Fields[i] != pb.Fields[i] {
				same = false
			}
		}
		if same {
			return true
		}
	}
	ra, rb := pathOf(a).Root, pathOf(b).Root
	fa, oka := ra.(*ssa.FreeVar)
	fb, okb := rb.(*ssa.FreeVar)
	if oka && okb {
		return fa == fb
	}
	// both loads of the same captured cell
	ua, oka := a.(*ssa.UnOp)
	ub, okb := b.(*ssa.UnOp)
	if oka && okb && ua.X == ub.X {
		return true
	}
	return false
}

// returnLeavesOf: leaves of result idx for one Return instruction (handles defer-spilled results).
func returnLeavesOf(r *ssa.Return, idx int) []ssa.Value {
	var out []ssa.Value
	for _, rl := range returnLeaves(r.Parent(), idx) {
		if rl.in == r {
			out = append(out, rl.v)
		}
	}
	return out
}
