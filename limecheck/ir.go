package main

import (
	"fmt"
	"go/constant"
	"go/token"
	"go/types"
	"sort"
	"strings"

	"golang.org/x/tools/go/ssa"
)

// ---------------------------------------------------------------------------------------------
// iteration

func eachInstr(fn *ssa.Function, f func(ssa.Instruction)) {
	for _, b := range fn.Blocks {
		for _, in := range b.Instrs {
			f(in)
		}
	}
}

func eachCall(fn *ssa.Function, f func(ssa.CallInstruction)) {
	eachInstr(fn, func(in ssa.Instruction) {
		if c, ok := in.(ssa.CallInstruction); ok {
			f(c)
		}
	})
}

// anonFuncsOf returns fn plus all function literals nested in it, transitively.
func withAnon(fn *ssa.Function) []*ssa.Function {
	out := []*ssa.Function{fn}
	for _, a := range fn.AnonFuncs {
		out = append(out, withAnon(a)...)
	}
	return out
}

func topLevel(fn *ssa.Function) *ssa.Function {
	for fn.Parent() != nil {
		fn = fn.Parent()
	}
	return fn
}

// enclosedBy: fn is outer or a function literal nested (at any depth) in it.
func enclosedBy(fn, outer *ssa.Function) bool {
	for f := fn; f != nil; f = f.Parent() {
		if f == outer {
			return true
		}
	}
	return false
}

// ---------------------------------------------------------------------------------------------
// callee resolution

func staticCallee(c ssa.CallInstruction) *ssa.Function {
	return c.Common().StaticCallee()
}

// isInvoke reports whether c is a dynamic call of interface method m (same name declared on the same interface type,
// or on an interface embedding it).
func isInvoke(c ssa.CallInstruction, m *types.Func) bool {
	cc := c.Common()
	if !cc.IsInvoke() || m == nil {
		return false
	}
	if cc.Method == m {
		return true
	}
	return cc.Method.Name() == m.Name() && cc.Method.Pkg() == m.Pkg() && types.Identical(cc.Method.Type(), m.Type()) &&
		sameOrigin(cc.Method, m)
}

func sameOrigin(a, b *types.Func) bool {
	return a.Pos() == b.Pos()
}

// invokeName returns the method name for dynamic calls on interface type named iface.
func invokeOn(c ssa.CallInstruction, iface *types.Named) string {
	cc := c.Common()
	if !cc.IsInvoke() {
		return ""
	}
	it := iface.Underlying().(*types.Interface)
	for i := 0; i < it.NumMethods(); i++ {
		if sameOrigin(it.Method(i), cc.Method) && it.Method(i).Name() == cc.Method.Name() {
			return cc.Method.Name()
		}
	}
	return ""
}

// calleesAt returns the call-graph targets of a call site (VTA), restricted to functions with bodies.
func (p *Prog) calleesAt(c ssa.CallInstruction) []*ssa.Function {
	if f := staticCallee(c); f != nil {
		return []*ssa.Function{f}
	}
	n := p.CG.Nodes[c.Parent()]
	if n == nil {
		return nil
	}
	var out []*ssa.Function
	seen := map[*ssa.Function]bool{}
	for _, e := range n.Out {
		if e.Site == c && e.Callee != nil && e.Callee.Func != nil && !seen[e.Callee.Func] {
			seen[e.Callee.Func] = true
			out = append(out, e.Callee.Func)
		}
	}
	sort.Slice(out, func(i, j int) bool { return out[i].String() < out[j].String() })
	return out
}

// callersOf lists the call sites of fn (static calls, closures bound and called, method values) per call graph.
func (p *Prog) callersOf(fn *ssa.Function) []ssa.CallInstruction {
	n := p.CG.Nodes[fn]
	if n == nil {
		return nil
	}
	var out []ssa.CallInstruction
	seen := map[ssa.CallInstruction]bool{}
	for _, e := range n.In {
		if e.Site != nil && !seen[e.Site] {
			seen[e.Site] = true
			out = append(out, e.Site)
		}
	}
	sort.Slice(out, func(i, j int) bool { return out[i].Pos() < out[j].Pos() })
	return out
}

// reachable computes the in-repo functions reachable from roots through the call graph (go and defer included).
func (p *Prog) reachable(roots ...*ssa.Function) map[*ssa.Function]bool {
	seen := map[*ssa.Function]bool{}
	var visit func(f *ssa.Function)
	visit = func(f *ssa.Function) {
		if f == nil || seen[f] {
			return
		}
		if f.Pkg != p.Lime && f.Pkg != p.Chat {
			// promoted-method / bound-method wrappers: follow them
			if f.Synthetic == "" {
				return
			}
			if f.Pkg != nil && f.Pkg != p.Lime && f.Pkg != p.Chat {
				return
			}
		}
		seen[f] = true
		if n := p.CG.Nodes[f]; n != nil {
			for _, e := range n.Out {
				visit(e.Callee.Func)
			}
		}
		// sync.Once.Do(f) runs f: the call graph edge leaves the repository, so follow the argument directly
		eachCall(f, func(c ssa.CallInstruction) {
			if g := staticCallee(c); g != nil && g.Pkg != nil && g.Pkg.Pkg.Path() == "sync" && g.Name() == "Do" && len(c.Common().Args) == 2 {
				switch x := stripConv(c.Common().Args[1]).(type) {
				case *ssa.MakeClosure:
					fn := x.Fn.(*ssa.Function)
					visit(fn)
					// bound-method wrapper: its target
					eachCall(fn, func(c2 ssa.CallInstruction) { visit(staticCallee(c2)) })
				case *ssa.Function:
					visit(x)
				}
			}
		})
		for _, a := range f.AnonFuncs {
			// a literal that is only stored (not called here) is still part of the function's behaviour
			_ = a
		}
	}
	for _, r := range roots {
		visit(r)
	}
	return seen
}

// ---------------------------------------------------------------------------------------------
// access paths

// AP is a canonical access path: a root value followed by a chain of struct fields.
type AP struct {
	Root   ssa.Value
	Fields []*types.Var
}

func (a AP) Last() *types.Var {
	if len(a.Fields) == 0 {
		return nil
	}
	return a.Fields[len(a.Fields)-1]
}

func (a AP) String() string {
	var sb strings.Builder
	switch r := a.Root.(type) {
	case nil:
		sb.WriteString("?")
	case *ssa.Parameter:
		sb.WriteString(r.Name())
	case *ssa.FreeVar:
		sb.WriteString(r.Name())
	case *ssa.Global:
		sb.WriteString(r.Name())
	case *ssa.Const:
		sb.WriteString("const(" + r.Value.String() + ")")
	default:
		sb.WriteString(r.Name())
	}
	for _, f := range a.Fields {
		sb.WriteString("." + f.Name())
	}
	return sb.String()
}

// FieldNames returns the field chain with embedded-struct hops removed (Envelope, Command, channel, TCPConfig…).
func (a AP) FieldNames() []string {
	var out []string
	for _, f := range a.Fields {
		if f.Embedded() {
			continue
		}
		out = append(out, f.Name())
	}
	return out
}

func structField(t types.Type, idx int) *types.Var {
	if p, ok := t.Underlying().(*types.Pointer); ok {
		t = p.Elem()
	}
	st, ok := t.Underlying().(*types.Struct)
	if !ok {
		return nil
	}
	return st.Field(idx)
}

// singleStore returns the only value ever stored into alloc a, if exactly one store exists
// (the shape go/ssa gives to variables captured by closures and to address-taken locals).
func singleStore(a *ssa.Alloc) ssa.Value {
	var v ssa.Value
	n := 0
	for _, r := range *a.Referrers() {
		if st, ok := r.(*ssa.Store); ok && st.Addr == a {
			n++
			v = st.Val
		}
	}
	if n == 1 {
		return v
	}
	return nil
}

// freeVarBinding resolves a closure's free variable to the value bound at its (unique) MakeClosure site.
func freeVarBinding(fv *ssa.FreeVar) ssa.Value {
	fn := fv.Parent()
	par := fn.Parent()
	if par == nil {
		return nil
	}
	idx := -1
	for i, f := range fn.FreeVars {
		if f == fv {
			idx = i
		}
	}
	var bound ssa.Value
	n := 0
	eachInstr(par, func(in ssa.Instruction) {
		if mc, ok := in.(*ssa.MakeClosure); ok && mc.Fn == fn {
			n++
			bound = mc.Bindings[idx]
		}
	})
	if n == 1 {
		return bound
	}
	return nil
}

// pathOf canonicalises a value (or address) into an access path. Loads through pointers and address-of are
// both folded, so `c.state`, `&c.state` and `*(&c.state)` share one path.
func pathOf(v ssa.Value) AP {
	return pathOfD(v, 0)
}

func pathOfD(v ssa.Value, d int) AP {
	if d > 40 {
		return AP{Root: v}
	}
	switch x := v.(type) {
	case *ssa.FieldAddr:
		b := pathOfD(x.X, d+1)
		f := structField(x.X.Type(), x.Field)
		return AP{Root: b.Root, Fields: append(append([]*types.Var{}, b.Fields...), f)}
	case *ssa.Field:
		b := pathOfD(x.X, d+1)
		f := structField(x.X.Type(), x.Field)
		return AP{Root: b.Root, Fields: append(append([]*types.Var{}, b.Fields...), f)}
	case *ssa.UnOp:
		if x.Op == token.MUL {
			if a, ok := x.X.(*ssa.Alloc); ok {
				if sv := singleStore(a); sv != nil {
					return pathOfD(sv, d+1)
				}
				return AP{Root: a}
			}
			if fv, ok := x.X.(*ssa.FreeVar); ok {
				// captured variable cell: resolve to the enclosing function's variable
				if b := freeVarBinding(fv); b != nil {
					if a, ok := b.(*ssa.Alloc); ok {
						if sv := singleStore(a); sv != nil {
							return pathOfD(sv, d+1)
						}
					}
				}
				return AP{Root: fv}
			}
			return pathOfD(x.X, d+1)
		}
		return AP{Root: v}
	case *ssa.ChangeType:
		return pathOfD(x.X, d+1)
	case *ssa.Convert:
		return pathOfD(x.X, d+1)
	case *ssa.MakeInterface:
		return pathOfD(x.X, d+1)
	case *ssa.ChangeInterface:
		return pathOfD(x.X, d+1)
	case *ssa.FreeVar:
		if b := freeVarBinding(x); b != nil {
			return pathOfD(b, d+1)
		}
		return AP{Root: x}
	case *ssa.Alloc:
		// a by-value struct parameter spilled to a cell: `t = local T; *t = param`
		if sv := singleStore(x); sv != nil {
			if pr, ok := sv.(*ssa.Parameter); ok {
				return AP{Root: pr}
			}
		}
		return AP{Root: x}
	}
	return AP{Root: v}
}

// fieldLoad reports whether v reads field f (through any number of loads/conversions); returns the base path.
func readsField(v ssa.Value, f *types.Var) bool {
	ap := pathOf(v)
	return ap.Last() == f && f != nil
}

// ---------------------------------------------------------------------------------------------
// CFG reachability with removed edges / barriers

type edge struct {
	from *ssa.BasicBlock
	succ int
}

// reachBlocks computes blocks reachable from start, skipping edges for which cut returns true.
func reachBlocks(start *ssa.BasicBlock, cut func(from *ssa.BasicBlock, succIdx int) bool) map[*ssa.BasicBlock]bool {
	seen := map[*ssa.BasicBlock]bool{start: true}
	work := []*ssa.BasicBlock{start}
	for len(work) > 0 {
		b := work[len(work)-1]
		work = work[:len(work)-1]
		for i, s := range b.Succs {
			if cut != nil && cut(b, i) {
				continue
			}
			if !seen[s] {
				seen[s] = true
				work = append(work, s)
			}
		}
	}
	return seen
}

func entryOf(fn *ssa.Function) *ssa.BasicBlock {
	if len(fn.Blocks) == 0 {
		return nil
	}
	return fn.Blocks[0]
}

// guardedBy: every path from the function entry to block target crosses an If edge accepted by pred.
func guardedBy(target *ssa.BasicBlock, pred func(ifi *ssa.If, branch bool) bool) bool {
	fn := target.Parent()
	entry := entryOf(fn)
	if entry == nil {
		return false
	}
	seen := reachBlocks(entry, func(from *ssa.BasicBlock, i int) bool {
		ifi, ok := from.Instrs[len(from.Instrs)-1].(*ssa.If)
		if !ok {
			return false
		}
		return pred(ifi, i == 0)
	})
	return !seen[target]
}

// mustEdges lists the If edges every entry→target path must cross.
func mustEdges(target *ssa.BasicBlock) []edge {
	fn := target.Parent()
	entry := entryOf(fn)
	var out []edge
	for _, b := range fn.Blocks {
		if _, ok := b.Instrs[len(b.Instrs)-1].(*ssa.If); !ok {
			continue
		}
		for i := range b.Succs {
			bb, ii := b, i
			seen := reachBlocks(entry, func(from *ssa.BasicBlock, k int) bool { return from == bb && k == ii })
			if !seen[target] {
				out = append(out, edge{b, i})
			}
		}
	}
	return out
}

func ifOf(b *ssa.BasicBlock) *ssa.If {
	if len(b.Instrs) == 0 {
		return nil
	}
	ifi, _ := b.Instrs[len(b.Instrs)-1].(*ssa.If)
	return ifi
}

// walkFrom explores all instruction paths starting right after instruction `from` (or at the function entry when
// from is nil). visit is called for every instruction met; it returns stop=true to cut the path at that point.
// defers seen on a path are replayed at RunDefers: onDefer(d) is asked whether the deferred call is a barrier.
// Returns the list of terminal instructions (Return / Panic / fall-off) reached without being cut.
type walkOpts struct {
	barrier      func(in ssa.Instruction) bool // path stops here (obligation satisfied on this path)
	deferBarrier func(d *ssa.Defer) bool       // a deferred call that acts as barrier when RunDefers executes
	cutEdge      func(from *ssa.BasicBlock, succIdx int) bool
	includePanic bool                                             // report panics as exits too
	seeDefers    bool                                             // hand Defer instructions to barrier() as well (registration point)
	onExit       func(exit ssa.Instruction, pred *ssa.BasicBlock) // called for every (exit, predecessor block) pair reached
}

type exitPoint struct {
	in ssa.Instruction
}

func walkFrom(fn *ssa.Function, from ssa.Instruction, o walkOpts) []ssa.Instruction {
	type state struct {
		b        *ssa.BasicBlock
		deferred bool
	}
	var exits []ssa.Instruction
	seenExit := map[ssa.Instruction]bool{}
	seen := map[state]bool{}
	// deferred barriers registered before `from` on every path (dominating) count from the start
	startDeferred := false
	var run func(b *ssa.BasicBlock, idx int, deferred bool)
	var curPred *ssa.BasicBlock
	type sp struct {
		s state
		p *ssa.BasicBlock
	}
	seenP := map[sp]bool{}
	run = func(b *ssa.BasicBlock, idx int, deferred bool) {
		myPred := curPred
		for i := idx; i < len(b.Instrs); i++ {
			in := b.Instrs[i]
			if d, ok := in.(*ssa.Defer); ok {
				if o.seeDefers && o.barrier != nil && o.barrier(in) {
					return
				}
				if o.deferBarrier != nil && o.deferBarrier(d) {
					deferred = true
				}
				continue
			}
			if _, ok := in.(*ssa.RunDefers); ok {
				if deferred {
					return
				}
				continue
			}
			if o.barrier != nil && o.barrier(in) {
				return
			}
			switch in.(type) {
			case *ssa.Return:
				if o.onExit != nil {
					o.onExit(in, myPred)
				}
				if !seenExit[in] {
					seenExit[in] = true
					exits = append(exits, in)
				}
				return
			case *ssa.Panic:
				if o.includePanic && !seenExit[in] {
					seenExit[in] = true
					exits = append(exits, in)
				}
				return
			}
		}
		for k, s := range b.Succs {
			if o.cutEdge != nil && o.cutEdge(b, k) {
				continue
			}
			st := state{s, deferred}
			if o.onExit != nil {
				// predecessor-sensitive: revisit a block when entered from a new predecessor
				k2 := sp{st, b}
				if seenP[k2] {
					continue
				}
				seenP[k2] = true
			} else {
				if seen[st] {
					continue
				}
				seen[st] = true
			}
			curPred = b
			run(s, 0, deferred)
		}
	}
	if from == nil {
		e := entryOf(fn)
		if e == nil {
			return nil
		}
		seen[state{e, false}] = true
		run(e, 0, false)
		return exits
	}
	b := from.Block()
	// defers that dominate `from`
	if o.deferBarrier != nil {
		eachInstr(fn, func(in ssa.Instruction) {
			if d, ok := in.(*ssa.Defer); ok && o.deferBarrier(d) && instrDominates(d, from) {
				startDeferred = true
			}
		})
	}
	idx := 0
	for i, in := range b.Instrs {
		if in == from {
			idx = i + 1
		}
	}
	run(b, idx, startDeferred)
	return exits
}

// instrDominates: a executes before b on every path reaching b.
func instrDominates(a, b ssa.Instruction) bool {
	if a.Block() == b.Block() {
		for _, in := range a.Block().Instrs {
			if in == a {
				return true
			}
			if in == b {
				return false
			}
		}
	}
	return a.Block().Dominates(b.Block())
}

// reachesInstr: is there a path from right after `from` to `to`?
func reachesInstr(from, to ssa.Instruction) bool {
	found := false
	walkFrom(from.Parent(), from, walkOpts{barrier: func(in ssa.Instruction) bool {
		if in == to {
			found = true
			return true
		}
		return false
	}})
	return found
}

// ---------------------------------------------------------------------------------------------
// conditions

// Cond is a normalised branch condition: Op applied to X,Y holds on the edge in question.
type Cond struct {
	Op   token.Token // EQL NEQ LSS LEQ GTR GEQ, or ILLEGAL when Val is a bare boolean value
	X, Y ssa.Value
	Val  ssa.Value // the boolean value (when Op==ILLEGAL) that is Truth on this edge
	True bool
}

func negOp(op token.Token) token.Token {
	switch op {
	case token.EQL:
		return token.NEQ
	case token.NEQ:
		return token.EQL
	case token.LSS:
		return token.GEQ
	case token.GEQ:
		return token.LSS
	case token.GTR:
		return token.LEQ
	case token.LEQ:
		return token.GTR
	}
	return token.ILLEGAL
}

// condOn normalises the condition of ifi as it holds on the given branch.
func condOn(ifi *ssa.If, branch bool) Cond {
	return normCond(ifi.Cond, branch)
}

func normCond(v ssa.Value, truth bool) Cond {
	switch x := v.(type) {
	case *ssa.UnOp:
		if x.Op == token.NOT {
			return normCond(x.X, !truth)
		}
	case *ssa.BinOp:
		switch x.Op {
		case token.EQL, token.NEQ, token.LSS, token.LEQ, token.GTR, token.GEQ:
			op := x.Op
			if !truth {
				op = negOp(op)
			}
			return Cond{Op: op, X: x.X, Y: x.Y, True: true}
		}
	}
	return Cond{Op: token.ILLEGAL, Val: v, True: truth}
}

func isNilConst(v ssa.Value) bool {
	c, ok := v.(*ssa.Const)
	return ok && c.Value == nil
}

func constString(v ssa.Value) (string, bool) {
	c, ok := v.(*ssa.Const)
	if !ok || c.Value == nil {
		return "", false
	}
	if c.Value.Kind() == constant.String {
		return constant.StringVal(c.Value), true
	}
	return "", false
}

// stateConst: v is a string constant, or the State field read back from a local struct (the session envelope a function
// has just built) all of whose stores to that field are the same constant.
func stateConst(v ssa.Value) (string, bool) {
	v = stripConv(v)
	if cs, ok := constString(v); ok {
		return cs, true
	}
	u, ok := v.(*ssa.UnOp)
	if !ok || u.Op != token.MUL {
		return "", false
	}
	fa, ok := u.X.(*ssa.FieldAddr)
	if !ok {
		return "", false
	}
	f := structField(fa.X.Type(), fa.Field)
	al, isAlloc := stripConv(fa.X).(*ssa.Alloc)
	if f == nil || !isAlloc {
		return "", false
	}
	sts := storesInto(al, f.Name())
	if len(sts) == 0 {
		return "", false
	}
	val := ""
	for k, st := range sts {
		cs, ok := constString(stripConv(st.Val))
		if !ok || (k > 0 && cs != val) {
			return "", false
		}
		val = cs
	}
	return val, true
}

func constInt(v ssa.Value) (int64, bool) {
	c, ok := v.(*ssa.Const)
	if !ok || c.Value == nil {
		return 0, false
	}
	if c.Value.Kind() == constant.Int {
		i, ok := constant.Int64Val(c.Value)
		return i, ok
	}
	return 0, false
}

// stripConv removes value-preserving wrappers.
func stripConv(v ssa.Value) ssa.Value {
	for {
		switch x := v.(type) {
		case *ssa.ChangeType:
			v = x.X
		case *ssa.Convert:
			v = x.X
		case *ssa.MakeInterface:
			v = x.X
		case *ssa.ChangeInterface:
			v = x.X
		default:
			return v
		}
	}
}

// callOf returns the call instruction producing v (directly or through Extract).
func callOf(v ssa.Value) (*ssa.Call, int) {
	v = stripConv(v)
	switch x := v.(type) {
	case *ssa.Call:
		return x, -1
	case *ssa.Extract:
		if c, ok := x.Tuple.(*ssa.Call); ok {
			return c, x.Index
		}
	}
	return nil, -1
}

// errNilEdge: on which branch of ifi is call's error result nil?  Returns (call, true) if ifi tests `err ==/!= nil`
// where err is a result of a call.
func errTest(ifi *ssa.If, branch bool) (call *ssa.Call, resIdx int, isNil bool, ok bool) {
	c := condOn(ifi, branch)
	if c.Op != token.EQL && c.Op != token.NEQ {
		return nil, 0, false, false
	}
	var other ssa.Value
	if isNilConst(c.Y) {
		other = c.X
	} else if isNilConst(c.X) {
		other = c.Y
	} else {
		return nil, 0, false, false
	}
	for _, cand := range phiInputs(other) {
		if call, idx := callOf(cand); call != nil {
			return call, idx, c.Op == token.EQL, true
		}
	}
	return nil, 0, false, false
}

// errTestOf: ifi tests `err ==/!= nil` where err is (possibly through phis, as when several calls share one test) the
// error result of the call want; isNil tells whether this branch is the nil one.
func errTestOf(ifi *ssa.If, branch bool, want ssa.Instruction) (isNil bool, ok bool) {
	c := condOn(ifi, branch)
	if c.Op != token.EQL && c.Op != token.NEQ {
		return false, false
	}
	var other ssa.Value
	if isNilConst(c.Y) {
		other = c.X
	} else if isNilConst(c.X) {
		other = c.Y
	} else {
		return false, false
	}
	for _, cand := range phiInputs(other) {
		if call, _ := callOf(cand); call != nil && ssa.Instruction(call) == want {
			return c.Op == token.EQL, true
		}
	}
	return false, false
}

// phiInputs expands phis (one level deep repeatedly) into their leaf inputs; non-phi values yield themselves.
func phiInputs(v ssa.Value) []ssa.Value {
	var out []ssa.Value
	seen := map[ssa.Value]bool{}
	var rec func(v ssa.Value)
	rec = func(v ssa.Value) {
		if seen[v] {
			return
		}
		seen[v] = true
		if ph, ok := v.(*ssa.Phi); ok {
			for _, e := range ph.Edges {
				rec(e)
			}
			return
		}
		out = append(out, v)
	}
	rec(v)
	return out
}

// ---------------------------------------------------------------------------------------------
// provenance

// leaves walks the value graph backwards through phis, extracts, conversions and local cells, returning the
// leaf values a value may come from.
func leaves(v ssa.Value) []ssa.Value {
	var out []ssa.Value
	seen := map[ssa.Value]bool{}
	var rec func(v ssa.Value, d int)
	rec = func(v ssa.Value, d int) {
		if v == nil || seen[v] || d > 60 {
			return
		}
		seen[v] = true
		switch x := v.(type) {
		case *ssa.Phi:
			for _, e := range x.Edges {
				rec(e, d+1)
			}
		case *ssa.ChangeType:
			rec(x.X, d+1)
		case *ssa.Convert:
			rec(x.X, d+1)
		case *ssa.MakeInterface:
			rec(x.X, d+1)
		case *ssa.ChangeInterface:
			rec(x.X, d+1)
		case *ssa.UnOp:
			if x.Op == token.MUL {
				if a, ok := x.X.(*ssa.Alloc); ok {
					n := 0
					for _, r := range *a.Referrers() {
						if st, ok := r.(*ssa.Store); ok && st.Addr == a {
							n++
							rec(st.Val, d+1)
						}
					}
					if n == 0 {
						out = append(out, v)
					}
					return
				}
				if fv, ok := x.X.(*ssa.FreeVar); ok {
					if b := freeVarBinding(fv); b != nil {
						if a, ok := b.(*ssa.Alloc); ok {
							n := 0
							for _, r := range *a.Referrers() {
								if st, ok := r.(*ssa.Store); ok && st.Addr == a {
									n++
									rec(st.Val, d+1)
								}
							}
							if n > 0 {
								return
							}
						}
					}
				}
			}
			out = append(out, v)
		case *ssa.FreeVar:
			if b := freeVarBinding(x); b != nil {
				rec(b, d+1)
				return
			}
			out = append(out, v)
		default:
			out = append(out, v)
		}
	}
	rec(v, 0)
	return out
}

// describe renders a value for reports.
func describe(v ssa.Value) string {
	if v == nil {
		return "<nil>"
	}
	switch x := v.(type) {
	case *ssa.Const:
		if x.Value == nil {
			return "nil"
		}
		return x.Value.String()
	case *ssa.Call:
		if f := x.Call.StaticCallee(); f != nil {
			return "call " + fnName(f)
		}
		if x.Call.IsInvoke() {
			return "invoke " + x.Call.Method.Name()
		}
		return "call " + describe(x.Call.Value)
	case *ssa.Extract:
		return fmt.Sprintf("%s#%d", describe(x.Tuple), x.Index)
	case *ssa.Parameter:
		return "param " + x.Name()
	case *ssa.Function:
		return "func " + fnName(x)
	case *ssa.MakeClosure:
		return "closure " + fnName(x.Fn.(*ssa.Function))
	}
	ap := pathOf(v)
	if len(ap.Fields) > 0 {
		return ap.String()
	}
	return v.Name() + ":" + strings.TrimPrefix(fmt.Sprintf("%T", v), "*ssa.")
}

// ---------------------------------------------------------------------------------------------
// stores into a composite value

// storesInto returns, for a struct held in cell `base` (an Alloc or any pointer value), the stores whose address is
// base.<chain...>; chain names skip nothing (embedded fields must be listed).
func storesInto(base ssa.Value, chain ...string) []*ssa.Store {
	var out []*ssa.Store
	var rec func(addr ssa.Value, rest []string)
	rec = func(addr ssa.Value, rest []string) {
		refs := addr.Referrers()
		if refs == nil {
			return
		}
		for _, r := range *refs {
			switch x := r.(type) {
			case *ssa.FieldAddr:
				if x.X != addr || len(rest) == 0 {
					continue
				}
				f := structField(x.X.Type(), x.Field)
				if f != nil && f.Name() == rest[0] {
					rec(x, rest[1:])
				}
			case *ssa.Store:
				if x.Addr == addr && len(rest) == 0 {
					out = append(out, x)
				}
			}
		}
	}
	rec(base, chain)
	return out
}

// fieldStoresAnywhere lists every Store in fns whose address is a FieldAddr of field f.
func fieldStores(fns []*ssa.Function, f *types.Var) []*ssa.Store {
	var out []*ssa.Store
	for _, fn := range fns {
		eachInstr(fn, func(in ssa.Instruction) {
			st, ok := in.(*ssa.Store)
			if !ok {
				return
			}
			if fa, ok := st.Addr.(*ssa.FieldAddr); ok {
				if structField(fa.X.Type(), fa.Field) == f {
					out = append(out, st)
				}
			}
		})
	}
	return out
}

// ---------------------------------------------------------------------------------------------
// locks (A8)

type lockSet map[string]bool

func (l lockSet) clone() lockSet {
	n := lockSet{}
	for k := range l {
		n[k] = true
	}
	return n
}

func (l lockSet) String() string {
	var s []string
	for k := range l {
		s = append(s, k)
	}
	sort.Strings(s)
	return "{" + strings.Join(s, ",") + "}"
}

// mutexOp classifies a call as Lock/Unlock/RLock/RUnlock on sync.Mutex / sync.RWMutex, returning the mutex path.
func mutexOp(c ssa.CallInstruction) (op string, mu string) {
	f := staticCallee(c)
	if f == nil || f.Pkg == nil || f.Pkg.Pkg.Path() != "sync" {
		return "", ""
	}
	sig := f.Signature
	if sig.Recv() == nil {
		return "", ""
	}
	rt := sig.Recv().Type().String()
	if rt != "*sync.Mutex" && rt != "*sync.RWMutex" {
		return "", ""
	}
	switch f.Name() {
	case "Lock", "Unlock", "RLock", "RUnlock":
		args := c.Common().Args
		if len(args) == 0 {
			return "", ""
		}
		ap := pathOf(args[0])
		name := strings.Join(ap.FieldNames(), ".")
		if name == "" {
			name = ap.String()
		}
		return f.Name(), name
	}
	return "", ""
}

// heldLocks computes, for every instruction of fn, the set of mutexes that are held on every path reaching it.
// Write locks are recorded as "W:<path>", read locks as "R:<path>". Deferred unlocks release at function exit only.
func heldLocks(fn *ssa.Function) map[ssa.Instruction]lockSet {
	in := map[*ssa.BasicBlock]lockSet{}
	res := map[ssa.Instruction]lockSet{}
	if len(fn.Blocks) == 0 {
		return res
	}
	transfer := func(b *ssa.BasicBlock, s lockSet, record bool) lockSet {
		cur := s.clone()
		for _, ins := range b.Instrs {
			if record {
				res[ins] = cur.clone()
			}
			c, ok := ins.(ssa.CallInstruction)
			if !ok {
				continue
			}
			if _, isDefer := ins.(*ssa.Defer); isDefer {
				continue
			}
			if _, isGo := ins.(*ssa.Go); isGo {
				continue
			}
			op, mu := mutexOp(c)
			switch op {
			case "Lock":
				cur["W:"+mu] = true
			case "Unlock":
				delete(cur, "W:"+mu)
			case "RLock":
				cur["R:"+mu] = true
			case "RUnlock":
				delete(cur, "R:"+mu)
			}
		}
		return cur
	}
	in[fn.Blocks[0]] = lockSet{}
	changed := true
	for iter := 0; changed && iter < 100; iter++ {
		changed = false
		for _, b := range fn.Blocks {
			s, ok := in[b]
			if !ok {
				continue
			}
			out := transfer(b, s, false)
			for _, succ := range b.Succs {
				old, ok := in[succ]
				if !ok {
					in[succ] = out.clone()
					changed = true
					continue
				}
				// intersection
				for k := range old {
					if !out[k] {
						delete(old, k)
						changed = true
					}
				}
			}
		}
	}
	for _, b := range fn.Blocks {
		if s, ok := in[b]; ok {
			transfer(b, s, true)
		}
	}
	return res
}

// ---------------------------------------------------------------------------------------------
// misc

func namedOf(t types.Type) *types.Named {
	if p, ok := t.(*types.Pointer); ok {
		t = p.Elem()
	}
	n, _ := t.(*types.Named)
	return n
}

func typeIs(t types.Type, n *types.Named) bool {
	x := namedOf(t)
	return x != nil && n != nil && x.Obj() == n.Obj()
}

func sortedKeys(m map[string]bool) []string {
	var s []string
	for k := range m {
		s = append(s, k)
	}
	sort.Strings(s)
	return s
}

// impliedConds lists the comparisons that necessarily hold when the edge (ifi, branch) is taken. A plain condition
// implies itself; a short-circuit boolean materialised as a phi (`ok := a && b; if ok`) implies, for each input that
// can produce the branch's truth value, the guards of its predecessor plus the input itself — intersected over inputs.
func impliedConds(ifi *ssa.If, branch bool) []Cond {
	return impliedOfValue(ifi.Cond, branch, 0)
}

type condKey struct {
	op   token.Token
	x, y ssa.Value
	val  ssa.Value
	t    bool
}

func keyOfCond(c Cond) condKey { return condKey{c.Op, c.X, c.Y, c.Val, c.True} }

func impliedOfValue(v ssa.Value, truth bool, depth int) []Cond {
	c := normCond(v, truth)
	if c.Op != token.ILLEGAL || depth > 6 {
		return []Cond{c}
	}
	ph, ok := c.Val.(*ssa.Phi)
	if !ok {
		return []Cond{c}
	}
	var sets []map[condKey]Cond
	for i, e := range ph.Edges {
		if cst, ok := e.(*ssa.Const); ok && cst.Value != nil {
			if (cst.Value.String() == "true") != c.True {
				continue
			}
			set := map[condKey]Cond{}
			for _, me := range mustEdges(ph.Block().Preds[i]) {
				for _, ic := range impliedOfValue(ifOf(me.from).Cond, me.succ == 0, depth+1) {
					set[keyOfCond(ic)] = ic
				}
			}
			sets = append(sets, set)
			continue
		}
		set := map[condKey]Cond{}
		for _, me := range mustEdges(ph.Block().Preds[i]) {
			for _, ic := range impliedOfValue(ifOf(me.from).Cond, me.succ == 0, depth+1) {
				set[keyOfCond(ic)] = ic
			}
		}
		for _, ic := range impliedOfValue(e, c.True, depth+1) {
			set[keyOfCond(ic)] = ic
		}
		sets = append(sets, set)
	}
	out := []Cond{c}
	if len(sets) == 0 {
		return out
	}
	for k, ic := range sets[0] {
		all := true
		for _, s2 := range sets[1:] {
			if _, ok := s2[k]; !ok {
				all = false
			}
		}
		if all {
			out = append(out, ic)
		}
	}
	return out
}

// contradicts returns a cutEdge function for walks that start in block `at`: an If edge is infeasible when its condition
// is the negation of a condition every path to `at` has already established on the very same SSA value (values are
// immutable, so `if !inUse {insert}; if inUse {return}` cannot take both then-branches).
func contradicts(at *ssa.BasicBlock) func(from *ssa.BasicBlock, k int) bool {
	type key struct {
		op   token.Token
		x, y ssa.Value
		val  ssa.Value
	}
	known := map[key]bool{} // → truth
	for _, me := range mustEdges(at) {
		for _, c := range impliedConds(ifOf(me.from), me.succ == 0) {
			if c.Op == token.ILLEGAL {
				known[key{val: c.Val}] = c.True
			} else {
				known[key{op: c.Op, x: c.X, y: c.Y}] = true
				known[key{op: negOp(c.Op), x: c.X, y: c.Y}] = false
			}
		}
	}
	return func(from *ssa.BasicBlock, k int) bool {
		ifi := ifOf(from)
		if ifi == nil {
			return false
		}
		c := condOn(ifi, k == 0)
		if c.Op == token.ILLEGAL {
			t, ok := known[key{val: c.Val}]
			return ok && t != c.True
		}
		t, ok := known[key{op: c.Op, x: c.X, y: c.Y}]
		return ok && !t
	}
}
