#!/usr/bin/env python3
"""ingest_refactors.py <area>: applies each behaviour-preserving refactoring a sub-agent left in /tmp/rf-<area> to a scratch
copy, checks build + unchanged suite, and runs all 20 properties on it. Silent ones are kept under selftest/refactors/_all/;
every alarm is printed (a false alarm to be fixed in the checker, or a refactoring that is not behaviour-preserving)."""
import subprocess, os, sys, shutil, tempfile, glob
area=sys.argv[1]; wt=sys.argv[2] if len(sys.argv)>2 else '/tmp/rf-'+area
ENV=dict(os.environ, GOFLAGS='-mod=mod', GOPROXY='off', GOSUMDB='off', GOTOOLCHAIN='local', GOWORK='off')
os.makedirs('/verif/selftest/refactors/_all',exist_ok=True)
pat=sys.argv[3] if len(sys.argv)>3 else 'refactor'
for f in sorted(glob.glob(wt+'/'+pat+'*.diff')):
    n=os.path.basename(f)[len(pat):-5]
    d=tempfile.mkdtemp(prefix='rf.',dir='/var/tmp')
    try:
        subprocess.run(['rsync','-a','--exclude','.git','/repo/',d+'/'],check=True)
        a=subprocess.run(['git','apply','--whitespace=nowarn',f],cwd=d,capture_output=True,text=True)
        oldbase=False
        if a.returncode!=0:
            a=subprocess.run('patch -p1 -s < '+f,cwd=d,shell=True,capture_output=True,text=True)
            if a.returncode!=0:
                # written against the tree before the latest fix: evaluate it there (the open finding of that tree is ignored)
                shutil.rmtree(d); os.makedirs(d)
                subprocess.run('git -C /repo archive b140a7a | tar -x -C '+d,shell=True,check=True)
                oldbase=True
                if subprocess.run(['git','apply','--whitespace=nowarn',f],cwd=d,capture_output=True).returncode!=0: print(area,n,'does not apply'); continue
        if subprocess.run(['go','build','./...'],cwd=d,env=ENV,capture_output=True).returncode!=0: print(area,n,'does not build'); continue
        ok=False
        for _ in range(3):
            if subprocess.run('flock /tmp/lime-go-test.lock go test -vet=off -count=1 ./...',cwd=d,env=ENV,shell=True,capture_output=True).returncode==0: ok=True; break
        if not ok: print(area,n,'suite fails'); continue
        alarms=[]
        for i in range(1,21):
            p='C%02d'%i
            r=subprocess.run(['/verif/bin/limecheck','-root',d,'-property',p,'-evidence','none'],capture_output=True,text=True)
            if r.returncode!=0:
                first=[l for l in r.stdout.split('\n') if ': C' in l and 'KNOWN' not in l and not (oldbase and 'C15.D Transport.SetEncryption' in l)][:2]
                if oldbase and not first: continue
                alarms.append((p,[x.replace(d+'/','')[:230] for x in first] or [r.stderr[:200]]))
        if alarms:
            print(area,n,'ALARM')
            for p,ls in alarms:
                for l in ls: print('    ',l)
            shutil.copy(f,f'/verif/selftest/refactors/_pending_{area}-{n}.diff')
        else:
            print(area,n,'silent')
            if not oldbase: shutil.copy(f,f'/verif/selftest/refactors/_all/{area}-{n}.diff')
    finally:
        shutil.rmtree(d,ignore_errors=True)
