#!/usr/bin/env python3
"""ingest_disguise.py <dir> <seed1> <seed2>: a sub-agent rewrote two kept seeded faults in a different shape (helpers
extracted, control flow reshaped, identifiers renamed) without changing the fault. Each disguiseN.diff is re-verified in a
scratch copy (builds, suite green, the seed's demonstration still fails with it) and run through all 20 checks; the seed's own
property must still report it. Kept under seeded/<seed>-dN/."""
import json, os, shutil, subprocess, sys, re, tempfile
d=sys.argv[1]; seeds=sys.argv[2:4]
ENV=dict(os.environ, GOFLAGS='-mod=mod', GOPROXY='off', GOSUMDB='off', GOTOOLCHAIN='local', GOWORK='off')
for n,sid in enumerate(seeds,1):
    f=f'{d}/disguise{n}.diff'
    if not os.path.exists(f): print(sid,'missing'); continue
    prop=sid.split('-')[0]
    t=tempfile.mkdtemp(prefix='dg.',dir='/var/tmp')
    try:
        subprocess.run(['rsync','-a','--exclude','.git','/repo/',t+'/'],check=True)
        base='working tree'
        if subprocess.run(['git','apply','--whitespace=nowarn',f],cwd=t,capture_output=True).returncode!=0 and subprocess.run('patch -p1 -s < '+f,cwd=t,shell=True,capture_output=True).returncode!=0:
            # written against the tree before the latest fix: evaluate it there
            shutil.rmtree(t); os.makedirs(t)
            subprocess.run('git -C /repo archive b140a7a | tar -x -C '+t,shell=True,check=True)
            base='b140a7a'
            if subprocess.run(['git','apply','--whitespace=nowarn',f],cwd=t,capture_output=True).returncode!=0:
                print(sid,'does not apply'); continue
        if subprocess.run(['go','build','./...'],cwd=t,env=ENV,capture_output=True).returncode!=0: print(sid,'does not build'); continue
        suite='ok'
        for _ in range(2):
            ok=False
            for _ in range(2):
                if subprocess.run('flock /tmp/lime-go-test.lock go test -vet=off -count=1 ./...',cwd=t,env=ENV,shell=True,capture_output=True).returncode==0: ok=True; break
            if not ok: suite='fail'
        shutil.copy(f'/verif/seeded/{sid}/demo_test.go.txt',t+'/zz_seed_test.go')
        demo=subprocess.run("flock /tmp/lime-go-test.lock timeout 120 go test -vet=off -count=1 -run 'Seed|seed' .",cwd=t,env=ENV,shell=True,capture_output=True,text=True)
        os.remove(t+'/zz_seed_test.go')
        r=subprocess.run(['/verif/bin/limecheck','-root',t,'-property','all','-evidence','none'],capture_output=True,text=True)
        fired={}
        for m in re.finditer(r': (C\d+)\.([A-Z]\d*) ', r.stdout): fired.setdefault(m.group(1),set()).add(m.group(1)+'.'+m.group(2))
        rep=' '.join(f'{p}[{",".join(sorted(x))},]' for p,x in sorted(fired.items()))
        valid = suite=='ok' and demo.returncode!=0
        own = prop in fired
        print(sid,'(on '+base+')','valid' if valid else f'INVALID(suite={suite},demo_exit={demo.returncode})','CAUGHT' if own else 'MISSED',rep)
        if valid and base=='working tree':
            out=f'/verif/seeded/{sid}-d{n}'; os.makedirs(out,exist_ok=True)
            shutil.copy(f,out+'/patch.diff'); shutil.copy(f'/verif/seeded/{sid}/demo_test.go.txt',out+'/demo_test.go.txt')
            meta=json.load(open(f'/verif/seeded/{sid}/meta.json'))
            meta.update({'written_by':'independent sub-agent asked to rewrite the kept seed '+sid+' in a different shape (same fault, restructured code)','disguise_of':sid,
                'limecheck_reports':rep,'caught_by_own_property_check':own,'description':'Disguised version of '+sid+': '+meta.get('description','')[:1500]})
            json.dump(meta,open(out+'/meta.json','w'),indent=1)
    finally:
        shutil.rmtree(t,ignore_errors=True)
