#!/usr/bin/env python3
"""ingest_seeds.py <property>: re-verifies the two seeded changes a sub-agent left in /tmp/wt-<property> and, when they hold
up (build, suite green with the change, demonstration fails with it and passes without), keeps them under seeded/."""
import json, os, shutil, subprocess, sys, re
prop=sys.argv[1]; wt=sys.argv[2] if len(sys.argv)>2 else '/tmp/wt-'+prop; tag=sys.argv[3] if len(sys.argv)>3 else 's'
seedsmd=open(wt+'/SEEDS.md').read() if os.path.exists(wt+'/SEEDS.md') else ''
for n in (1,2):
    if not os.path.exists(f'{wt}/seed{n}.diff'):
        print(prop,n,'missing'); continue
    out=subprocess.run(['/verif/tools/verify_seed.sh',wt,str(n),prop],capture_output=True,text=True).stdout.strip().split('\n')[-1]
    try: res=json.loads(out)
    except Exception: print(prop,n,'unparsable',out[:200]); continue
    caught=prop in res.get('fired','')
    print(prop,n,'ok=%s'%res['ok'],'suite=%s'%res['suite'],'fired=%s'%res['fired'].strip(),'CAUGHT' if caught else 'MISSED')
    if not res['ok']: continue
    d=f'/verif/seeded/{prop}-{tag}{n}'; os.makedirs(d,exist_ok=True)
    shutil.copy(f'{wt}/seed{n}.diff',d+'/patch.diff'); shutil.copy(f'{wt}/zz_seed{n}_test.go.txt',d+'/demo_test.go.txt')
    # the agent's own description of this seed
    m=re.split(r'\n## ',seedsmd)
    desc=''
    for part in m:
        if part.lower().startswith(f'seed{n}') or part.lower().startswith(f'seed {n}'): desc=part
    meta={'property':prop,'written_by':'independent sub-agent given only the property text and a scratch worktree',
      'needs_to_manifest':(re.search(r'(?is)(needed to manifest|what is needed)[^\n]*\n(.*?)(\n\*\*|\n###|\Z)',desc) or [None,None,''])[2].strip()[:1500],
      'description':desc[:3000],
      'verified_here':{'build':'ok','existing_suite_with_change':res['suite']+' (2 runs)','demonstration_with_change':'fails (exit %d)'%res['demo_with_change_exit'],'demonstration_without_change':'passes','demo_output':res['demo_output']},
      'limecheck_reports':res['fired'].strip(),'caught_by_own_property_check':caught,
      'commands':['tools/verify_seed.sh %s %d %s'%(wt,n,prop)]}
    json.dump(meta,open(d+'/meta.json','w'),indent=1)
