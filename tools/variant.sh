#!/bin/bash
# usage: tools/variant.sh <patch-file | revert:<commit>> <property>[,<property>...] [extra limecheck args]
# Applies a source edit to a scratch copy of /repo (never to /repo), checks it still builds, runs limecheck on it, removes the copy.
set -u
export GOFLAGS=-mod=mod GOPROXY=off GOSUMDB=off GOTOOLCHAIN=local GOWORK=off
what=$1; props=$2; shift 2
case "$what" in revert:*) ;; /*) ;; *) what="$PWD/$what";; esac
d=$(mktemp -d /var/tmp/lcv.XXXXXX)
trap 'rm -rf "$d"' EXIT
rsync -a --exclude .git /repo/ "$d/"
case "$what" in
  revert:*) git -C /repo show "${what#revert:}" | (cd "$d" && patch -R -p1 -s) || { echo "VARIANT: revert does not apply"; exit 3; } ;;
  *) (cd "$d" && patch -p1 -s < "$what") || { echo "VARIANT: patch does not apply"; exit 3; } ;;
esac
(cd "$d" && go build ./... ) || { echo "VARIANT: does not build"; exit 3; }
if [ "${VARIANT_TEST:-0}" = 1 ]; then (cd "$d" && go test -vet=off -count=1 . >/dev/null 2>&1) || { echo "VARIANT: existing tests fail"; exit 4; }; fi
rc=0
for p in ${props//,/ }; do
  /verif/bin/limecheck -root "$d" -property "$p" -evidence none "$@" | sed "s|$d/||g" | grep -v "^RULE" ; r=${PIPESTATUS[0]}; [ $r -gt $rc ] && rc=$r
done
exit $rc
