#!/usr/bin/env python3
"""Regenerates /verif/MANIFEST.json from tools/claims.json and the list of properties limecheck implements."""
import json, subprocess, os, sys
here = os.path.dirname(os.path.dirname(os.path.abspath(__file__)))
claims = json.load(open(os.path.join(here, 'tools', 'claims.json')))
props = [json.loads(l) for l in open(os.path.join(here, 'properties.jsonl'))]
try:
    impl = subprocess.check_output([os.path.join(here, 'bin', 'limecheck'), '-list'], text=True).split()
except Exception as e:
    print('cannot list implemented properties:', e, file=sys.stderr); sys.exit(1)
ENV = 'GOFLAGS=-mod=mod GOPROXY=off GOSUMDB=off GOTOOLCHAIN=local GOWORK=off'
checks, na = [], []
for p in props:
    pid = p['id']
    c = claims.get(pid, {})
    if pid in impl and c.get('claim', True):
        checks.append({
            'property_id': pid,
            'quick_cmd': f'bin/limecheck -property {pid} -tier quick',
            'thorough_cmd': f'bin/limecheck -property {pid} -tier thorough',
            'evidence_file': f'/verif/evidence/{pid}.json',
            'replay_cmd_template': 'bin/limecheck -explain {path}',
            'engine': 'limecheck',
            'level_claimed': {'category': 'other', 'text': c['text'], 'design_ref': f'DESIGN.md §3 {pid}'},
            'level_note': c['note'],
            'technique': c['technique'],
        })
    else:
        na.append({'property_id': pid, 'reason': c.get('na_reason', 'static check for this property is not built yet (see DESIGN.md §3 %s for the planned rules); nothing is claimed until it is' % pid)})
m = {
    'version': 1,
    'setup_cmd': f'cd limecheck && {ENV} go build -o ../bin/limecheck . ',
    'hooks': {
        'guard': 'verif',
        'enable': 'go build -tags verif (limecheck loads /repo with -tags=verif); no hook source exists: static analysis needs none',
        'baseline_off_cmd': f'cd /repo && {ENV} go test -vet=off -count=1 ./...',
        'source_commits': [],
        'add_only': True,
    },
    'engines': [{'name': 'limecheck', 'path': 'limecheck/', 'serves_properties': [c['property_id'] for c in checks],
                 'kind_free_text': 'repository-specific static analyser over go/packages + go/ssa + VTA call graph (x/tools v0.29.0): dominance/must-pass-through, guard facts, provenance, lock-held, channel-discipline and field read/write-set rules'}],
    'checks': checks,
    'not_applicable': na,
    'notes': 'Every check is static analysis of /repo\'s working tree; no lime-go code is executed by any registered command. All claims are level "other": structural necessary conditions decided exhaustively over the CFG/call graph; the behavioural residue of each property is listed in level_note and DESIGN.md §5.',
}
json.dump(m, open(os.path.join(here, 'MANIFEST.json'), 'w'), indent=1)
print('checks:', len(checks), 'not_applicable:', len(na))
