#!/bin/bash
# usage: tools/mkvar.sh <diff> [dir]  — scratch copy of /repo with the diff applied (default /var/tmp/var)
p=$(readlink -f "$1"); d=${2:-/var/tmp/var}; rm -rf "$d"; mkdir -p "$d"; rsync -a --exclude .git /repo/ "$d/"
(cd "$d" && (git apply --whitespace=nowarn "$p" 2>/dev/null || patch -p1 -s < "$p")) && echo "$d"
