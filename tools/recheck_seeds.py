#!/usr/bin/env python3
"""recheck_seeds.py: runs all 20 properties on every kept seeded change (scratch copies, never /repo) and refreshes the
'limecheck_reports' / 'caught_by_own_property_check' fields of its meta.json."""
import glob, json, os, re, subprocess, sys
from concurrent.futures import ThreadPoolExecutor
V='/verif'
def run(d):
    meta=json.load(open(d+'/meta.json'))
    p=subprocess.run([f'{V}/tools/variant.sh',d+'/patch.diff','all'],capture_output=True,text=True)
    if p.returncode==3: return (d,meta,None)
    fired={}
    for m in re.finditer(r': (C\d+)\.([A-Z]\d*) ', p.stdout):
        fired.setdefault(m.group(1),set()).add(m.group(1)+'.'+m.group(2))
    return (d,meta,fired)
dirs=sorted(glob.glob(f'{V}/seeded/*/'))
dirs=[d.rstrip('/') for d in dirs if os.path.exists(d+'/meta.json')]
with ThreadPoolExecutor(max_workers=10) as ex: res=list(ex.map(run,dirs))
miss=0
for d,meta,fired in res:
    sid=os.path.basename(d)
    if fired is None:
        print(sid,'does not apply/build'); continue
    rep=' '.join(f'{p}[{",".join(sorted(r))},]' for p,r in sorted(fired.items()))
    own=meta['property'] in fired
    meta['limecheck_reports']=rep; meta['caught_by_own_property_check']=own
    json.dump(meta,open(d+'/meta.json','w'),indent=1)
    if not own and not meta.get('neutralised_by_fix'): miss+=1
    print(sid,'CAUGHT' if own else ('neutralised' if meta.get('neutralised_by_fix') else 'MISSED'),rep)
print('missed by own property:',miss)
