#!/usr/bin/env python3
"""Renames one private identifier at a time in a scratch copy of /repo (gofmt -r), checks it still builds, and runs all
20 limecheck properties on it. A behaviour-preserving rename must stay silent; every alarm is a name dependency of a rule."""
import subprocess, os, sys, shutil, tempfile, json
from concurrent.futures import ThreadPoolExecutor
ENV=dict(os.environ, GOFLAGS='-mod=mod', GOPROXY='off', GOSUMDB='off', GOTOOLCHAIN='local', GOWORK='off')
names=sys.argv[1:] or """sendSession receiveSession sendToTransport setState setStateWLock startReceiver stopReceiver receiveFromTransport
trySubmitCommandResult processCommand ensureEstablished ensureState ensureTransportOK channel state transport sessionID localNode remoteNode
client inMsgChan inSesChan sendMu rcvDone processingCmds processingCmdsMu rawEnvelope envelopeType toEnvelope toRawEnvelope populate intersect contains
negotiateSession authenticateSession handleChannel consumeTransports acceptTransports getOrBuildChannel buildChannel channelOK tcpTransport
ctxConn limitedReader eof setConn sessionContext listen handleMessage messageHandler predicate handlerFunc authFactories documentFactories
inProcListeners startListener stopListener receiveSessionFromServer sendEstablishedSession sendNegotiatingOptionsSession NewCtxConn
rawDocumentContainer startNewSession transportChan stopRcv startRcv cancel requestCommandHandler msgHandlers encryption conn ensureOpen
websocketTransport inProcessTransport tcpTransportListener readTimeout writeCtx shutdown listeners lock""".split()
PROPS=['C%02d'%i for i in range(1,21)]
def run(name):
    d=tempfile.mkdtemp(prefix='ren.',dir='/var/tmp')
    try:
        subprocess.run(['rsync','-a','--exclude','.git','/repo/',d+'/'],check=True)
        new=name+'Zq' if name[0].islower() else name+'Zq'
        files=[os.path.join(dp,f) for dp,_,fs in os.walk(d) for f in fs if f.endswith('.go')]
        subprocess.run(['gofmt','-r',f'{name} -> {new}','-w']+files,check=True,env=ENV,capture_output=True)
        b=subprocess.run(['go','build','./...'],cwd=d,env=ENV,capture_output=True,text=True)
        if b.returncode!=0: return (name,'nobuild',b.stderr[:200])
        v=subprocess.run(['go','vet','-vettool=/bin/true','./...'],cwd=d,env=ENV,capture_output=True,text=True)  # compile tests too
        bad=[]
        r=subprocess.run(['/verif/bin/limecheck','-root',d,'-property','all','-evidence','none'],capture_output=True,text=True)
        if r.returncode!=0:
            for l in [l for l in r.stdout.split('\n') if ': C' in l and 'KNOWN' not in l][:3]:
                bad.append((l.split(': ')[1].split('.')[0] if ': ' in l else '?', l[:200]))
            if not bad: bad.append(('?',r.stderr[:200]))
        return (name,'ok' if not bad else 'ALARM',bad)
    finally:
        shutil.rmtree(d,ignore_errors=True)
with ThreadPoolExecutor(max_workers=10) as ex: res=list(ex.map(run,names))
n=0
for name,st,info in res:
    if st=='ok': continue
    n+=1
    print(name,st)
    if st=='ALARM':
        for p,l in info: print('   ',p,l)
    else: print('   ',info)
print(len(res),'renames;',n,'with alarms/nobuild')
