#!/usr/bin/env python3
"""mkmut.py <kind:mutants|refactors> <prop> <name> <file> <old> <new> [<file> <old> <new> ...]
Creates selftest/<kind>/<prop>/<name>.diff: a unified diff against /repo replacing old by new (exactly one occurrence each)."""
import sys, os, difflib
kind, prop, name = sys.argv[1:4]
rest = sys.argv[4:]
out = []
edits = {}
for i in range(0, len(rest), 3):
    f, old, new = rest[i:i+3]
    src = edits.get(f) or open('/repo/' + f).read()
    if src.count(old) != 1:
        sys.exit(f'{name}: {f}: pattern occurs {src.count(old)} times')
    edits[f] = src.replace(old, new)
for f, new in edits.items():
    a = open('/repo/' + f).read().splitlines(True)
    b = new.splitlines(True)
    out += difflib.unified_diff(a, b, 'a/' + f, 'b/' + f)
d = os.path.join('/verif/selftest', kind, prop)
os.makedirs(d, exist_ok=True)
open(os.path.join(d, name + '.diff'), 'w').write(''.join(out))
print('wrote', os.path.join(d, name + '.diff'))
