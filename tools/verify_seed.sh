#!/bin/bash
# usage: tools/verify_seed.sh <worktree> <n> <property>
# Re-verifies a sub-agent's seeded change in a scratch copy of /repo (never in /repo):
#   builds, full suite green with the change (twice), demonstration fails with the change and passes without it;
# then runs every limecheck property on the changed copy. Prints a JSON summary on the last line.
set -u
export GOFLAGS=-mod=mod GOPROXY=off GOSUMDB=off GOTOOLCHAIN=local GOWORK=off
wt=$1; n=$2; prop=$3
patch="$wt/seed$n.diff"; demo="$wt/zz_seed${n}_test.go.txt"
[ -s "$patch" ] && [ -s "$demo" ] || { echo '{"ok":false,"why":"missing deliverables"}'; exit 2; }
d=$(mktemp -d /var/tmp/seed.XXXXXX); trap 'rm -rf "$d"' EXIT
rsync -a --exclude .git /repo/ "$d/"
if grep -q "_test.go" "$patch"; then echo '{"ok":false,"why":"patch touches test files"}'; exit 2; fi
(cd "$d" && patch -p1 -s < "$patch") || { echo '{"ok":false,"why":"patch does not apply"}'; exit 2; }
(cd "$d" && go build ./... ) >/dev/null 2>&1 || { echo '{"ok":false,"why":"does not build"}'; exit 2; }
suite=ok
for i in 1 2; do (cd "$d" && flock /tmp/lime-go-test.lock go test -vet=off -count=1 ./... >/dev/null 2>&1) || suite=fail; done
cp "$demo" "$d/zz_seed_test.go"
(cd "$d" && flock /tmp/lime-go-test.lock timeout 120 go test -vet=off -count=1 -run 'Seed|seed' . >"$d/.demo_with.log" 2>&1); with=$?
# which checks report it
fired=""
for p in C01 C02 C03 C04 C05 C06 C07 C08 C09 C10 C11 C12 C13 C14 C15 C16 C17 C18 C19 C20; do
  rm -f "$d/zz_seed_test.go.bak"
  out=$(/verif/bin/limecheck -root "$d" -property $p -evidence none 2>&1); rc=$?
  if [ $rc -ne 0 ]; then rules=$(echo "$out" | grep -o ": C[0-9]*\.[A-Z][0-9]* " | sort -u | tr -d ' :' | tr '\n' ',' ); fired="$fired $p[$rules]"; fi
done
# demonstration on the clean tree
c=$(mktemp -d /var/tmp/seedc.XXXXXX); rsync -a --exclude .git /repo/ "$c/"; cp "$demo" "$c/zz_seed_test.go"
(cd "$c" && flock /tmp/lime-go-test.lock timeout 120 go test -vet=off -count=1 -run 'Seed|seed' . >"$c/.demo_without.log" 2>&1); without=$?
tailw=$(grep -m2 -E "^\s+zz_seed|FAIL|panic" "$d/.demo_with.log" | head -2 | tr '\n' ' ' | cut -c1-300 | sed 's/"/\\"/g')
rm -rf "$c"
echo "{\"ok\":$([ $suite = ok ] && [ $with -ne 0 ] && [ $without -eq 0 ] && echo true || echo false),\"suite\":\"$suite\",\"demo_with_change_exit\":$with,\"demo_without_change_exit\":$without,\"fired\":\"$fired\",\"demo_output\":\"$tailw\"}"
