#!/usr/bin/env python3
"""Regenerates the table of seeded/README.md from the meta.json files (prose before and after the table is kept)."""
import glob, json, os, re
V='/verif'
p=f'{V}/seeded/README.md'
s=open(p).read()
rows=[]
for d in sorted(glob.glob(f'{V}/seeded/*/')):
    m=d+'meta.json'
    if not os.path.exists(m): continue
    meta=json.load(open(m)); sid=os.path.basename(d.rstrip('/'))
    own='reports it' if meta.get('caught_by_own_property_check') else ('does not report it (neutralised by fix '+meta['neutralised_by_fix']+')' if meta.get('neutralised_by_fix') else 'does not report it')
    rows.append(f"| {sid} | {meta['property']} | {meta.get('limecheck_reports','').strip()} | {own} |")
table='| seed | property | reported by (rules) | own property check |\n|---|---|---|---|\n'+'\n'.join(rows)+'\n'
s=re.sub(r'\| seed \| property \|.*?\n\n', table+'\n', s, flags=re.S)
open(p,'w').write(s)
print(len(rows),'seeds')
