package lime

// Triage demonstrations for the defects the static rules reported on the pinned tree (DESIGN.md §4).
// NOT part of any registered check: copy next to the lime-go sources of a scratch copy and run
//   go test -count=1 -run TestDemo .        (F10: add -race)
// Each test fails on the defective tree and passes on the repaired one.

import (
	"bufio"
	"context"
	"crypto/tls"
	"encoding/json"
	"errors"
	"fmt"
	"net"
	"strings"
	"sync"
	"sync/atomic"
	"testing"
	"time"
)

func TestDemoF3NilDocument(t *testing.T) {
	for _, in := range []string{
		`{"id":"1","type":"application/vnd.lime.container+json","content":{"type":"text/plain"}}`,
		`{"id":"1","type":"application/vnd.lime.container+json","content":{"type":"text/plain","value":null}}`,
		`{"id":"1","type":"application/vnd.lime.collection+json","content":{"itemType":"text/plain","items":[null]}}`,
	} {
		func() {
			defer func() {
				if r := recover(); r != nil {
					t.Errorf("panic decoding %s: %v", in, r)
				}
			}()
			var m Message
			_ = json.Unmarshal([]byte(in), &m)
		}()
	}
}

func demoAddr(port int) net.Addr { return &net.TCPAddr{IP: net.IPv4(127, 0, 0, 1), Port: port} }

func TestDemoF4CleartextAuth(t *testing.T) {
	addr := demoAddr(55401)
	tc := make(chan Transport, 1)
	l := createTCPListenerTLS(t, addr, tc)
	defer silentClose(l)
	client := createClientTCPTransport(t, addr)
	defer silentClose(client)
	server := receiveTransport(t, tc)
	sc := NewServerChannel(server, 1, Node{Identity{"postmaster", "localhost"}, "srv"}, "sid-1")
	go func() {
		ctx, cancel := context.WithTimeout(context.Background(), time.Second)
		defer cancel()
		_ = sc.EstablishSession(ctx, []SessionCompression{SessionCompressionNone}, []SessionEncryption{SessionEncryptionTLS},
			[]AuthenticationScheme{AuthenticationSchemePlain},
			func(context.Context, Identity, Authentication) (*AuthenticationResult, error) { return MemberAuthenticationResult(), nil },
			func(_ context.Context, n Node, _ *ServerChannel) (Node, error) { return n, nil })
	}()
	ctx, cancel := context.WithTimeout(context.Background(), time.Second)
	defer cancel()
	if err := client.Send(ctx, &Session{State: SessionStateNew}); err != nil {
		t.Fatal(err)
	}
	env, err := client.Receive(ctx)
	if err != nil {
		t.Fatal(err)
	}
	ses := env.(*Session)
	if ses.State == SessionStateAuthenticating && client.Encryption() == SessionEncryptionNone {
		t.Errorf("server configured with EncryptionOptions(TLS) asks for credentials (%v) over a cleartext connection", ses.SchemeOptions)
	}
}

func TestDemoF5F6Callbacks(t *testing.T) {
	addr := InProcessAddr("demo-f5")
	var est, fin int32
	srv := NewServerBuilder().ListenInProcess(addr).EnableGuestAuthentication().
		Established(func(string, *ServerChannel) { atomic.AddInt32(&est, 1) }).
		Finished(func(string) { atomic.AddInt32(&fin, 1) }).Build()
	go func() { _ = srv.ListenAndServe() }()
	time.Sleep(50 * time.Millisecond)
	defer srv.Close()

	// F5: rejected guest (name is not a UUID)
	tr, err := DialInProcess(addr, 1)
	if err != nil {
		t.Fatal(err)
	}
	cc := NewClientChannel(tr, 1)
	ctx, cancel := context.WithTimeout(context.Background(), time.Second)
	defer cancel()
	ses, err := cc.EstablishSession(ctx, NoneCompressionSelector, NoneEncryptionSelector, Identity{"not-a-uuid", "localhost"}, GuestAuthenticator, "i")
	if err != nil || ses.State != SessionStateFailed {
		t.Fatalf("expected a failed session, got %v %v", ses, err)
	}
	time.Sleep(100 * time.Millisecond)
	if e, f := atomic.LoadInt32(&est), atomic.LoadInt32(&fin); e != 0 || f != 0 {
		t.Errorf("F5: rejected credentials, yet Established fired %d and Finished %d time(s)", e, f)
	}

	// F6: authentication callback error (transport scheme is not implemented by the builder's authenticator)
	tr2, _ := DialInProcess(addr, 1)
	cc2 := NewClientChannel(tr2, 1)
	ctx2, cancel2 := context.WithTimeout(context.Background(), 700*time.Millisecond)
	defer cancel2()
	_, err = cc2.EstablishSession(ctx2, NoneCompressionSelector, NoneEncryptionSelector, Identity{"x", "localhost"}, TransportAuthenticator, "i")
	if errors.Is(err, context.DeadlineExceeded) {
		t.Errorf("F6: server hit a callback error but left the connection open: client waited out its context: %v", err)
	}
}

func TestDemoF6bClientLeak(t *testing.T) {
	addr := InProcessAddr("demo-f6b")
	srv := NewServerBuilder().ListenInProcess(addr).EnableGuestAuthentication().Build()
	go func() { _ = srv.ListenAndServe() }()
	time.Sleep(50 * time.Millisecond)
	defer srv.Close()
	var made []*inProcessTransport
	cfg := NewClientConfig()
	cfg.Node.Name = "not-a-uuid"
	cfg.NewTransport = func(context.Context) (Transport, error) {
		tr, err := DialInProcess(addr, 1)
		if err == nil {
			made = append(made, tr.(*inProcessTransport))
		}
		return tr, err
	}
	c := &Client{config: cfg, mux: &EnvelopeMux{}, lock: make(chan struct{}, 1)}
	ctx, cancel := context.WithTimeout(context.Background(), time.Second)
	defer cancel()
	if _, err := c.buildChannel(ctx); err == nil {
		t.Fatal("expected a refused handshake")
	}
	_ = made
	// the server failed the session and closed; on in-process that closes both ends, so use a scripted server for the real leak
	ln, _ := net.Listen("tcp", "127.0.0.1:0")
	defer ln.Close()
	go func() {
		conn, err := ln.Accept()
		if err != nil {
			return
		}
		rd := bufio.NewReader(conn)
		dec := json.NewDecoder(rd)
		var v map[string]interface{}
		_ = dec.Decode(&v)
		_, _ = conn.Write([]byte(`{"id":"s","from":"srv@d/i","state":"authenticating","schemeOptions":["guest"]}`))
		_ = dec.Decode(&v)
		_, _ = conn.Write([]byte(`{"id":"s","from":"srv@d/i","state":"finishing"}`)) // neither established nor terminal
		time.Sleep(2 * time.Second)
		conn.Close()
	}()
	var tcpT Transport
	cfg.NewTransport = func(ctx context.Context) (Transport, error) {
		tr, err := DialTcp(ctx, ln.Addr(), nil)
		tcpT = tr
		return tr, err
	}
	if _, err := c.buildChannel(ctx); err == nil {
		t.Fatal("expected buildChannel to refuse a non-established reply")
	}
	if tcpT.Connected() {
		t.Errorf("F6b: buildChannel gave up on the handshake but left its transport open")
	}
}

func TestDemoF7InProcSendIgnoresContext(t *testing.T) {
	client, server := newInProcessTransportPair("demo-f7", 1)
	_ = server
	ctx, cancel := context.WithTimeout(context.Background(), 100*time.Millisecond)
	defer cancel()
	done := make(chan error, 1)
	go func() {
		var err error
		for i := 0; i < 3 && err == nil; i++ {
			err = client.Send(ctx, &Session{State: SessionStateNew})
		}
		done <- err
	}()
	select {
	case err := <-done:
		if err == nil {
			t.Error("sends to a full queue nobody reads should fail with the context error")
		}
	case <-time.After(time.Second):
		t.Error("F7: Send blocked well past its context deadline (peer not reading, buffer full)")
	}
}

func TestDemoF8ClientStateRegression(t *testing.T) {
	client, server := newInProcessTransportPair("demo-f8", 4)
	cc := NewClientChannel(client, 1)
	go func() {
		ctx := context.Background()
		_, _ = server.Receive(ctx) // new
		_ = server.Send(ctx, &Session{Envelope: Envelope{ID: "s"}, State: SessionStateNegotiating,
			CompressionOptions: []SessionCompression{SessionCompressionNone}, EncryptionOptions: []SessionEncryption{SessionEncryptionNone}})
		_, _ = server.Receive(ctx) // selection
		_ = server.Send(ctx, &Session{Envelope: Envelope{ID: "s"}, State: SessionStateNew}) // regression
	}()
	defer func() {
		if r := recover(); r != nil {
			t.Errorf("F8: client establishment panicked on a regressing server: %v", r)
		}
	}()
	ctx, cancel := context.WithTimeout(context.Background(), time.Second)
	defer cancel()
	_, _ = cc.EstablishSession(ctx, NoneCompressionSelector, NoneEncryptionSelector, Identity{"a", "b"}, GuestAuthenticator, "i")
}

type demoTimeoutErr struct{}

func (demoTimeoutErr) Error() string   { return "i/o timeout" }
func (demoTimeoutErr) Timeout() bool   { return true }
func (demoTimeoutErr) Temporary() bool { return true }

type demoConn struct {
	net.Conn
	written   []byte
	shortOnce bool
	readData  []byte
	readOnce  bool
}

func (c *demoConn) Write(b []byte) (int, error) {
	if !c.shortOnce {
		c.shortOnce = true
		c.written = append(c.written, b[:3]...)
		return 3, demoTimeoutErr{}
	}
	c.written = append(c.written, b...)
	return len(b), nil
}
func (c *demoConn) Read(b []byte) (int, error) {
	if !c.readOnce {
		c.readOnce = true
		n := copy(b, c.readData[:4])
		c.readData = c.readData[4:]
		return n, demoTimeoutErr{}
	}
	if len(c.readData) == 0 {
		return 0, errors.New("eof")
	}
	n := copy(b, c.readData)
	c.readData = c.readData[n:]
	return n, nil
}
func (c *demoConn) SetReadDeadline(time.Time) error  { return nil }
func (c *demoConn) SetWriteDeadline(time.Time) error { return nil }

func TestDemoF9ShortWriteRead(t *testing.T) {
	dc := &demoConn{}
	cc := NewCtxConn(dc, time.Second, time.Second)
	msg := []byte(`{"state":"new"}`)
	n, err := cc.Write(msg)
	if err != nil || n != len(msg) || string(dc.written) != string(msg) {
		t.Errorf("F9 write: short write + transient timeout: n=%d err=%v, peer received %q, want %q", n, err, dc.written, msg)
	}
	dc2 := &demoConn{readData: []byte(`{"state":"new"}`)}
	cc2 := NewCtxConn(dc2, time.Second, time.Second)
	var got []byte
	buf := make([]byte, 64)
	for {
		n, err := cc2.Read(buf)
		got = append(got, buf[:n]...)
		if err != nil {
			break
		}
	}
	if string(got) != `{"state":"new"}` {
		t.Errorf("F9 read: bytes delivered with a transient timeout were dropped: got %q", got)
	}
}

// run with -race
func TestDemoF10SessionSendUnserialised(t *testing.T) {
	addr := demoAddr(55410)
	tc := make(chan Transport, 1)
	l := createTCPListener(t, addr, tc)
	defer silentClose(l)
	client := createClientTCPTransport(t, addr)
	defer silentClose(client)
	server := receiveTransport(t, tc)
	sc := NewServerChannel(server, 8, Node{Identity{"postmaster", "localhost"}, "srv"}, "sid-1")
	sc.setState(SessionStateEstablished)
	go func() {
		for {
			if _, err := client.Receive(context.Background()); err != nil {
				return
			}
		}
	}()
	var wg sync.WaitGroup
	wg.Add(1)
	go func() {
		defer wg.Done()
		for i := 0; i < 200; i++ {
			_ = sc.SendMessage(context.Background(), createMessage())
		}
	}()
	time.Sleep(time.Millisecond)
	_ = sc.FinishSession(context.Background())
	wg.Wait()
}

func TestDemoF14BudgetNotRearmed(t *testing.T) {
	addr := demoAddr(55414)
	tc := make(chan Transport, 1)
	listener := NewTCPTransportListener(&TCPConfig{ReadLimit: 1000})
	if err := listener.Listen(context.Background(), addr); err != nil {
		t.Fatal(err)
	}
	defer silentClose(listener)
	go func() {
		tr, err := listener.Accept(context.Background())
		if err == nil {
			tc <- tr
		}
	}()
	conn, err := net.Dial("tcp", addr.String())
	if err != nil {
		t.Fatal(err)
	}
	defer conn.Close()
	server := receiveTransport(t, tc)
	bad := `{"id":5,"metadata":{"k":"` + strings.Repeat("a", 600) + `"}}`                                                       // type error, ~650 bytes
	good := `{"id":"1","type":"text/plain","content":"` + strings.Repeat("b", 700) + `"}`                                        // valid, ~750 bytes
	_, _ = conn.Write([]byte(bad))
	ctx, cancel := context.WithTimeout(context.Background(), time.Second)
	defer cancel()
	if _, err := server.Receive(ctx); err == nil {
		t.Fatal("expected a type error for the first envelope")
	}
	_, _ = conn.Write([]byte(good))
	if _, err := server.Receive(ctx); err != nil {
		t.Errorf("F14: an envelope within the read limit was refused after an earlier decode error: %v", err)
	}
}

func TestDemoF15CloseRace(t *testing.T) {
	// The panics of interest ("send on closed channel" in acceptTransports, "transport cannot be nil" in
	// consumeTransports) happen on the server's own goroutines and kill the test binary: surviving the loop is the pass criterion.
	for i := 0; i < 3000; i++ {
		addr := InProcessAddr(fmt.Sprintf("demo-f15-%d", i))
		srv := NewServer(NewServerConfig(), &EnvelopeMux{}, createBoundInProcTransportListener(addr))
		go func() { _ = srv.ListenAndServe() }()
		for srv.shutdown == nil {
			time.Sleep(10 * time.Microsecond)
		}
		stop := make(chan struct{})
		var wg sync.WaitGroup
		for k := 0; k < 6; k++ {
			wg.Add(1)
			go func() {
				defer wg.Done()
				for {
					select {
					case <-stop:
						return
					default:
						_, _ = DialInProcess(addr, 1)
					}
				}
			}()
		}
		time.Sleep(time.Duration(50+i%200) * time.Microsecond)
		_ = srv.Close()
		close(stop)
		wg.Wait()
	}
}

func TestDemoF16DeafClient(t *testing.T) {
	ln, err := net.Listen("tcp", "127.0.0.1:0")
	if err != nil {
		t.Fatal(err)
	}
	defer ln.Close()
	var accepts int32
	go func() {
		for {
			conn, err := ln.Accept()
			if err != nil {
				return
			}
			n := atomic.AddInt32(&accepts, 1)
			go func() {
				defer conn.Close()
				dec := json.NewDecoder(conn)
				var v map[string]interface{}
				_ = dec.Decode(&v)
				_, _ = conn.Write([]byte(`{"id":"s","from":"srv@d/i","state":"authenticating","schemeOptions":["guest"]}`))
				_ = dec.Decode(&v)
				_, _ = conn.Write([]byte(`{"id":"s","from":"srv@d/i","to":"c@d/i","state":"established"}`))
				if n == 1 {
					time.Sleep(50 * time.Millisecond)
					_, _ = conn.Write([]byte(`{"foo":"an envelope of no known kind"}`))
				}
				time.Sleep(3 * time.Second)
			}()
		}
	}()
	client := NewClientBuilder().UseTCP(ln.Addr(), nil).Build()
	defer client.Close()
	ctx, cancel := context.WithTimeout(context.Background(), time.Second)
	defer cancel()
	if err := client.Establish(ctx); err != nil {
		t.Fatal(err)
	}
	client.mu.RLock()
	ch := client.channel
	client.mu.RUnlock()
	select {
	case <-ch.RcvDone():
	case <-time.After(time.Second):
		t.Fatal("receiver should have ended on the undecodable envelope")
	}
	time.Sleep(300 * time.Millisecond)
	if client.channelOK() && atomic.LoadInt32(&accepts) == 1 {
		client.mu.RLock()
		same := client.channel == ch
		client.mu.RUnlock()
		if same {
			t.Errorf("F16: receiver goroutine is gone, yet the client still counts the channel as established and never rebuilds it (deaf client, spinning listener)")
		}
	}
}

func TestDemoF18DeafClientOnStraySession(t *testing.T) {
	ln, err := net.Listen("tcp", "127.0.0.1:0")
	if err != nil {
		t.Fatal(err)
	}
	defer ln.Close()
	var accepts int32
	go func() {
		for {
			conn, err := ln.Accept()
			if err != nil {
				return
			}
			n := atomic.AddInt32(&accepts, 1)
			go func() {
				defer conn.Close()
				dec := json.NewDecoder(conn)
				var v map[string]interface{}
				_ = dec.Decode(&v)
				_, _ = conn.Write([]byte(`{"id":"s","from":"srv@d/i","state":"authenticating","schemeOptions":["guest"]}`))
				_ = dec.Decode(&v)
				_, _ = conn.Write([]byte(`{"id":"s","from":"srv@d/i","to":"c@d/i","state":"established"}`))
				if n == 1 {
					time.Sleep(50 * time.Millisecond)
					_, _ = conn.Write([]byte(`{"id":"s","from":"srv@d/i","state":"established"}`)) // a stray, non-terminal session envelope
				}
				time.Sleep(3 * time.Second)
			}()
		}
	}()
	client := NewClientBuilder().UseTCP(ln.Addr(), nil).Build()
	defer client.Close()
	ctx, cancel := context.WithTimeout(context.Background(), time.Second)
	defer cancel()
	if err := client.Establish(ctx); err != nil {
		t.Fatal(err)
	}
	client.mu.RLock()
	ch := client.channel
	client.mu.RUnlock()
	select {
	case <-ch.RcvDone():
	case <-time.After(time.Second):
		t.Fatal("receiver should have ended on the session envelope")
	}
	time.Sleep(300 * time.Millisecond)
	if client.channelOK() && atomic.LoadInt32(&accepts) == 1 {
		client.mu.RLock()
		same := client.channel == ch
		client.mu.RUnlock()
		if same {
			t.Errorf("F18: receiver goroutine is gone (stray non-terminal session envelope), yet the client still counts the channel as established and never rebuilds it (deaf client, spinning listener)")
		}
	}
}

// F13 (fixed by 68e44e4): the TLS upgrade ignored cancellation and fell back to a 30 s deadline.
func TestDemoF13HandshakeIgnoresCancel(t *testing.T) {
	addr := demoAddr(55413)
	tc := make(chan Transport, 1)
	l := createTCPListenerTLS(t, addr, tc)
	defer silentClose(l)
	conn, err := net.Dial("tcp", addr.String()) // a silent peer: never answers the handshake
	if err != nil {
		t.Fatal(err)
	}
	defer conn.Close()
	server := receiveTransport(t, tc)
	ctx, cancel := context.WithCancel(context.Background()) // cancellation only, no deadline
	time.AfterFunc(100*time.Millisecond, cancel)
	start := time.Now()
	_ = server.SetEncryption(ctx, SessionEncryptionTLS)
	if d := time.Since(start); d > 6*time.Second {
		t.Errorf("F13: SetEncryption returned %v after its context was cancelled (documented poll interval: 5s)", d.Round(time.Second))
	}
}

// F19: after the peer closed its end (EOF), neither channel.Close nor tcpTransport.Close closes the server-side socket.
func TestDemoF19SocketNotClosedAfterPeerEOF(t *testing.T) {
	addr := demoAddr(55419)
	tc := make(chan Transport, 1)
	l := createTCPListener(t, addr, tc)
	defer silentClose(l)
	conn, err := net.Dial("tcp", addr.String())
	if err != nil {
		t.Fatal(err)
	}
	server := receiveTransport(t, tc)
	sc := NewServerChannel(server, 1, Node{Identity{"postmaster", "localhost"}, "srv"}, "sid-1")
	_ = conn.Close() // the peer vanishes on an envelope boundary
	ctx, cancel := context.WithTimeout(context.Background(), time.Second)
	defer cancel()
	if _, err := server.Receive(ctx); err == nil {
		t.Fatal("expected EOF")
	}
	_ = sc.Close() // what Server.handleChannel does to release a connection that failed to establish
	raw := server.(*tcpTransport)
	if raw.conn != nil {
		if _, err := raw.conn.Write([]byte("x")); err == nil || !strings.Contains(err.Error(), "closed network connection") {
			t.Errorf("F19: the server-side socket is still open after channel.Close (write error: %v): the descriptor is only released by the garbage collector", err)
		}
	}
}

var _ = tls.Config{}
